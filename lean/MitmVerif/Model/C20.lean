/-
  C20 — proxy authentication is enforced on every entry path.

  Model of mitmproxy/addons/proxyauth.py (`parse_http_basic_auth`, the validators, `ProxyAuth.requestheaders`,
  `http_connect`, `socks5_auth`, `authenticate_http`, the `authenticated` map) composed with the per-connection
  path machine of the proxy core:
    * HttpStream (layers/http/__init__.py): a response set by the `requestheaders` / `http_connect` hook is sent to
      the client *instead of* opening upstream; a CONNECT answered 2xx turns the connection into a tunnel whose
      payload is handled by a transparent HttpLayer; CONNECT inside a transparent HttpLayer is an invalid request
      (400 + close);
    * Socks5Proxy.state_greet / state_auth / state_connect (layers/modes.py).

  Texts are lists of code points (Python `str`); library functions are fields of `Lib`.
-/
import MitmVerif.Basic.Bytes
import MitmVerif.Gen.C20
namespace MitmVerif.C20

abbrev Text := List Nat

/-- library functions the code calls (parameters of the model; the theorems state the laws they need) -/
structure Lib where
  /-- `str.isspace` (what `str.split()` splits on) -/
  isSpace : Nat → Bool
  /-- `str.lower` on the characters that can lower-case to a letter of "basic" (identity elsewhere) -/
  lower : Nat → Nat
  /-- `binascii.a2b_base64(tok.encode()).decode("utf8", "replace")`; `none` = `binascii.Error` -/
  decodeCred : Text → Option Text
  /-- `bytes.decode("utf-8", "backslashreplace")` (SOCKS5 user / password) -/
  sockDecode : Bytes → Text
  /-- htpasswd hash comparison: `hashOk pwhash password` -/
  hashOk : Text → Text → Bool
  /-- the hash comparison raises instead of answering (e.g. `bcrypt.checkpw` with a password longer than 72 bytes) -/
  hashRaises : Text → Text → Bool := fun _ _ => false

def lookupLower (t : List (Nat × Nat)) (c : Nat) : Nat :=
  match t with
  | [] => c
  | (a, b) :: rest => if a = c then b else lookupLower rest c

/-- the tables regenerated from the running interpreter -/
def genIsSpace (c : Nat) : Bool := Gen.C20.spaceTable.contains c
def genLower (c : Nat) : Nat := lookupLower Gen.C20.lowerTable c

/-! ### parse_http_basic_auth -/

/-- `str.split()` : maximal runs of non-whitespace -/
def splitWsAux (sp : Nat → Bool) : Text → Text → List Text
  | [], cur => if cur.isEmpty then [] else [cur.reverse]
  | c :: cs, cur =>
    if sp c then (if cur.isEmpty then splitWsAux sp cs [] else cur.reverse :: splitWsAux sp cs [])
    else splitWsAux sp cs (c :: cur)

def splitWs (sp : Nat → Bool) (s : Text) : List Text := splitWsAux sp s []

def basicWord : Text := [98, 97, 115, 105, 99]   -- "basic"

def isSurrogate (c : Nat) : Bool := 0xD800 ≤ c && c ≤ 0xDFFF

/-- `s.split(":", 1)` unpacked into exactly two parts -/
def splitColon1 : Text → Option (Text × Text)
  | [] => none
  | c :: cs => if c = 58 then some ([], cs) else (splitColon1 cs).map (fun up => (c :: up.1, up.2))

/-- the code before the repair `fix: proxyauth splits Basic credentials at the first colon only`:
    `s.split(":")` unpacked into exactly two parts (kept to document the repaired defect F-C20a) -/
def splitColonAll (s : Text) : Option (Text × Text) :=
  match splitColon1 s with
  | none => none
  | some (u, p) => if p.contains 58 then none else some (u, p)

/-- `parse_http_basic_auth`: `none` = ValueError (incl. UnicodeEncodeError, binascii.Error) -/
def parseBasicWith (colon : Text → Option (Text × Text)) (L : Lib) (s : Text) : Option (Text × Text) :=
  match splitWs L.isSpace s with
  | [scheme, authinfo] =>
    if scheme.map L.lower ≠ basicWord then none
    else if authinfo.any isSurrogate then none          -- authinfo.encode() raises
    else match L.decodeCred authinfo with
      | none => none
      | some txt => colon txt
  | _ => none

def parseBasic (L : Lib) (s : Text) : Option (Text × Text) := parseBasicWith splitColon1 L s
def parseBasicOld (L : Lib) (s : Text) : Option (Text × Text) := parseBasicWith splitColonAll L s

/-! ### validators -/

inductive Validator where
  | any
  | single (u p : Text)
  | table (entries : List (Text × Text))      -- user ↦ pwhash, in file order
  | raising (bad : List (Text × Text)) (inner : Validator)   -- a validator whose __call__ raises on the listed pairs
  deriving Repr

/-- dict semantics: a later line for the same user replaces the earlier one -/
def tableLookup : List (Text × Text) → Text → Option Text
  | [], _ => none
  | (u, h) :: rest, u' =>
    match tableLookup rest u' with
    | some h' => some h'
    | none => if u = u' then some h else none

/-- `validator(username, password)`: `.error ()` = the call raises -/
def Validator.check (L : Lib) : Validator → Text → Text → Except Unit Bool
  | .any, _, _ => .ok true
  | .single u p, u', p' => .ok (u == u' && p == p')
  | .table es, u, p =>
    match tableLookup es u with
    | none => .ok false
    | some h =>
      let h0 := h.takeWhile (· ≠ 58)                     -- pwhash.split(":", 1)[0]
      if L.hashRaises h0 p then .error () else .ok (L.hashOk h0 p)
  | .raising bad inner, u, p => if bad.contains (u, p) then .error () else inner.check L u p

/-- what the hooks make of the validator's answer: `authenticate_http` wraps the call in `try … except Exception: pass`
    (is_valid stays False), and an exception escaping `socks5_auth` leaves `data.valid` False — a raising validator denies -/
def Validator.accepts (L : Lib) (v : Validator) (u p : Text) : Bool :=
  match v.check L u p with
  | .ok b => b
  | .error _ => false

/-! ### `ProxyAuth.configure`: which validator a `proxyauth` option value selects -/

inductive Conf where
  | off                          -- None or "": no validator
  | any                          -- "any"
  | htpasswd (path : Text)       -- "@path"
  | ldap (spec : Text)           -- "ldap…" (not modelled further)
  | single (u p : Text)          -- "user:pass" with exactly one ':' (SingleUser splits at EVERY colon and wants two parts)
  | invalid                      -- OptionsError
  deriving DecidableEq, Repr

def anyWord : Text := [97, 110, 121]          -- "any"
def ldapWord : Text := [108, 100, 97, 112]    -- "ldap"

def configureSpec : Option Text → Conf
  | none => .off
  | some a =>
    if a.isEmpty then .off
    else if a = anyWord then .any
    else match a with
      | 64 :: path => .htpasswd path
      | _ =>
        if ldapWord.isPrefixOf a then .ldap a
        else if a.contains 58 then
          match splitColonAll a with
          | some (u, p) => .single u p
          | none => .invalid
        else .invalid

/-! ### header fields -/

structure Hdr where
  name : Bytes          -- as received
  value : Text
  deriving DecidableEq, Repr

def nameIs (lname : Bytes) (h : Hdr) : Bool := asciiLower h.name == lname

def joinComma : List Text → Text
  | [] => []
  | [v] => v
  | v :: rest => v ++ [44, 32] ++ joinComma rest

/-- `headers.get(name, "")` : all values of that name joined by ", " -/
def hdrGet (hs : List Hdr) (lname : Bytes) : Text := joinComma ((hs.filter (nameIs lname)).map (·.value))

/-- `del headers[name]` -/
def hdrDel (hs : List Hdr) (lname : Bytes) : List Hdr := hs.filter (fun h => !nameIs lname h)

/-! ### the addon -/

inductive Mode where
  | regular | upstream | reverse | transparent | socks5
  deriving DecidableEq, Repr

/-- `is_http_proxy` -/
def Mode.isHttpProxy : Mode → Bool
  | .regular => true
  | .upstream => true
  | _ => false

def proxyAuthorization : Bytes := strBytes "proxy-authorization"
def authorization : Bytes := strBytes "authorization"

/-- `http_auth_header` (lower-cased) -/
def authName (m : Mode) : Bytes := if m.isHttpProxy then proxyAuthorization else authorization
/-- status of `make_auth_required_response` -/
def authCode (m : Mode) : Nat := if m.isHttpProxy then 407 else 401

/-- what a hook leaves behind: `pass hs` = no response set, header fields now `hs`; `deny c` = `flow.response` set -/
inductive HookOut where
  | pass (hs : List Hdr)
  | deny (code : Nat)
  deriving DecidableEq, Repr

/-- the credentials of a request are well-formed and the validator accepts them -/
def credsOk (L : Lib) (v : Validator) (m : Mode) (hs : List Hdr) : Bool :=
  match parseBasic L (hdrGet hs (authName m)) with
  | some (u, p) => v.accepts L u p
  | none => false

/-- `authenticate_http` -/
def authenticateHttp (L : Lib) (v : Validator) (m : Mode) (hs : List Hdr) : Bool × HookOut :=
  if credsOk L v m hs then (true, .pass (hdrDel hs (authName m))) else (false, .deny (authCode m))

/-- `ProxyAuth.requestheaders` -/
def requestheadersHook (L : Lib) (V : Option Validator) (authd : List Nat) (cid : Nat) (m : Mode)
    (replay : Bool) (hs : List Hdr) : HookOut :=
  match V with
  | none => .pass hs
  | some v =>
    if authd.contains cid then .pass hs
    else if replay then .pass hs
    else (authenticateHttp L v m hs).2

/-- `ProxyAuth.http_connect` -/
def httpConnectHook (L : Lib) (V : Option Validator) (authd : List Nat) (cid : Nat) (m : Mode)
    (hs : List Hdr) : List Nat × HookOut :=
  match V with
  | none => (authd, .pass hs)
  | some v =>
    let r := authenticateHttp L v m hs
    (if r.1 then cid :: authd else authd, r.2)

/-- `ProxyAuth.socks5_auth` -/
def socks5AuthHook (L : Lib) (V : Option Validator) (authd : List Nat) (cid : Nat) (u p : Bytes) :
    List Nat × Bool :=
  match V with
  | none => (authd, false)
  | some v =>
    if v.accepts L (L.sockDecode u) (L.sockDecode p) then (cid :: authd, true) else (authd, false)

/-- header fields (besides Host) of the CONNECT that mitmproxy itself sends to the upstream proxy for a client's tunnel
    (upstream mode): `_upstream_proxy.HttpUpstreamProxy.start_handshake` builds a NEW request (`Host` only, then the
    `http_connect_upstream` hook) — nothing of the client's CONNECT head is copied, whatever it carried -/
def upstreamConnectFields (_clientFields : List Hdr) : List Hdr := []

/-! ### the connection machine -/

inductive Phase where
  | http (tunnel : Bool)     -- `false`: the mode's own HttpLayer; `true`: transparent HttpLayer inside a tunnel / SOCKS relay
  | sGreet | sAuth | sConnect
  | closed
  deriving DecidableEq, Repr

inductive Ev where
  | req (connect : Bool) (big : Bool) (hs : List Hdr)   -- one HTTP/1.1 request; `big`: declared Content-Length > body_size_limit
  | sGreet (methods : Bytes)                   -- SOCKS5 greeting
  | sAuth (u p : Bytes)                        -- RFC 1929 message
  | sConnect                                   -- SOCKS5 CONNECT request (valid)
  deriving Repr

inductive Out where
  | fwd (hs : List Hdr)          -- request written upstream with these header fields; client gets the origin's answer
  | deny (code : Nat)            -- 407 / 401 page, nothing upstream
  | tunnel                       -- 200 Connection established, upstream opened / CONNECT sent to the upstream proxy
  | invalid                      -- 400 + close (CONNECT where none is allowed)
  | tooLarge                     -- 413 + close (check_body_size, before any authentication), nothing upstream
  | sMethod (m : Nat)            -- 05 m
  | sNoMethod                    -- 05 FF … + close
  | sAuthOk                      -- 01 00
  | sAuthFail                    -- 01 01 + close
  | sConnected                   -- upstream opened, 05 00 …
  | unmodelled                   -- an event that does not fit the phase (byte-level behaviour is C21's subject): closed
  | ignored                      -- the connection is closed
  deriving DecidableEq, Repr

/-- does this outcome cause upstream traffic (bytes, a tunnel, a connection to the requested destination)? -/
def Out.forwards : Out → Bool
  | .fwd _ => true
  | .tunnel => true
  | .sConnected => true
  | _ => false

structure State where
  authd : List Nat               -- ProxyAuth.authenticated (keys)
  phase : Nat → Phase

def initPhase (m : Mode) : Phase := if m = .socks5 then .sGreet else .http false

def State.init (modes : Nat → Mode) : State := ⟨[], fun c => initPhase (modes c)⟩

def State.setPhase (σ : State) (cid : Nat) (p : Phase) : State :=
  { σ with phase := fun c => if c = cid then p else σ.phase c }

/-- one event on connection `cid` (whose proxy mode is `m`) -/
def step (L : Lib) (V : Option Validator) (m : Mode) (σ : State) (cid : Nat) (e : Ev) : State × Out :=
  match σ.phase cid, e with
  | .closed, _ => (σ, .ignored)
  | .http tunnel, .req connect big hs =>
    let proxyLayer := m.isHttpProxy && !tunnel          -- HTTPMode.regular / upstream (else transparent)
    if !connect && big then (σ.setPhase cid .closed, .tooLarge)    -- HttpStream.check_body_size runs first
    else if connect then
      if proxyLayer then
        match httpConnectHook L V σ.authd cid m hs with
        | (authd', .pass _) => (({ σ with authd := authd' }).setPhase cid (.http true), .tunnel)
        | (authd', .deny c) => ({ σ with authd := authd' }, .deny c)
      else (σ.setPhase cid .closed, .invalid)
    else
      match requestheadersHook L V σ.authd cid m false hs with
      | .pass hs' => (σ, .fwd hs')
      | .deny c => (σ, .deny c)
  | .sGreet, .sGreet methods =>
    let want : Nat := if V.isSome then 2 else 0
    if methods.contains (UInt8.ofNat want) then
      (σ.setPhase cid (if V.isSome then .sAuth else .sConnect), .sMethod want)
    else (σ.setPhase cid .closed, .sNoMethod)
  | .sAuth, .sAuth u p =>
    match socks5AuthHook L V σ.authd cid u p with
    | (authd', true) => (({ σ with authd := authd' }).setPhase cid .sConnect, .sAuthOk)
    | (authd', false) => (({ σ with authd := authd' }).setPhase cid .closed, .sAuthFail)
  | .sConnect, .sConnect => (σ.setPhase cid (.http true), .sConnected)
  | _, _ => (σ.setPhase cid .closed, .unmodelled)

/-- a whole history: events tagged with the connection they arrive on -/
def run (L : Lib) (V : Option Validator) (modes : Nat → Mode) : State → List (Nat × Ev) → List Out
  | _, [] => []
  | σ, (cid, e) :: rest =>
    let r := step L V (modes cid) σ cid e
    r.2 :: run L V modes r.1 rest

def finalState (L : Lib) (V : Option Validator) (modes : Nat → Mode) : State → List (Nat × Ev) → State
  | σ, [] => σ
  | σ, (cid, e) :: rest => finalState L V modes (step L V (modes cid) σ cid e).1 rest

/-- this event presents credentials, on the path of mode `m`, that the validator accepts -/
def presentsAccepted (L : Lib) (v : Validator) (m : Mode) : Ev → Bool
  | .req _ _ hs => credsOk L v m hs
  | .sAuth u p => v.accepts L (L.sockDecode u) (L.sockDecode p)
  | _ => false

/-! ### addon-level history (the hook methods called directly) -/

inductive HookEv where
  | requestheaders (replay : Bool) (hs : List Hdr)
  | httpConnect (hs : List Hdr)
  | socksAuth (u p : Bytes)

inductive HookRes where
  | hook (o : HookOut)
  | socks (valid : Bool)

def hookStep (L : Lib) (V : Option Validator) (m : Mode) (authd : List Nat) (cid : Nat) :
    HookEv → List Nat × HookRes
  | .requestheaders replay hs => (authd, .hook (requestheadersHook L V authd cid m replay hs))
  | .httpConnect hs => let r := httpConnectHook L V authd cid m hs; (r.1, .hook r.2)
  | .socksAuth u p => let r := socks5AuthHook L V authd cid u p; (r.1, .socks r.2)

end MitmVerif.C20
