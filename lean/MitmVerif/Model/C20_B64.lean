/-
  C20 — the library part of `parse_http_basic_auth` that can be transcribed:
    * `str.encode()` (UTF-8, raises on lone surrogates — checked by the caller),
    * `binascii.a2b_base64(data)` in its default non-strict mode, a literal transcription of CPython's
      Modules/binascii.c loop (skip non-alphabet bytes; `=` counts as padding only from quad position 2 on and ends
      the input once quad_pos + pads ≥ 4; left-over quad → binascii.Error),
    * `binascii.b2a_base64(data)` (what `mkauth` uses; appends "\n"),
    * the 401 / 407 page of `make_auth_required_response`.
  Bytes are `Nat`s < 256 here (arithmetic instead of shifts: `(l << 2) | (v >> 4)` = `l*4 + v/16` for the 6-bit values
  involved), texts are code points.  UTF-8 *decoding* with "replace" stays a parameter.
-/
import MitmVerif.Basic.Bytes
import MitmVerif.Gen.C20
namespace MitmVerif.C20.B64

abbrev CText := List Nat
abbrev NBytes := List Nat

/-- `str.encode("utf-8")` for code points that are not surrogates -/
def utf8encChar (c : Nat) : NBytes :=
  if c < 0x80 then [c]
  else if c < 0x800 then [0xC0 + c / 64, 0x80 + c % 64]
  else if c < 0x10000 then [0xE0 + c / 4096, 0x80 + c / 64 % 64, 0x80 + c % 64]
  else [0xF0 + c / 262144, 0x80 + c / 4096 % 64, 0x80 + c / 64 % 64, 0x80 + c % 64]

def utf8enc (t : CText) : NBytes := t.flatMap utf8encChar

/-- `table_a2b_base64`: value of an alphabet byte, `none` for every other byte -/
def a2bVal (c : Nat) : Option Nat :=
  if 65 ≤ c ∧ c ≤ 90 then some (c - 65)
  else if 97 ≤ c ∧ c ≤ 122 then some (c - 71)
  else if 48 ≤ c ∧ c ≤ 57 then some (c + 4)
  else if c = 43 then some 62
  else if c = 47 then some 63
  else none

/-- `table_b2a_base64` -/
def b2aChar (n : Nat) : Nat :=
  if n < 26 then 65 + n else if n < 52 then 71 + n else if n < 62 then n - 4 else if n = 62 then 43 else 47

structure St where
  quad : Nat := 0
  left : Nat := 0
  pads : Nat := 0
  out : NBytes := []      -- reversed

/-- the decoding loop; `none` = `binascii.Error` -/
def a2bLoop : NBytes → St → Option NBytes
  | [], s => if s.quad ≠ 0 then none else some s.out.reverse
  | c :: cs, s =>
    if c = 61 then
      if s.quad ≥ 2 ∧ s.quad + (s.pads + 1) ≥ 4 then some s.out.reverse         -- goto done
      else a2bLoop cs (if s.quad ≥ 2 then { s with pads := s.pads + 1 } else s)
    else match a2bVal c with
      | none => a2bLoop cs s
      | some v =>
        match s.quad with
        | 0 => a2bLoop cs { s with quad := 1, left := v, pads := 0 }
        | 1 => a2bLoop cs { quad := 2, left := v % 16, pads := 0, out := (s.left * 4 + v / 16) :: s.out }
        | 2 => a2bLoop cs { quad := 3, left := v % 4, pads := 0, out := (s.left * 16 + v / 4) :: s.out }
        | _ => a2bLoop cs { quad := 0, left := 0, pads := 0, out := (s.left * 64 + v) :: s.out }

def a2b (data : NBytes) : Option NBytes := a2bLoop data {}

/-- `binascii.b2a_base64(data, newline=False)` -/
def b2a : NBytes → NBytes
  | a :: b :: c :: rest =>
    b2aChar (a / 4) :: b2aChar (a % 4 * 16 + b / 16) :: b2aChar (b % 16 * 4 + c / 64) :: b2aChar (c % 64) :: b2a rest
  | [a, b] => [b2aChar (a / 4), b2aChar (a % 4 * 16 + b / 16), b2aChar (b % 16 * 4), 61]
  | [a] => [b2aChar (a / 4), b2aChar (a % 4 * 16), 61, 61]
  | [] => []

/-- `mkauth(username, password)`: `"basic" + " " + b2a_base64((u + ":" + p).encode("utf8")).decode("ascii")`
    (b2a_base64 appends a newline) -/
def mkauth (u p : CText) : CText := [98, 97, 115, 105, 99, 32] ++ b2a (utf8enc (u ++ 58 :: p)) ++ [10]

/-! ### `bytes.decode("utf8", "replace")`

  CPython's UTF-8 decoder reports a malformed sequence as the maximal prefix of a well-formed sequence (1–3 bytes:
  the lead byte alone when the second byte cannot follow it, lead + valid continuations when a later byte is wrong or
  the input ends) and the "replace" handler emits ONE U+FFFD for that range, then decoding resumes right after it.
  (Same byte classes as the surrogateescape decoder transcribed in C35_Str — `isCont`, `ok3`, `ok4` — but the range, not
  each byte, is replaced.) -/

def isCont (n : Nat) : Bool := 0x80 ≤ n && n ≤ 0xBF
/-- second byte of a 3-byte sequence: no overlong forms (E0 80–9F), no encoded surrogates (ED A0–BF) -/
def ok3 (n0 n1 : Nat) : Bool := isCont n1 && (n0 != 0xE0 || 0xA0 ≤ n1) && (n0 != 0xED || n1 ≤ 0x9F)
/-- second byte of a 4-byte sequence: no overlong forms (F0 80–8F), nothing above U+10FFFF (F4 90–BF) -/
def ok4 (n0 n1 : Nat) : Bool := isCont n1 && (n0 != 0xF0 || 0x90 ≤ n1) && (n0 != 0xF4 || n1 ≤ 0x8F)

/-- one decoding step: (code point produced, bytes consumed) -/
def decStepR : NBytes → Nat × Nat
  | [] => (0, 0)
  | n0 :: t =>
    if n0 < 0x80 then (n0, 1)
    else if 0xC2 ≤ n0 ∧ n0 ≤ 0xDF then
      match t with
      | n1 :: _ => if isCont n1 then ((n0 - 0xC0) * 64 + (n1 - 0x80), 2) else (0xFFFD, 1)
      | [] => (0xFFFD, 1)
    else if 0xE0 ≤ n0 ∧ n0 ≤ 0xEF then
      match t with
      | n1 :: t2 =>
        if !ok3 n0 n1 then (0xFFFD, 1)
        else match t2 with
          | n2 :: _ => if isCont n2 then ((n0 - 0xE0) * 4096 + (n1 - 0x80) * 64 + (n2 - 0x80), 3) else (0xFFFD, 2)
          | [] => (0xFFFD, 2)
      | [] => (0xFFFD, 1)
    else if 0xF0 ≤ n0 ∧ n0 ≤ 0xF4 then
      match t with
      | n1 :: t2 =>
        if !ok4 n0 n1 then (0xFFFD, 1)
        else match t2 with
          | n2 :: t3 =>
            if !isCont n2 then (0xFFFD, 2)
            else match t3 with
              | n3 :: _ =>
                if isCont n3 then
                  ((n0 - 0xF0) * 262144 + (n1 - 0x80) * 4096 + (n2 - 0x80) * 64 + (n3 - 0x80), 4)
                else (0xFFFD, 3)
              | [] => (0xFFFD, 3)
          | [] => (0xFFFD, 2)
      | [] => (0xFFFD, 1)
    else (0xFFFD, 1)

def decFR : Nat → NBytes → CText
  | _, [] => []
  | 0, _ :: _ => []
  | f + 1, b :: t => let r := decStepR (b :: t); r.1 :: decFR f ((b :: t).drop r.2)

/-- `bytes.decode("utf8", "replace")` -/
def utf8decR (b : NBytes) : CText := decFR b.length b

/-! ### `bytes.decode("utf-8", "backslashreplace")` (SOCKS5 user / password)

  Same decoder, same malformed ranges; the handler writes `\xNN` (two lower-case hex digits) for every byte of the
  range instead of one U+FFFD. -/

/-- one decoding step that tells a malformed range (`none`) from a decoded code point; second component: bytes consumed -/
def decStepE : NBytes → Option Nat × Nat
  | [] => (none, 0)
  | n0 :: t =>
    if n0 < 0x80 then (some n0, 1)
    else if 0xC2 ≤ n0 ∧ n0 ≤ 0xDF then
      match t with
      | n1 :: _ => if isCont n1 then (some ((n0 - 0xC0) * 64 + (n1 - 0x80)), 2) else (none, 1)
      | [] => (none, 1)
    else if 0xE0 ≤ n0 ∧ n0 ≤ 0xEF then
      match t with
      | n1 :: t2 =>
        if !ok3 n0 n1 then (none, 1)
        else match t2 with
          | n2 :: _ => if isCont n2 then (some ((n0 - 0xE0) * 4096 + (n1 - 0x80) * 64 + (n2 - 0x80)), 3) else (none, 2)
          | [] => (none, 2)
      | [] => (none, 1)
    else if 0xF0 ≤ n0 ∧ n0 ≤ 0xF4 then
      match t with
      | n1 :: t2 =>
        if !ok4 n0 n1 then (none, 1)
        else match t2 with
          | n2 :: t3 =>
            if !isCont n2 then (none, 2)
            else match t3 with
              | n3 :: _ =>
                if isCont n3 then
                  (some ((n0 - 0xF0) * 262144 + (n1 - 0x80) * 4096 + (n2 - 0x80) * 64 + (n3 - 0x80)), 4)
                else (none, 3)
              | [] => (none, 3)
          | [] => (none, 2)
      | [] => (none, 1)
    else (none, 1)

def hexDigitN (n : Nat) : Nat := if n < 10 then 48 + n else 87 + n
/-- `\xNN` -/
def bsEscape (b : Nat) : CText := [92, 120, hexDigitN (b / 16), hexDigitN (b % 16)]

def decFB : Nat → NBytes → CText
  | _, [] => []
  | 0, _ :: _ => []
  | f + 1, b :: t =>
    let r := decStepE (b :: t)
    (match r.1 with
      | some c => [c]
      | none => ((b :: t).take r.2).flatMap bsEscape) ++ decFB f ((b :: t).drop r.2)

/-- `bytes.decode("utf-8", "backslashreplace")` -/
def utf8decBS (b : NBytes) : CText := decFB b.length b

/-- the library part of `parse_http_basic_auth`, fully transcribed:
    `binascii.a2b_base64(tok.encode()).decode("utf8", "replace")` -/
def decodeCredStd (tok : CText) : Option CText := (a2b (utf8enc tok)).map utf8decR

/-- the library part of `parse_http_basic_auth` with the UTF-8 "replace" decoder as the only parameter -/
def decodeCredWith (utf8dec : NBytes → CText) (tok : CText) : Option CText :=
  (a2b (utf8enc tok)).map utf8dec

/-! ### make_auth_required_response -/

def strText (s : String) : CText := s.toList.map Char.toNat

def reason (code : Nat) : String := if code = 407 then "Proxy Authentication Required" else "Unauthorized"

structure AuthResponse where
  status : Nat
  challengeName : String
  challengeValue : String
  body : String
  deriving DecidableEq, Repr

/-- `make_auth_required_response(is_proxy)` (status, the challenge field, the page) -/
def authRequiredResponse (isProxy : Bool) : AuthResponse :=
  let code := if isProxy then 407 else 401
  let title := toString code ++ " " ++ reason code
  { status := code
    challengeName := if isProxy then "Proxy-Authenticate" else "WWW-Authenticate"
    challengeValue := "Basic realm=\"" ++ Gen.C20.realm ++ "\""
    body := "<html><head><title>" ++ title ++ "</title></head><body><h1>" ++ title ++ "</h1></body></html>" }

end MitmVerif.C20.B64
