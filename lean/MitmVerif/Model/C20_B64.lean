/-
  C20 — the library part of `parse_http_basic_auth` that can be transcribed:
    * `str.encode()` (UTF-8, raises on lone surrogates — checked by the caller),
    * `binascii.a2b_base64(data)` in its default non-strict mode, a literal transcription of CPython's
      Modules/binascii.c loop (skip non-alphabet bytes; `=` counts as padding only from quad position 2 on and ends
      the input once quad_pos + pads ≥ 4; left-over quad → binascii.Error),
    * `binascii.b2a_base64(data)` (what `mkauth` uses; appends "\n"),
    * the 401 / 407 page of `make_auth_required_response`.
  Bytes are `Nat`s < 256 here (arithmetic instead of shifts: `(l << 2) | (v >> 4)` = `l*4 + v/16` for the 6-bit values
  involved), texts are code points.  UTF-8 *decoding* with "replace" stays a parameter.
-/
import MitmVerif.Basic.Bytes
import MitmVerif.Gen.C20
namespace MitmVerif.C20.B64

abbrev CText := List Nat
abbrev NBytes := List Nat

/-- `str.encode("utf-8")` for code points that are not surrogates -/
def utf8encChar (c : Nat) : NBytes :=
  if c < 0x80 then [c]
  else if c < 0x800 then [0xC0 + c / 64, 0x80 + c % 64]
  else if c < 0x10000 then [0xE0 + c / 4096, 0x80 + c / 64 % 64, 0x80 + c % 64]
  else [0xF0 + c / 262144, 0x80 + c / 4096 % 64, 0x80 + c / 64 % 64, 0x80 + c % 64]

def utf8enc (t : CText) : NBytes := t.flatMap utf8encChar

/-- `table_a2b_base64`: value of an alphabet byte, `none` for every other byte -/
def a2bVal (c : Nat) : Option Nat :=
  if 65 ≤ c ∧ c ≤ 90 then some (c - 65)
  else if 97 ≤ c ∧ c ≤ 122 then some (c - 71)
  else if 48 ≤ c ∧ c ≤ 57 then some (c + 4)
  else if c = 43 then some 62
  else if c = 47 then some 63
  else none

/-- `table_b2a_base64` -/
def b2aChar (n : Nat) : Nat :=
  if n < 26 then 65 + n else if n < 52 then 71 + n else if n < 62 then n - 4 else if n = 62 then 43 else 47

structure St where
  quad : Nat := 0
  left : Nat := 0
  pads : Nat := 0
  out : NBytes := []      -- reversed

/-- the decoding loop; `none` = `binascii.Error` -/
def a2bLoop : NBytes → St → Option NBytes
  | [], s => if s.quad ≠ 0 then none else some s.out.reverse
  | c :: cs, s =>
    if c = 61 then
      if s.quad ≥ 2 ∧ s.quad + (s.pads + 1) ≥ 4 then some s.out.reverse         -- goto done
      else a2bLoop cs (if s.quad ≥ 2 then { s with pads := s.pads + 1 } else s)
    else match a2bVal c with
      | none => a2bLoop cs s
      | some v =>
        match s.quad with
        | 0 => a2bLoop cs { s with quad := 1, left := v, pads := 0 }
        | 1 => a2bLoop cs { quad := 2, left := v % 16, pads := 0, out := (s.left * 4 + v / 16) :: s.out }
        | 2 => a2bLoop cs { quad := 3, left := v % 4, pads := 0, out := (s.left * 16 + v / 4) :: s.out }
        | _ => a2bLoop cs { quad := 0, left := 0, pads := 0, out := (s.left * 64 + v) :: s.out }

def a2b (data : NBytes) : Option NBytes := a2bLoop data {}

/-- `binascii.b2a_base64(data, newline=False)` -/
def b2a : NBytes → NBytes
  | a :: b :: c :: rest =>
    b2aChar (a / 4) :: b2aChar (a % 4 * 16 + b / 16) :: b2aChar (b % 16 * 4 + c / 64) :: b2aChar (c % 64) :: b2a rest
  | [a, b] => [b2aChar (a / 4), b2aChar (a % 4 * 16 + b / 16), b2aChar (b % 16 * 4), 61]
  | [a] => [b2aChar (a / 4), b2aChar (a % 4 * 16), 61, 61]
  | [] => []

/-- `mkauth(username, password)`: `"basic" + " " + b2a_base64((u + ":" + p).encode("utf8")).decode("ascii")`
    (b2a_base64 appends a newline) -/
def mkauth (u p : CText) : CText := [98, 97, 115, 105, 99, 32] ++ b2a (utf8enc (u ++ 58 :: p)) ++ [10]

/-- the library part of `parse_http_basic_auth` with the UTF-8 "replace" decoder as the only parameter -/
def decodeCredWith (utf8dec : NBytes → CText) (tok : CText) : Option CText :=
  (a2b (utf8enc tok)).map utf8dec

/-! ### make_auth_required_response -/

def strText (s : String) : CText := s.toList.map Char.toNat

def reason (code : Nat) : String := if code = 407 then "Proxy Authentication Required" else "Unauthorized"

structure AuthResponse where
  status : Nat
  challengeName : String
  challengeValue : String
  body : String
  deriving DecidableEq, Repr

/-- `make_auth_required_response(is_proxy)` (status, the challenge field, the page) -/
def authRequiredResponse (isProxy : Bool) : AuthResponse :=
  let code := if isProxy then 407 else 401
  let title := toString code ++ " " ++ reason code
  { status := code
    challengeName := if isProxy then "Proxy-Authenticate" else "WWW-Authenticate"
    challengeValue := "Basic realm=\"" ++ Gen.C20.realm ++ "\""
    body := "<html><head><title>" ++ title ++ "</title></head><body><h1>" ++ title ++ "</h1></body></html>" }

end MitmVerif.C20.B64
