/-
  C20 — `mitmproxy.utils.htpasswd.HtpasswdFile.__init__` (the file parser behind `proxyauth=@file`):
      for line in content.splitlines():
          line = line.strip()
          if not line or line.startswith("#"): continue
          if ":" not in line: raise ValueError
          user, pwhash = line.split(":", 1)
          if not user: raise ValueError
          if not pwhash.startswith("{SHA}") and not pwhash.startswith(("$2y$", "$2b$", "$2a$")): raise ValueError
          self.users[user] = pwhash
  `str.splitlines` boundaries and `str.isspace` come from the regenerated tables of Gen/C20.lean.
  The result is the list of (user, pwhash) in file order; `tableLookup` (Model/C20) reads it with dict semantics.
-/
import MitmVerif.Model.C20
namespace MitmVerif.C20.Ht
open MitmVerif.C20

def isBreak (c : Nat) : Bool := Gen.C20.lineBreaks.contains c

/-- `str.splitlines()` (keepends = False): "\r\n" is one boundary; no empty last line -/
def splitLinesAux : Text → Text → Bool → List Text      -- third argument: the previous character was "\r"
  | [], cur, _ => if cur.isEmpty then [] else [cur.reverse]
  | c :: cs, cur, prevCR =>
    if prevCR && c == 10 then splitLinesAux cs cur false        -- the "\n" of a "\r\n" (the line was emitted at "\r")
    else if isBreak c then cur.reverse :: splitLinesAux cs [] (c == 13)
    else splitLinesAux cs (c :: cur) false

def splitLines (s : Text) : List Text := splitLinesAux s [] false

/-- `str.strip()` -/
def strip (s : Text) : Text := ((s.dropWhile genIsSpace).reverse.dropWhile genIsSpace).reverse

def startsWith (p s : Text) : Bool := p.isPrefixOf s

def shaPrefix : Text := [123, 83, 72, 65, 125]                 -- "{SHA}"
def bcryptPrefixes : List Text := [[36, 50, 121, 36], [36, 50, 98, 36], [36, 50, 97, 36]]   -- "$2y$" "$2b$" "$2a$"

inductive LineRes where
  | skip
  | entry (user pwhash : Text)
  | bad
  deriving DecidableEq, Repr

def parseLine (raw : Text) : LineRes :=
  let line := strip raw
  if line.isEmpty || startsWith [35] line then .skip
  else match splitColon1 line with
    | none => .bad                                             -- ":" not in line
    | some (user, pwhash) =>
      if user.isEmpty then .bad
      else if startsWith shaPrefix pwhash || bcryptPrefixes.any (fun p => startsWith p pwhash) then .entry user pwhash
      else .bad

def parseLines : List Text → Option (List (Text × Text))
  | [] => some []
  | l :: ls =>
    match parseLine l with
    | .bad => none
    | .skip => parseLines ls
    | .entry u h => (parseLines ls).map ((u, h) :: ·)

/-- `HtpasswdFile(content)`: `none` = ValueError -/
def parse (content : Text) : Option (List (Text × Text)) := parseLines (splitLines content)

/-- the users of the file, each once (first appearance), with the hash the dict ends up holding -/
def users (es : List (Text × Text)) : List (Text × Text) :=
  (es.map (·.1)).eraseDups.filterMap (fun u => (tableLookup es u).map (fun h => (u, h)))

end MitmVerif.C20.Ht
