/-
  C21 — SOCKS5 handshakes are parsed exactly and relay subsequent data.
  Model of `mitmproxy.proxy.layers.modes.Socks5Proxy` (+ `DestinationKnown.finish_start` and the
  pause/replay discipline of `Layer.handle_event` as far as this layer uses it).

  Two machines over the same three parsers:
  * the *synchronous* machine `feed` (hook and OpenConnection answered at once — what `world.py`
    and the asyncio server do when nothing else is pending): an `Incremental` consumer of bytes;
  * the *asynchronous* machine `handle`/`complete` with the two waiting states (socks5_auth hook
    pending, OpenConnection pending) and the paused-event queue of `Layer`.

  Environment (`Env`): is proxyauth set, the verdict of the socks5_auth hook as a function of the
  raw credentials, connection_strategy == eager, and the result of the eager OpenConnection.
  The text the code gives the destination is transcribed too (`hostText`): IPv4 dotted quad,
  the RFC 5952 form glibc's inet_ntop produces for IPv6 (longest zero run, leftmost on ties,
  embedded IPv4 for ::a.b.c.d and ::ffff:a.b.c.d), and `bytes.decode("ascii", "replace")` for names.
-/
import MitmVerif.Basic.Bytes
import MitmVerif.Basic.Seg
namespace MitmVerif.C21

structure Env where
  authOn : Bool
  valid  : Bytes → Bytes → Bool
  eager  : Bool
  connOk : Bool

/-- what the layer emits (Log commands are not observed) -/
inductive Out
  | send (b : Bytes)                                   -- SendData(client, b)
  | close                                              -- CloseConnection(client)
  | authHook (user pass : Bytes)                       -- Socks5AuthHook, raw credential bytes
  | setAddr (atyp : UInt8) (addr : Bytes) (port : Nat) -- context.server.address = (host, port)
  | openServer                                         -- OpenConnection(context.server)
  | childStart                                         -- child_layer.handle_event(Start())
  | child (b : UInt8)                                  -- one byte of a DataReceived given to the child
  | childClose                                         -- ConnectionClosed(client) given to the child
  deriving DecidableEq, Repr

/-- `05 rep 00 01 00000000 0000` -/
def reply (rep : UInt8) : Bytes := [5, rep, 0, 1, 0, 0, 0, 0, 0, 0]

/-! ### the three parsers (functions of the accumulated buffer) -/

inductive GreetR
  | more | badVersion | noMethod | ok (rest : Bytes)
  deriving DecidableEq, Repr

/-- `state_greet`; `needed` = 0x02 if proxyauth is set, else 0x00 -/
def parseGreet (needed : UInt8) : Bytes → GreetR
  | v :: n :: tl =>
    if v = 5 then
      if tl.length < n.toNat then .more
      else if (tl.take n.toNat).contains needed then .ok (tl.drop n.toNat) else .noMethod
    else .badVersion
  | _ => .more

inductive AuthR
  | more | ok (user pass rest : Bytes)
  deriving DecidableEq, Repr

/-- `state_auth` up to the hook (the sub-negotiation version byte is not looked at) -/
def parseAuth : Bytes → AuthR
  | _ :: ul :: tl =>
    if tl.length < ul.toNat + 1 then .more
    else
      let pl := (tl.drop ul.toNat).headD 0
      if tl.length < ul.toNat + 1 + pl.toNat then .more
      else .ok (tl.take ul.toNat) ((tl.drop (ul.toNat + 1)).take pl.toNat) (tl.drop (ul.toNat + 1 + pl.toNat))
  | _ => .more

inductive ConnR
  | more | fail (code : UInt8) | ok (atyp : UInt8) (addr : Bytes) (port : Nat) (rest : Bytes)
  deriving DecidableEq, Repr

def be16 : Bytes → Nat
  | h :: l :: _ => h.toNat * 256 + l.toNat
  | _ => 0

def takeAddr (atyp : UInt8) (alen : Nat) (tl : Bytes) : ConnR :=
  if tl.length < alen + 2 then .more
  else .ok atyp (tl.take alen) (be16 (tl.drop alen)) (tl.drop (alen + 2))

/-- `state_connect` up to the point where host and port are known -/
def parseConnect : Bytes → ConnR
  | v :: c :: r :: a :: x :: tl =>
    if v = 5 ∧ c = 1 ∧ r = 0 then
      if a = 1 then takeAddr 1 4 (x :: tl)
      else if a = 4 then takeAddr 4 16 (x :: tl)
      else if a = 3 then takeAddr 3 x.toNat tl
      else .fail 8
    else .fail 7
  | _ => .more

/-! ### synchronous machine -/

inductive SState
  | greet (buf : Bytes) | auth (buf : Bytes) | connect (buf : Bytes) | relay | done
  deriving DecidableEq, Repr

def needed (env : Env) : UInt8 := if env.authOn then 2 else 0

/-- `finish_start` succeeded (or lazy): child started, success reply, left-over bytes handed over -/
def relayStart (rest : Bytes) : List Out :=
  [.childStart, .send (reply 0)] ++ rest.map .child

def syncConnect (env : Env) (buf : Bytes) : SState × List Out :=
  match parseConnect buf with
  | .more => (.connect buf, [])
  | .fail c => (.done, [.send (reply c), .close])
  | .ok a addr port rest =>
    if env.eager then
      if env.connOk then (.relay, [.setAddr a addr port, .openServer] ++ relayStart rest)
      else (.done, [.setAddr a addr port, .openServer, .send (reply 4), .close])
    else (.relay, [.setAddr a addr port] ++ relayStart rest)

def syncAuth (env : Env) (buf : Bytes) : SState × List Out :=
  match parseAuth buf with
  | .more => (.auth buf, [])
  | .ok u p rest =>
    if env.valid u p then
      ((syncConnect env rest).1, [.authHook u p, .send [1, 0]] ++ (syncConnect env rest).2)
    else (.done, [.authHook u p, .send [1, 1], .close])

def syncGreet (env : Env) (buf : Bytes) : SState × List Out :=
  match parseGreet (needed env) buf with
  | .more => (.greet buf, [])
  | .badVersion => (.done, [.close])
  | .noMethod => (.done, [.send (reply 0xFF), .close])
  | .ok rest =>
    if env.authOn then ((syncAuth env rest).1, .send [5, 2] :: (syncAuth env rest).2)
    else ((syncConnect env rest).1, .send [5, 0] :: (syncConnect env rest).2)

/-- one `DataReceived(client, d)`.  An empty segment is a no-op (asyncio never delivers one; on
    every reachable state the code does nothing either — `Props.feed_nil_reachable`). -/
def feed (env : Env) (s : SState) (d : Bytes) : SState × List Out :=
  if d = [] then (s, []) else
  match s with
  | .greet buf => syncGreet env (buf ++ d)
  | .auth buf => syncAuth env (buf ++ d)
  | .connect buf => syncConnect env (buf ++ d)
  | .relay => (.relay, d.map .child)
  | .done => (.done, [])

/-- `ConnectionClosed(client)` -/
def onClose : SState → List Out
  | .relay => [.childClose]
  | .done => []
  | _ => [.close]

def init : SState := .greet []

def inc (env : Env) : Incremental SState Out := ⟨feed env⟩

/-! ### asynchronous machine: hook / connect completions arrive later, events are queued meanwhile -/

inductive In
  | data (d : Bytes) | close
  deriving DecidableEq, Repr

inductive AState
  | settled (s : SState)
  | authWait (user pass rest : Bytes) (q : List In)   -- Socks5AuthHook pending
  | connWait (rest : Bytes) (q : List In)             -- OpenConnection pending
  deriving DecidableEq, Repr

def aConnect (env : Env) (buf : Bytes) : AState × List Out :=
  match parseConnect buf with
  | .more => (.settled (.connect buf), [])
  | .fail c => (.settled .done, [.send (reply c), .close])
  | .ok a addr port rest =>
    if env.eager then (.connWait rest [], [.setAddr a addr port, .openServer])
    else (.settled .relay, [.setAddr a addr port] ++ relayStart rest)

def aAuth (_env : Env) (buf : Bytes) : AState × List Out :=
  match parseAuth buf with
  | .more => (.settled (.auth buf), [])
  | .ok u p rest => (.authWait u p rest [], [.authHook u p])

def aGreet (env : Env) (buf : Bytes) : AState × List Out :=
  match parseGreet (needed env) buf with
  | .more => (.settled (.greet buf), [])
  | .badVersion => (.settled .done, [.close])
  | .noMethod => (.settled .done, [.send (reply 0xFF), .close])
  | .ok rest =>
    if env.authOn then ((aAuth env rest).1, .send [5, 2] :: (aAuth env rest).2)
    else ((aConnect env rest).1, .send [5, 0] :: (aConnect env rest).2)

/-- one event reaching `Layer.handle_event` -/
def handle (env : Env) : AState → In → AState × List Out
  | .authWait u p r q, e => (.authWait u p r (q ++ [e]), [])
  | .connWait r q, e => (.connWait r (q ++ [e]), [])
  | .settled s, .close => (.settled s, onClose s)
  | .settled s, .data d =>
    if d = [] then (.settled s, []) else
    match s with
    | .greet buf => aGreet env (buf ++ d)
    | .auth buf => aAuth env (buf ++ d)
    | .connect buf => aConnect env (buf ++ d)
    | .relay => (.settled .relay, d.map .child)
    | .done => (.settled .done, [])

def handleAll (env : Env) (s : AState) : List In → AState × List Out
  | [] => (s, [])
  | e :: es => ((handleAll env (handle env s e).1 es).1, (handle env s e).2 ++ (handleAll env (handle env s e).1 es).2)

/-- the pending command completes: the generator resumes, then the paused queue is replayed -/
def complete (env : Env) : AState → AState × List Out
  | .settled s => (.settled s, [])
  | .authWait u p r q =>
    if env.valid u p then
      ((handleAll env (aConnect env r).1 q).1,
        .send [1, 0] :: ((aConnect env r).2 ++ (handleAll env (aConnect env r).1 q).2))
    else (.settled .done, [.send [1, 1], .close])
  | .connWait r q =>
    if env.connOk then
      ((handleAll env (.settled .relay) q).1, relayStart r ++ (handleAll env (.settled .relay) q).2)
    else (.settled .done, [.send (reply 4), .close])

/-- scheduler actions: deliver an event, or let the pending command complete -/
inductive Act
  | ev (e : In) | complete
  deriving DecidableEq, Repr

def act (env : Env) (s : AState) : Act → AState × List Out
  | .ev e => handle env s e
  | .complete => complete env s

def actAll (env : Env) (s : AState) : List Act → AState × List Out
  | [] => (s, [])
  | a :: as => ((actAll env (act env s a).1 as).1, (act env s a).2 ++ (actAll env (act env s a).1 as).2)

/-- let everything pending complete (at most two completions: hook, then connect) -/
def settle (env : Env) (s : AState) : AState × List Out :=
  ((complete env (complete env s).1).1, (complete env s).2 ++ (complete env (complete env s).1).2)

/-! ### observation helpers -/

def childBytes : List Out → Bytes
  | [] => []
  | .child b :: r => b :: childBytes r
  | _ :: r => childBytes r

def setAddrs : List Out → List (UInt8 × Bytes × Nat)
  | [] => []
  | .setAddr a ad p :: r => (a, ad, p) :: setAddrs r
  | _ :: r => setAddrs r

def sends : List Out → List Bytes
  | [] => []
  | .send b :: r => b :: sends r
  | _ :: r => sends r

/-- the request the client must have sent for destination (atyp, addr, port) -/
def encodeReq (atyp : UInt8) (addr : Bytes) (port : Nat) : Bytes :=
  if atyp = 3 then [5, 1, 0, 3, UInt8.ofNat addr.length] ++ addr ++ [UInt8.ofNat (port / 256), UInt8.ofNat (port % 256)]
  else [5, 1, 0, atyp] ++ addr ++ [UInt8.ofNat (port / 256), UInt8.ofNat (port % 256)]

def ValidDest (atyp : UInt8) (addr : Bytes) (port : Nat) : Prop :=
  ((atyp = 1 ∧ addr.length = 4) ∨ (atyp = 4 ∧ addr.length = 16) ∨ (atyp = 3 ∧ addr.length < 256)) ∧ port < 65536

/-- a greeting (and, with proxyauth, a username/password message) that the server accepts -/
def ValidPre (env : Env) (pre : Bytes) : Prop :=
  ∃ ms : Bytes, ms.length < 256 ∧ ms.contains (needed env) = true ∧
    ((env.authOn = false ∧ pre = 5 :: UInt8.ofNat ms.length :: ms) ∨
     (env.authOn = true ∧ ∃ (v : UInt8) (u p : Bytes), u.length < 256 ∧ p.length < 256 ∧ env.valid u p = true ∧
        pre = 5 :: UInt8.ofNat ms.length :: ms ++ (v :: UInt8.ofNat u.length :: u ++ UInt8.ofNat p.length :: p)))

/-! ### vocabulary of the theorem statements -/

/-- RFC 1928 greeting / RFC 1929 username-password message -/
def greetMsg (ms : Bytes) : Bytes := 5 :: UInt8.ofNat ms.length :: ms
def authMsg (v : UInt8) (u p : Bytes) : Bytes := v :: UInt8.ofNat u.length :: u ++ UInt8.ofNat p.length :: p

/-- the connect stage once destination (a, ad, p) is known and `t` is left in the buffer -/
def connResult (env : Env) (a : UInt8) (ad : Bytes) (p : Nat) (t : Bytes) : SState × List Out :=
  if env.eager then
    if env.connOk then (.relay, [.setAddr a ad p, .openServer] ++ relayStart t)
    else (.done, [.setAddr a ad p, .openServer, .send (reply 4), .close])
  else (.relay, [.setAddr a ad p] ++ relayStart t)

/-- replies sent before the connect stage on the accepting path -/
def preSends (env : Env) : List Bytes := if env.authOn then [[5, 2], [1, 0]] else [[5, 0]]

/-- every reply the server can ever send -/
def WellFormedReply (b : Bytes) : Prop :=
  b = [5, 0] ∨ b = [5, 2] ∨ b = [1, 0] ∨ b = [1, 1] ∨ ∃ rep : UInt8, rep ∈ [0, 4, 7, 8, 0xFF] ∧ b = reply rep

/-- `feed` without the empty-segment guard: literally `self.buf += data; yield from self.state()` -/
def feedRaw (env : Env) (s : SState) (d : Bytes) : SState × List Out :=
  match s with
  | .greet buf => syncGreet env (buf ++ d)
  | .auth buf => syncAuth env (buf ++ d)
  | .connect buf => syncConnect env (buf ++ d)
  | .relay => (.relay, d.map .child)
  | .done => (.done, [])

/-- one client event on the synchronous machine -/
def syncStep (env : Env) (s : SState) : In → SState × List Out
  | .data d => feed env s d
  | .close => (s, onClose s)

def syncAll (env : Env) (s : SState) : List In → SState × List Out
  | [] => (s, [])
  | e :: es => ((syncAll env (syncStep env s e).1 es).1, (syncStep env s e).2 ++ (syncAll env (syncStep env s e).1 es).2)

/-- the client events of a schedule, completions dropped -/
def insOf : List Act → List In
  | [] => []
  | .ev e :: r => e :: insOf r
  | .complete :: r => insOf r

/-! ### the address *text* Socks5Proxy stores in `context.server.address`
    (`socket.inet_ntop(AF_INET / AF_INET6, …)` as implemented by glibc, and `decode("ascii", "replace")`) -/

def digitChar (n : Nat) : Char := Char.ofNat (48 + n)

/-- `"%u"` of a byte -/
def decByte (n : Nat) : List Char :=
  if n < 10 then [digitChar n]
  else if n < 100 then [digitChar (n / 10), digitChar (n % 10)]
  else [digitChar (n / 100), digitChar (n / 10 % 10), digitChar (n % 10)]

/-- inet_ntop4 -/
def textV4 : Bytes → List Char
  | [a, b, c, d] => decByte a.toNat ++ '.' :: decByte b.toNat ++ '.' :: decByte c.toNat ++ '.' :: decByte d.toNat
  | _ => []

def hexChar (n : Nat) : Char := if n < 10 then Char.ofNat (48 + n) else Char.ofNat (87 + n)

/-- `"%x"` of a 16-bit word -/
def hexWord (w : Nat) : List Char :=
  if w < 16 then [hexChar w]
  else if w < 256 then [hexChar (w / 16), hexChar (w % 16)]
  else if w < 4096 then [hexChar (w / 256), hexChar (w / 16 % 16), hexChar (w % 16)]
  else [hexChar (w / 4096 % 16), hexChar (w / 256 % 16), hexChar (w / 16 % 16), hexChar (w % 16)]

def words16 : Bytes → List Nat
  | h :: l :: r => (h.toNat * 256 + l.toNat) :: words16 r
  | _ => []

structure Run where
  base : Nat
  len : Nat
  deriving DecidableEq, Repr

/-- `if (best.base == -1 || cur.len > best.len) best = cur;` -/
def pickRun (cur best : Option Run) : Option Run :=
  match cur, best with
  | none, b => b
  | some c, none => some c
  | some c, some b => if c.len > b.len then some c else some b

/-- glibc inet_ntop6: the scan for the longest run of zero words (leftmost wins) -/
def scanRuns : List Nat → Nat → Option Run → Option Run → Option Run
  | [], _, cur, best => pickRun cur best
  | w :: r, i, cur, best =>
    if w = 0 then
      scanRuns r (i + 1) (match cur with | none => some ⟨i, 1⟩ | some c => some ⟨c.base, c.len + 1⟩) best
    else scanRuns r (i + 1) none (pickRun cur best)

def bestRun (ws : List Nat) : Option Run :=
  match scanRuns ws 0 none none with
  | some r => if r.len < 2 then none else some r
  | none => none

/-- the emit loop of inet_ntop6 from word index `i` on -/
def emitV6 (best : Option Run) (w5 : Nat) (last4 : Bytes) : List Nat → Nat → List Char
  | [], _ => []
  | w :: r, i =>
    match best with
    | some b =>
      if b.base ≤ i ∧ i < b.base + b.len then
        (if i = b.base then [':'] else []) ++ emitV6 best w5 last4 r (i + 1)
      else
        let sep := if i ≠ 0 then [':'] else []
        if i = 6 ∧ b.base = 0 ∧ (b.len = 6 ∨ (b.len = 5 ∧ w5 = 0xffff)) then sep ++ textV4 last4
        else sep ++ hexWord w ++ emitV6 best w5 last4 r (i + 1)
    | none => (if i ≠ 0 then [':'] else []) ++ hexWord w ++ emitV6 best w5 last4 r (i + 1)

/-- inet_ntop6 -/
def textV6 (ad : Bytes) : List Char :=
  let ws := words16 ad
  let best := bestRun ws
  emitV6 best (ws.getD 5 0) (ad.drop 12) ws 0 ++
    (match best with | some b => if b.base + b.len = 8 then [':'] else [] | none => [])

/-- `host_bytes.decode("ascii", "replace")` -/
def textDomain (ad : Bytes) : List Char :=
  ad.map fun b => if b.toNat < 128 then Char.ofNat b.toNat else Char.ofNat 0xFFFD

/-- the `host` of `context.server.address` -/
def hostText (atyp : UInt8) (ad : Bytes) : List Char :=
  if atyp = 1 then textV4 ad else if atyp = 4 then textV6 ad else textDomain ad

/-! ### reading the text back (used only in theorem statements: the text determines the address) -/

def isDigit (c : Char) : Bool := 48 ≤ c.toNat && c.toNat ≤ 57

/-- consume the leading decimal digits -/
def takeDec : List Char → Nat → Nat × List Char
  | [], acc => (acc, [])
  | c :: r, acc => if isDigit c then takeDec r (acc * 10 + (c.toNat - 48)) else (acc, c :: r)

/-- dotted quad → 4 bytes -/
def parseV4 (t : List Char) : Option Bytes :=
  match takeDec t 0 with
  | (a, '.' :: r1) =>
    match takeDec r1 0 with
    | (b, '.' :: r2) =>
      match takeDec r2 0 with
      | (c, '.' :: r3) =>
        match takeDec r3 0 with
        | (d, []) => some [UInt8.ofNat a, UInt8.ofNat b, UInt8.ofNat c, UInt8.ofNat d]
        | _ => none
      | _ => none
    | _ => none
  | _ => none

/-- the ASCII bytes of a text -/
def asciiBytes (t : List Char) : Bytes := t.map fun c => UInt8.ofNat c.toNat

/-- (host text, port) pairs assigned to `context.server.address` -/
def addrTexts (o : List Out) : List (List Char × Nat) := (setAddrs o).map fun x => (hostText x.1 x.2.1, x.2.2)

/-- is `[b, b+l)` a run of zero words of `z` (true = zero word)? -/
def isZeroRun (z : List Bool) (b l : Nat) : Bool :=
  decide (b + l ≤ z.length) && (List.range l).all fun i => z.getD (b + i) false

/-- RFC 5952 §4.2: the run replaced by "::" is a run of at least two zero words, no zero run is longer, and no
    equally long one starts further left; if there is none, no two adjacent words are zero -/
def bestRunSpec (z : List Bool) : Option Run → Bool
  | none => (List.range z.length).all fun b => !isZeroRun z b 2
  | some r => decide (2 ≤ r.len) && isZeroRun z r.base r.len &&
      (List.range (z.length + 1)).all fun b => (List.range (z.length + 1)).all fun l =>
        !isZeroRun z b l || (decide (l < r.len) || (decide (l = r.len) && decide (r.base ≤ b)))

/-! ### CPython's writer: `str(ipaddress.IPv6Address(ad))` (`_string_from_ip_int` + `_compress_hextets`)
    — the same leftmost-longest zero run (more than one word) as inet_ntop6, but never an embedded IPv4 form -/

def emitPy (best : Option Run) : List Nat → Nat → List Char
  | [], _ => []
  | w :: r, i =>
    match best with
    | some b =>
      if b.base ≤ i ∧ i < b.base + b.len then
        (if i = b.base then [':'] else []) ++ emitPy best r (i + 1)
      else (if i ≠ 0 then [':'] else []) ++ hexWord w ++ emitPy best r (i + 1)
    | none => (if i ≠ 0 then [':'] else []) ++ hexWord w ++ emitPy best r (i + 1)

/-- `str(ipaddress.IPv6Address(bytes(ad)))` -/
def textV6Py (ad : Bytes) : List Char :=
  let ws := words16 ad
  let best := bestRun ws
  emitPy best ws 0 ++
    (match best with | some b => if b.base + b.len = 8 then [':'] else [] | none => [])

end MitmVerif.C21
