/-
  C22 — client connections from blocked address classes are refused.

  Model of `mitmproxy.addons.block.Block.client_connected` and of the part of
  `mitmproxy.proxy.server.ConnectionHandler.handle_client` that acts on `client.error`.

  * text level: `peerHost` = `peername[0].rsplit("%", 1)[0]`; `parseIp` = `ipaddress.ip_address(str)`
    transcribed from CPython 3.12 (`IPv4Address._ip_int_from_string`, `_parse_octet`,
    `IPv6Address.__init__`, `_split_scope_id`, `_ip_int_from_string`, `_parse_hextet`).
    Texts are ASCII/UTF-8 byte strings (every character the parsers accept is ASCII and the
    separators `% / . :` never occur inside a multi-byte UTF-8 sequence).
  * `effective` = `address.ipv4_mapped or address`.
  * classification = interval tables `Gen.C22.v4Table` / `v6Table`, regenerated on every run from
    the running interpreter's `ipaddress` module (is_loopback / is_private / is_global).
  * `verdict` = the outcome (`client.error` afterwards, or the ValueError that escapes the hook).
-/
import MitmVerif.Basic.Bytes
import MitmVerif.Gen.C22
namespace MitmVerif.C22

abbrev Text := Bytes

/-! ### Python string primitives -/

/-- `s.split(sep)` for a one-character separator: always at least one part. -/
def splitOn (sep : UInt8) : Text → List Text
  | [] => [[]]
  | c :: cs =>
    match splitOn sep cs with
    | [] => [[c]]                                   -- unreachable (result is never empty)
    | p :: ps => if c = sep then [] :: p :: ps else (c :: p) :: ps

/-- everything before the last `%`, if there is one -/
def beforeLastPct : Text → Option Text
  | [] => none
  | c :: cs =>
    match beforeLastPct cs with
    | some r => some (c :: r)
    | none => if c = 0x25 then some [] else none

/-- `peername[0].rsplit("%", 1)[0]` -/
def peerHost (s : Text) : Text := (beforeLastPct s).getD s

/-- `s.partition("%")`: `none` when there is no separator -/
def partitionPct : Text → Option (Text × Text)
  | [] => none
  | c :: cs =>
    if c = 0x25 then some ([], cs)
    else match partitionPct cs with
      | some (a, b) => some (c :: a, b)
      | none => none

def isDigit (c : UInt8) : Bool := 0x30 ≤ c.toNat && c.toNat ≤ 0x39

def hexVal (c : UInt8) : Option Nat :=
  let n := c.toNat
  if 48 ≤ n ∧ n ≤ 57 then some (n - 48)
  else if 97 ≤ n ∧ n ≤ 102 then some (n - 87)
  else if 65 ≤ n ∧ n ≤ 70 then some (n - 55)
  else none

/-! ### `ipaddress.ip_address(str)` -/

/-- `IPv4Address._parse_octet` -/
def parseOctet (s : Text) : Option Nat :=
  if s.isEmpty then none
  else if !s.all isDigit then none
  else if s.length > 3 then none
  else if s != [0x30] && s.head? == some 0x30 then none          -- leading zero
  else
    let v := s.foldl (fun a c => a * 10 + (c.toNat - 48)) 0
    if v > 255 then none else some v

/-- `IPv4Address(str)._ip`  (`none` = AddressValueError) -/
def parseV4 (s : Text) : Option Nat :=
  if s.contains 0x2f then none
  else if s.isEmpty then none
  else match splitOn 0x2e s with
    | [a, b, c, d] =>
      match parseOctet a, parseOctet b, parseOctet c, parseOctet d with
      | some a, some b, some c, some d => some (((a * 256 + b) * 256 + c) * 256 + d)
      | _, _, _, _ => none
    | _ => none

/-- one colon-separated part; `num` stands for the `'%x'` rendering of one half of an IPv4 suffix -/
inductive Part where
  | txt (t : Text)
  | num (n : Nat)

def Part.isEmpty : Part → Bool
  | .txt t => t.isEmpty
  | .num _ => false

/-- `IPv6Address._parse_hextet` (`int('', 16)` raises as well) -/
def parseHextet (s : Text) : Option Nat :=
  if !s.all (fun c => (hexVal c).isSome) then none
  else if s.length > 4 then none
  else if s.isEmpty then none
  else some (s.foldl (fun a c => a * 16 + (hexVal c).getD 0) 0)

def Part.val : Part → Option Nat
  | .txt t => parseHextet t
  | .num n => some n

/-- `ip_int = (ip_int << 16) | hextet` over a run of parts -/
def foldParts : List Part → Nat → Option Nat
  | [], acc => some acc
  | p :: ps, acc =>
    match p.val with
    | some v => foldParts ps (acc * 65536 + v)
    | none => none

/-- indices `i` with `1 ≤ i < len-1` whose part is empty -/
def interiorEmpty (parts : List Part) : List Nat :=
  (List.range parts.length).filter fun i =>
    1 ≤ i && i + 1 < parts.length && (match parts[i]? with | some p => p.isEmpty | none => false)

/-- `parts_hi` hextets from the front, `parts_skipped = 8 - (hi + lo) ≥ 1` zero hextets, `parts_lo` from the back -/
def assembleSkip (parts : List Part) (hi lo : Nat) : Option Nat :=
  if hi + lo ≥ 8 then none
  else
    match foldParts (parts.take hi) 0 with
    | none => none
    | some a => foldParts (parts.drop (parts.length - lo)) (a * 65536 ^ (8 - (hi + lo)))

/-- the second half of `IPv6Address._ip_int_from_string`: from the list of parts (an IPv4 suffix already
    replaced by its two hextets) to the integer -/
def assembleV6 (parts : List Part) : Option Nat :=
  let len := parts.length
  if len > 9 then none
  else
    let firstEmpty := (parts.head?.map Part.isEmpty).getD false
    let lastEmpty := (parts.getLast?.map Part.isEmpty).getD false
    match interiorEmpty parts with
    | [] =>
      if len != 8 then none
      else if firstEmpty then none
      else if lastEmpty then none
      else foldParts parts 0
    | [k] =>
      let hi0 := k
      let lo0 := len - k - 1
      if firstEmpty && hi0 - 1 != 0 then none
      else if lastEmpty && lo0 - 1 != 0 then none
      else
        assembleSkip parts (if firstEmpty then hi0 - 1 else hi0) (if lastEmpty then lo0 - 1 else lo0)
    | _ => none

/-- the first half: split at `:`, at least 3 parts, an IPv4 suffix becomes two hextets -/
def v6Parts (s : Text) : Option (List Part) :=
  if s.isEmpty then none
  else
    let raw := splitOn 0x3a s
    if raw.length < 3 then none
    else
      let last := raw.getLast?.getD []
      if last.contains 0x2e then
        match parseV4 last with
        | some v => some (raw.dropLast.map Part.txt ++ [Part.num (v / 65536), Part.num (v % 65536)])
        | none => none
      else some (raw.map Part.txt)

/-- `IPv6Address._ip_int_from_string` -/
def parseV6Int (s : Text) : Option Nat :=
  match v6Parts s with
  | none => none
  | some parts => assembleV6 parts

inductive Addr where
  | v4 (n : Nat)
  | v6 (n : Nat) (scope : Option Text)
  deriving DecidableEq, Repr

/-- `IPv6Address(str)` -/
def parseV6 (s : Text) : Option Addr :=
  if s.contains 0x2f then none
  else match partitionPct s with
    | none => (parseV6Int s).map (Addr.v6 · none)
    | some (a, sc) =>
      if sc.isEmpty || sc.contains 0x25 then none
      else (parseV6Int a).map (Addr.v6 · (some sc))

/-- `ipaddress.ip_address(str)`  (`none` = ValueError) -/
def parseIp (s : Text) : Option Addr :=
  match parseV4 s with
  | some n => some (Addr.v4 n)
  | none => parseV6 s

/-! ### address classes -/

/-- `address.ipv4_mapped or address` -/
def effective : Addr → Addr
  | .v4 n => .v4 n
  | .v6 n sc => if n / 4294967296 = 0xFFFF then .v4 (n % 4294967296) else .v6 n sc

/-- first interval whose upper end is ≥ n -/
def lookup : List (Nat × Gen.C22.Cls) → Nat → Gen.C22.Cls
  | [], _ => ⟨false, false, false⟩
  | (hi, c) :: rest, n => if n ≤ hi then c else lookup rest n

/-- (is_loopback, is_private, is_global) of an address as this interpreter's `ipaddress` reports it -/
def classify : Addr → Gen.C22.Cls
  | .v4 n => lookup Gen.C22.v4Table n
  | .v6 n _ => lookup Gen.C22.v6Table n

/-! ### the same classes, by membership in the interpreter's network constants

`IPv4Network.__contains__(addr)` is `addr._ip & netmask._ip == network_address._ip`; clearing the host bits is
`n / 2^(bits-prefixlen) * 2^(bits-prefixlen)`. -/

def inNet (bits : Nat) (net : Nat × Nat) (n : Nat) : Bool :=
  n / 2 ^ (bits - net.2) * 2 ^ (bits - net.2) == net.1

/-- `any(addr in net for net in nets)` -/
def inAny (bits : Nat) (nets : List (Nat × Nat)) (n : Nat) : Bool := nets.any (inNet bits · n)

/-- `IPv4Address.is_loopback / is_private / is_global` of CPython 3.12.1 -/
def memberCls4 (n : Nat) : Gen.C22.Cls :=
  let p := inAny 32 Gen.C22.private4 n
  ⟨inAny 32 Gen.C22.loopback4 n, p, !inAny 32 Gen.C22.public4 n && !p⟩

/-- `IPv6Address.is_loopback / is_private / is_global` of CPython 3.12.1 for an address that is not
    IPv4-mapped (`Block` hands mapped addresses over as IPv4 addresses, see `effective`) -/
def memberCls6 (n : Nat) : Gen.C22.Cls :=
  let p := inAny 128 Gen.C22.private6 n
  ⟨inAny 128 Gen.C22.loopback6 n, p, !p⟩

def memberCls : Addr → Gen.C22.Cls
  | .v4 n => memberCls4 n
  | .v6 n _ => memberCls6 n

/-! ### `Block.client_connected` -/

/-- `isinstance(client.proxy_mode, mode_specs.LocalMode)`: `LocalMode` occurs in the `__mro__` of the mode's
    class (the class hierarchy is regenerated from `mode_specs` on every run, `Gen.C22.Mode.mro`) -/
def _root_.MitmVerif.Gen.C22.Mode.isLocal (m : Gen.C22.Mode) : Bool := m.mro.contains "LocalMode"

export Gen.C22 (Mode)

inductive Verdict where
  | pass            -- client.error stays None
  | killedPrivate   -- "Connection killed by block_private."
  | killedGlobal    -- "Connection killed by block_global."
  | raised          -- ValueError escapes client_connected (client.error stays None)
  deriving DecidableEq, Repr

def Verdict.refused : Verdict → Bool
  | .killedPrivate => true
  | .killedGlobal => true
  | _ => false

def decideAddr (a : Addr) (m : Mode) (blockGlobal blockPrivate : Bool) : Verdict :=
  let c := classify (effective a)
  if c.loop || m.isLocal then .pass
  else
    let v1 := if blockPrivate && c.priv then Verdict.killedPrivate else Verdict.pass
    if blockGlobal && c.glob then .killedGlobal else v1

def verdict (peer : Text) (m : Mode) (blockGlobal blockPrivate : Bool) : Verdict :=
  match parseIp (peerHost peer) with
  | none => .raised
  | some a => decideAddr a m blockGlobal blockPrivate

/-! ### `ConnectionHandler.handle_client` around the `client_connected` hook -/

inductive Ev where
  | hookClientConnected | closeWriter | startLayer | handleConnection | hookClientDisconnected
  deriving DecidableEq, Repr

/-- what `handle_client` does, given whether `client.error` is set after the hook -/
def handleClient (errorSet : Bool) : List Ev :=
  [Ev.hookClientConnected] ++
  (if errorSet then [Ev.closeWriter] else [Ev.startLayer, Ev.handleConnection]) ++
  [Ev.hookClientDisconnected]

def clientTrace (peer : Text) (m : Mode) (bg bp : Bool) : List Ev :=
  handleClient (verdict peer m bg bp).refused

end MitmVerif.C22
