/-
  C23 — mitmproxy never proxies a connection back to its own listening sockets.

  Model of `mitmproxy.addons.proxyserver.Proxyserver.server_connect` (self-connect guard, with
  `_is_own_host` / `_unmap`) and of the part of `ConnectionHandler.open_connection` that acts on
  `server.error` after the `server_connect` hook.  Address parsing (`ipaddress.ip_address`) and the
  IPv4-mapped view are the C22 model's `parseIp` / `effective`.  Host texts are ASCII byte strings
  (`str.lower()` is modelled by ASCII lower-casing).
  `denotesOwnSocket` is the specification: which destinations denote one of the listening sockets.
-/
import MitmVerif.Basic.Bytes
import MitmVerif.Model.C22
import MitmVerif.Gen.C23
namespace MitmVerif.C23
open MitmVerif.C22 (Text Addr parseIp effective)

inductive Transport where
  | tcp | udp
  deriving DecidableEq, Repr

/-- `mode.transport_protocol` of a server instance -/
inductive ModeTransport where
  | tcp | udp | both
  deriving DecidableEq, Repr

/-- one running server instance: its mode's transport and `listen_addrs` (host, port) -/
structure Server where
  transport : ModeTransport
  addrs : List (Text × Nat)
  deriving DecidableEq

/-- `mode.transport_protocol in (data.server.transport_protocol, "both")` -/
def transportMatches : ModeTransport → Transport → Bool
  | .both, _ => true
  | .tcp, .tcp => true
  | .udp, .udp => true
  | _, _ => false

/-- `s.removesuffix(".")` -/
def dropTrailingDot (t : Text) : Text :=
  if t.getLast? = some 0x2e then t.dropLast else t

/-- `connect_host.lower().removesuffix(".")` -/
def normHost (h : Text) : Text := dropTrailingDot (h.map asciiLowerB)

def localhost : Text := [0x6c, 0x6f, 0x63, 0x61, 0x6c, 0x68, 0x6f, 0x73, 0x74]

/-- `ip.is_loopback` (IPv4: membership in `_loopback_network`; IPv6: `_ip == 1`) -/
def isLoopback : Addr → Bool
  | .v4 n => Nat.ble Gen.C23.loop4Lo n && Nat.ble n Gen.C23.loop4Hi
  | .v6 n _ => n == Gen.C23.loop6

/-- `ip.is_unspecified` -/
def isUnspecified : Addr → Bool
  | .v4 n => n == Gen.C23.unspec4
  | .v6 n _ => n == Gen.C23.unspec6

/-- `_is_own_host(connect_host, listen_host)` -/
def isOwnHost (connect listen : Text) : Bool :=
  let host := normHost connect
  if host == localhost || listen == connect || listen == host then true
  else
    match parseIp host with
    | none => false                                       -- ValueError
    | some ip0 =>
      let ip := effective ip0                             -- _unmap
      if isLoopback ip || isUnspecified ip then true
      else
        match parseIp listen with
        | none => false                                   -- ValueError
        | some l => ip == effective l

/-- the `self_connect` test of `server_connect`, over all servers and all their listen addresses -/
def selfConnect (servers : List Server) (dh : Text) (dp : Nat) (tp : Transport) : Bool :=
  servers.any fun s => s.addrs.any fun a =>
    dp == a.2 && isOwnHost dh a.1 && transportMatches s.transport tp

inductive SrvError where
  | destinationUnknown     -- "Request destination unknown. Unable to figure out where this request should be forwarded to."
  deriving DecidableEq, Repr

/-- `data.server.error` after the hook (it was `None` before) -/
def serverConnect (servers : List Server) (dh : Text) (dp : Nat) (tp : Transport) : Option SrvError :=
  if selfConnect servers dh dp tp then some .destinationUnknown else none

/-! ### `ConnectionHandler.open_connection` around the hook -/

inductive Ev where
  | hookServerConnect | hookServerConnectError | completedKilled | socketOpen
  | completedError | hookServerConnected | completedOk | handleConnection | hookServerDisconnected
  deriving DecidableEq, Repr

/-- `open_connection` for a command whose connection has an address; `connectOk` = the outcome of
    `asyncio.open_connection` / `open_udp_connection` if it is reached -/
def openConnection (err : Option SrvError) (connectOk : Bool) : List Ev :=
  Ev.hookServerConnect ::
    match err with
    | some _ => [Ev.hookServerConnectError, Ev.completedKilled]
    | none =>
      Ev.socketOpen ::
        (if connectOk then [Ev.hookServerConnected, Ev.completedOk, Ev.handleConnection, Ev.hookServerDisconnected]
         else [Ev.hookServerConnectError, Ev.completedError])

def openTrace (servers : List Server) (dh : Text) (dp : Nat) (tp : Transport) (connectOk : Bool) : List Ev :=
  openConnection (serverConnect servers dh dp tp) connectOk

/-! ### specification: which destinations denote one of our own listening sockets -/

/-- 127.0.0.0/8, ::1, ::ffff:127.0.0.0/104 -/
def loopbackAddr : Addr → Bool
  | .v4 n => Nat.ble 2130706432 n && Nat.ble n 2147483647
  | .v6 n _ => n == 1 ||
      (n / 4294967296 == 0xFFFF && Nat.ble 2130706432 (n % 4294967296) && Nat.ble (n % 4294967296) 2147483647)

/-- 0.0.0.0, ::, ::ffff:0.0.0.0 -/
def unspecAddr : Addr → Bool
  | .v4 n => n == 0
  | .v6 n _ => n == 0 || n == 0xFFFF * 4294967296

def optAny (o : Option Addr) (p : Addr → Bool) : Bool :=
  match o with
  | some a => p a
  | none => false

/-- a loopback name (`localhost`, any case, optional trailing dot) or a loopback address -/
def denotesLoopback (dh : Text) : Bool :=
  normHost dh == localhost || optAny (parseIp (normHost dh)) loopbackAddr

/-- the wildcard address itself -/
def denotesUnspecified (dh : Text) : Bool := optAny (parseIp (normHost dh)) unspecAddr

/-- the explicit listen address: the same text (up to case / trailing dot) or the same address
    (up to notation and IPv4-mapping) -/
def sameHost (dh lh : Text) : Bool :=
  dh == lh || normHost dh == lh ||
    (match parseIp (normHost dh), parseIp lh with
     | some a, some b => effective a == effective b
     | _, _ => false)

/-- the listener is bound to a loopback address or to all interfaces -/
def listensOnLoopbackOrAny (lh : Text) : Bool :=
  optAny (parseIp lh) fun b => loopbackAddr b || unspecAddr b

def denotesOwnSocket (servers : List Server) (dh : Text) (dp : Nat) (tp : Transport) : Bool :=
  servers.any fun s => s.addrs.any fun a =>
    transportMatches s.transport tp && dp == a.2 &&
      (sameHost dh a.1 || (listensOnLoopbackOrAny a.1 && denotesLoopback dh) || denotesUnspecified dh)

/-! ### the listener set as state: `Servers.update` under runtime reconfiguration

`Servers._instances` is a dict mode-spec ↦ server instance.  `update(modes)` keeps the instance of every
spec that is already present, makes and starts an instance for every new spec, and drops (stops) the rest;
with `server = False` everything is dropped.  What a newly started instance listens on is the operating
system's answer (`start`, an environment parameter: empty when the start failed).  Mode specs are
identified by a key; `configure` has rejected duplicate listen addresses before `update` runs. -/

abbrev State := List (Nat × Server)

/-- the live server instances `server_connect` iterates over (`for server in self.servers`) -/
def State.live (st : State) : List Server := st.map (·.2)

def lookupKey (l : List (Nat × Server)) (k : Nat) : Option Server :=
  match l with
  | [] => none
  | (k', s) :: rest => if k' == k then some s else lookupKey rest k

/-- `Servers.update(modes)` -/
def update (st : State) (serverOpt : Bool) (modes : List Nat) (start : List (Nat × Server)) : State :=
  if serverOpt then
    modes.map fun k =>
      match lookupKey st k with
      | some inst => (k, inst)                                         -- existing instance kept as it is
      | none => (k, (lookupKey start k).getD ⟨.tcp, []⟩)               -- new instance; no addresses if it failed to start
  else []

inductive Op where
  | reconfigure (serverOpt : Bool) (modes : List Nat) (start : List (Nat × Server))
  | connect (dh : Text) (dp : Nat) (tp : Transport) (connectOk : Bool)

inductive Out where
  | listeners (st : List (Nat × Server))
  | trace (evs : List Ev)
  deriving DecidableEq

def stepState (st : State) : Op → State
  | .reconfigure so modes start => update st so modes start
  | .connect _ _ _ _ => st

def stepOut (st : State) : Op → Out
  | .reconfigure so modes start => .listeners (update st so modes start)
  | .connect dh dp tp ok => .trace (openTrace st.live dh dp tp ok)

def stateAfter (st : State) : List Op → State
  | [] => st
  | op :: ops => stateAfter (stepState st op) ops

/-- the observable of a whole history: one output per operation -/
def run (st : State) : List Op → List Out
  | [] => []
  | op :: ops => stepOut st op :: run (stepState st op) ops

/-! ### repeated `OpenConnection` commands on ONE `Server` object

`connection.error` lives on the `Server` object and survives an attempt: the guard of `server_connect` sets it
when it fires and leaves it alone otherwise; `open_connection` looks at whatever is there after the hook, and a
failed dial stores its own error.  Whether THIS attempt dials is a function of the error present after THIS
attempt's hook. -/

inductive ConnError where
  | destinationUnknown      -- set by the self-connect guard
  | dialError               -- str(OSError) of a failed dial
  deriving DecidableEq, Repr

/-- `connection.error` after the `server_connect` hook of this attempt -/
def errorAfterHook (servers : List Server) (prior : Option ConnError) (dh : Text) (dp : Nat) (tp : Transport) :
    Option ConnError :=
  if selfConnect servers dh dp tp then some .destinationUnknown else prior

/-- one `open_connection` on the object: the trace and `connection.error` afterwards -/
def attempt (servers : List Server) (prior : Option ConnError) (dh : Text) (dp : Nat) (tp : Transport)
    (connectOk : Bool) : List Ev × Option ConnError :=
  match errorAfterHook servers prior dh dp tp with
  | some e => ([Ev.hookServerConnect, Ev.hookServerConnectError, Ev.completedKilled], some e)
  | none =>
    if connectOk then
      ([Ev.hookServerConnect, Ev.socketOpen, Ev.hookServerConnected, Ev.completedOk, Ev.handleConnection,
        Ev.hookServerDisconnected], none)
    else ([Ev.hookServerConnect, Ev.socketOpen, Ev.hookServerConnectError, Ev.completedError], some .dialError)

/-- a history of attempts on one object; the listener set may differ from attempt to attempt -/
def attempts (prior : Option ConnError) (dh : Text) (dp : Nat) (tp : Transport) :
    List (List Server × Bool) → List (Option ConnError × List Ev)
  | [] => []
  | (servers, ok) :: rest =>
    let r := attempt servers prior dh dp tp ok
    (errorAfterHook servers prior dh dp tp, r.1) :: attempts r.2 dh dp tp rest

/-! ### the listener set per instance start / stop event (an update in flight)

`Servers.update` does not change the listener set atomically: it first replaces `_instances` (the new dict
lists the kept and the not-yet-started instances), then the stop tasks run, then the start tasks; every
stop / start completes on its own.  `listed` = the keys of `_instances`, `target` = the keys of
`new_instances` of the update in flight, `bound` = the instances whose sockets are listening right now.
The guard sees the listed instances with the sockets they have at that moment. -/

structure LState where
  listed : List Nat
  target : List Nat
  bound : List (Nat × Server)

inductive LEv where
  | beginUpdate (serverOpt : Bool) (modes : List Nat)   -- `self._instances = new_instances`
  | stopped (k : Nat)                                    -- a stop task has closed its sockets
  | stopsDone                                            -- all stop tasks gathered
  | started (k : Nat) (s : Server)                       -- a start task has bound its sockets
  | connect (dh : Text) (dp : Nat) (tp : Transport) (connectOk : Bool)

/-- what `for server in self.servers: server.listen_addrs` yields at this moment -/
def LState.guardView (st : LState) : List Server :=
  (st.bound.filter fun e => st.listed.contains e.1).map (·.2)

/-- every socket that is listening right now -/
def LState.listening (st : LState) : List Server := st.bound.map (·.2)

def lstep (st : LState) : LEv → LState
  | .beginUpdate so modes =>
    let target := if so then modes else []
    -- instances that are going away stay listed until their stop task is through
    { listed := target ++ st.listed.filter (fun k => !target.contains k), target := target, bound := st.bound }
  | .stopped k => { st with bound := st.bound.filter fun e => e.1 != k }
  | .stopsDone =>
    { st with listed := st.target, bound := st.bound.filter fun e => st.target.contains e.1 }
  | .started k s =>
    if st.listed.contains k then { st with bound := (k, s) :: st.bound.filter fun e => e.1 != k } else st
  | .connect _ _ _ _ => st

def lout (st : LState) : LEv → Option (List Ev)
  | .connect dh dp tp ok => some (openTrace st.guardView dh dp tp ok)
  | _ => none

def lstateAfter (st : LState) : List LEv → LState
  | [] => st
  | e :: es => lstateAfter (lstep st e) es

def lrun (st : LState) : List LEv → List (Option (List Ev))
  | [] => []
  | e :: es => lout st e :: lrun (lstep st e) es

def LState.empty : LState := ⟨[], [], []⟩

end MitmVerif.C23
