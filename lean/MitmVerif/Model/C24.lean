/-
  C24 — upstream credentials are only sent to the upstream proxy or the reverse target.

  Model of mitmproxy/addons/upstream_auth.py (`UpstreamAuth.requestheaders`, `http_connect_upstream`,
  `http_connected`, the `tunneled` set) composed with the routing of the proxy core:
    * HttpLayer.get_connection (layers/http/__init__.py): in upstream mode a plain-http request is written directly
      to the upstream proxy (`send_connect = event.tls or mode != upstream` is false), an https request goes through
      mitmproxy's own CONNECT to the proxy followed by TLS; in a transparent HttpLayer (reverse / transparent /
      SOCKS5, and *inside every CONNECT tunnel*) requests go to `context.server`;
    * HttpStream.handle_connect_upstream + _upstream_proxy.HttpUpstreamProxy.start_handshake: a client's CONNECT in
      upstream mode is answered 200; mitmproxy's own CONNECT to the proxy is written when the tunnel is first used and
      passes through the `http_connect_upstream` hook; everything after it on that connection travels to the origin.
-/
import MitmVerif.Basic.Bytes
namespace MitmVerif.C24

inductive Mode where
  | regular | upstream | reverse | transparent | socks5
  deriving DecidableEq, Repr

/-- where a request head is written -/
inductive Dest where
  | proxy             -- on a connection to the configured upstream proxy, outside any tunnel
  | originViaTunnel   -- through a CONNECT tunnel at the upstream proxy: read by the origin server
  | originDirect      -- on a connection to the origin itself
  | reverseTarget     -- on a connection to the reverse-mode target
  deriving DecidableEq, Repr

inductive Form where
  | connect | request
  deriving DecidableEq, Repr

inductive CredHdr where
  | proxyAuthorization | authorization
  deriving DecidableEq, Repr

structure Write where
  dest : Dest
  form : Form
  tls : Bool                    -- the head is written inside a TLS session with the origin
  cred : Option CredHdr         -- the field carrying the configured credential, if any
  deriving DecidableEq, Repr

/-! ### the addon -/

/-- `UpstreamAuth.requestheaders` (after the repair: "and f.client_conn not in self.tunneled") -/
def requestheaders (auth : Bool) (m : Mode) (schemeHttp : Bool) (tunneled : Bool) : Option CredHdr :=
  if !auth then none
  else if m = .upstream && schemeHttp && !tunneled then some .proxyAuthorization
  else if m = .reverse then some .authorization
  else none

/-- the code before the repair (F-C24a): no look at the tunnel -/
def requestheadersOld (auth : Bool) (m : Mode) (schemeHttp : Bool) : Option CredHdr :=
  requestheaders auth m schemeHttp false

/-- `UpstreamAuth.http_connect_upstream` -/
def connectUpstream (auth : Bool) : Option CredHdr := if auth then some .proxyAuthorization else none

/-! ### connections -/

inductive Phase where
  | outer                      -- the mode's own HttpLayer
  | tunnel (opened : Bool)     -- inside a CONNECT tunnel; `opened`: the upstream side has been connected
  | closed
  deriving DecidableEq, Repr

inductive Ev where
  | req (https : Bool)         -- a request; `https`: absolute-form with scheme https (only meaningful to an explicit proxy)
  | connect                    -- CONNECT host:port
  | drop                       -- the upstream connection(s) of this client connection are closed by the peer / an error
  deriving DecidableEq, Repr

inductive Kind where
  | response | tunnel | invalid | ignored | noop
  deriving DecidableEq, Repr

structure State where
  tunneled : List Nat          -- UpstreamAuth.tunneled
  phase : Nat → Phase

def State.init : State := ⟨[], fun _ => .outer⟩

def State.setPhase (σ : State) (cid : Nat) (p : Phase) : State :=
  { σ with phase := fun c => if c = cid then p else σ.phase c }

def Mode.isHttpProxy : Mode → Bool
  | .regular => true
  | .upstream => true
  | _ => false

/-- destination of a request handled by a transparent HttpLayer of a connection in mode `m` that is not in a tunnel -/
def transparentDest (m : Mode) : Dest := if m = .reverse then .reverseTarget else .originDirect

/-- the `requestheaders` decision can be computed by either version of the addon -/
abbrev Decide := Bool → Mode → Bool → Bool → Option CredHdr

/-- one event on connection `cid` in mode `m`; `rh` is the addon's requestheaders rule -/
def stepWith (rh : Decide) (auth : Bool) (m : Mode) (σ : State) (cid : Nat) (e : Ev) : State × Kind × List Write :=
  let tn := σ.tunneled.contains cid
  match σ.phase cid, e with
  | .closed, _ => (σ, .ignored, [])
  -- a server disconnect changes nothing for the client connection: it stays in its tunnel (HttpStream.passthrough for its
  -- whole life) and stays in `tunneled`; the upstream side is simply connected again when next needed
  | .outer, .drop => (σ, .noop, [])
  | .tunnel _, .drop => (σ.setPhase cid (.tunnel false), .noop, [])
  | .outer, .connect =>
    if m.isHttpProxy then
      -- 200 to the client, `http_connected` fires; regular mode connects eagerly (no bytes), upstream mode lazily
      (({ σ with tunneled := cid :: σ.tunneled }).setPhase cid (.tunnel (m == Mode.regular)), .tunnel, [])
    else (σ.setPhase cid .closed, .invalid, [])
  | .outer, .req https =>
    match m with
    | .regular =>
      (σ, .response, [⟨.originDirect, .request, https, rh auth m (!https) tn⟩])
    | .upstream =>
      if https then
        (σ, .response, [⟨.proxy, .connect, false, connectUpstream auth⟩,
                        ⟨.originViaTunnel, .request, true, rh auth m false tn⟩])
      else (σ, .response, [⟨.proxy, .request, false, rh auth m true tn⟩])
    | _ => (σ, .response, [⟨transparentDest m, .request, false, rh auth m true tn⟩])
  | .tunnel _, .connect => (σ.setPhase cid .closed, .invalid, [])      -- transparent HttpLayer: CONNECT is invalid
  | .tunnel opened, .req _ =>
    -- transparent HttpLayer inside the tunnel: scheme http (no TLS inside)
    match m with
    | .upstream =>
      let pre : List Write := if opened then [] else [⟨.proxy, .connect, false, connectUpstream auth⟩]
      (σ.setPhase cid (.tunnel true), .response, pre ++ [⟨.originViaTunnel, .request, false, rh auth m true tn⟩])
    | _ => (σ, .response, [⟨.originDirect, .request, false, rh auth m true tn⟩])

def step := stepWith requestheaders
def stepOld := stepWith (fun a m s _ => requestheadersOld a m s)

def runWith (rh : Decide) (auth : Bool) (modes : Nat → Mode) : State → List (Nat × Ev) → List (Nat × Kind × List Write)
  | _, [] => []
  | σ, (cid, e) :: rest =>
    let r := stepWith rh auth (modes cid) σ cid e
    (cid, r.2.1, r.2.2) :: runWith rh auth modes r.1 rest

def run := runWith requestheaders
def runOld := runWith (fun a m s _ => requestheadersOld a m s)

/-- client replay (clientplayback.ReplayHandler + UpstreamAuth.proxy_mode): a recorded request does not re-enter through
    the listener it was recorded on; it is routed — and the credential decided — by the mode the instance RUNS in
    (the recorded client connection's proxy mode is not an argument).  `toTarget`: the request's own (host, port) is the
    reverse-mode target. -/
def replayWrites (auth : Bool) (run : Mode) (https toTarget : Bool) : List Write :=
  match run with
  | .upstream =>
    if https then [⟨.proxy, .connect, false, connectUpstream auth⟩,
                   ⟨.originViaTunnel, .request, true, requestheaders auth .upstream false false⟩]
    else [⟨.proxy, .request, false, requestheaders auth .upstream true false⟩]
  | .reverse =>
    [⟨if toTarget then .reverseTarget else .originDirect, .request, https,
      if auth && toTarget then some .authorization else none⟩]
  | _ => [⟨.originDirect, .request, https, none⟩]

/-- histories in which `upstream_auth` is changed at runtime: every event carries the option's state when it arrives -/
def runVar (modes : Nat → Mode) : State → List (Nat × Bool × Ev) → List (Nat × Kind × List Write)
  | _, [] => []
  | σ, (cid, auth, e) :: rest =>
    let r := step auth (modes cid) σ cid e
    (cid, r.2.1, r.2.2) :: runVar modes r.1 rest

end MitmVerif.C24
