/-
  C24 — the credential itself: `mitmproxy.addons.upstream_auth.parse_upstream_auth`
      pattern = re.compile(".+:");  if pattern.search(auth) is None: raise OptionsError
      return b"Basic" + b" " + base64.b64encode(strutils.always_bytes(auth))
  transcribed with the base64 / UTF-8 transcriptions of C20_B64 (`.` does not match "\n", so the specification is
  valid iff some ':' is directly preceded by a character other than a newline).
-/
import MitmVerif.Model.C20_B64
namespace MitmVerif.C24.Cred
open MitmVerif.C20.B64

/-- `re.compile(".+:").search(auth) is not None` -/
def validSpec : CText → Bool
  | a :: b :: rest => (b == 58 && a != 10) || validSpec (b :: rest)
  | _ => false

/-- `parse_upstream_auth(auth)`: the header value UpstreamAuth writes; `none` = OptionsError -/
def upstreamAuthValue (auth : CText) : Option NBytes :=
  if validSpec auth then some (strText "Basic " ++ b2a (utf8enc auth)) else none

end MitmVerif.C24.Cred
