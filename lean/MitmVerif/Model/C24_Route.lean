/-
  C24 — routing model: which upstream connection (address, tls, sni, via, CONNECT-first) carries each request, with
  connection reuse, as HttpStream.make_server_connection / HttpLayer.get_connection /
  _upstream_proxy.HttpUpstreamProxy.make decide it — composed with the UpstreamAuth decisions of Model.C24.

  * explicit-proxy layer (regular / upstream, before any client CONNECT): the request's own target (host, port, scheme)
    is the connection spec; `via` = the configured upstream proxy in upstream mode; `send_connect = tls or mode != upstream`;
    a connection is reused iff (address, tls, via) all match (`connection_spec_matches`);
  * transparent layer (reverse / transparent / SOCKS5, and inside every client CONNECT tunnel): host, port and scheme
    come from `context.server`, whatever the request's Host says; that one connection is used for everything;
  * a client CONNECT in regular/upstream mode starts a fresh transparent layer whose `context.server` is the CONNECT
    target (with `via` and a CONNECT-first tunnel layer in upstream mode).
  Hosts are abstract ids.
-/
import MitmVerif.Model.C24
namespace MitmVerif.C24.Route
open MitmVerif.C24

structure UpConn where
  host : Nat
  port : Nat
  tls : Bool
  sni : Option Nat
  via : Bool                 -- Server.via = the configured upstream proxy
  sendConnect : Bool         -- HttpUpstreamProxy(send_connect=True): a CONNECT precedes everything on the wire
  idx : Nat                  -- order of first use on this client connection
  deriving DecidableEq, Repr

/-- `GetHttpConnection.connection_spec_matches` -/
def UpConn.matches (c : UpConn) (host port : Nat) (tls via : Bool) : Bool :=
  c.host == host && c.port == port && c.tls == tls && c.via == via

inductive RPhase where
  | outer | tunnel | closed
  deriving DecidableEq, Repr

structure CState where
  phase : RPhase := .outer
  ctx : Option UpConn := none      -- context.server of the current HttpLayer, when it has an address
  ctxUsed : Bool := false          -- … and whether it has been handed out (is in HttpLayer.connections)
  pool : List UpConn := []         -- connections of the current HttpLayer, in order of creation
  connected : List Nat := []       -- idx of the CONNECT-first connections whose CONNECT has been written
  used : Nat := 0                  -- number of distinct upstream connections used so far
  deriving Repr

structure RWrite where
  form : Form
  cred : Option CredHdr
  deriving DecidableEq, Repr

inductive REv where
  | req (host port : Nat) (https : Bool)     -- target as written by the client (absolute-form URL / Host header)
  | connect (host port : Nat)
  | drop                                     -- every upstream connection of this client connection is closed
  deriving DecidableEq, Repr

structure ROut where
  kind : Kind
  conn : Option UpConn := none     -- the connection that carries the request
  fresh : Bool := false            -- first use of that connection
  writes : List RWrite := []
  deriving DecidableEq, Repr

/-- `context.server` at the start, per mode (host ids: 1 = the transparent/SOCKS destination, 3 = the reverse target) -/
def initCtx : Mode → Option UpConn
  | .reverse => some ⟨3, 8000, false, none, false, false, 0⟩
  | .transparent => some ⟨1, 80, false, none, false, false, 0⟩
  | .socks5 => some ⟨1, 80, false, none, false, false, 0⟩
  | _ => none

def CState.init (m : Mode) : CState := { ctx := initCtx m }

/-- the writes a request causes on connection `c`: the CONNECT first if this is a CONNECT-first connection that has
    not been set up yet, then the request -/
def writesOn (auth : Bool) (m : Mode) (c : UpConn) (connectDone : Bool) (schemeHttp tunneled : Bool) : List RWrite :=
  (if c.sendConnect && !connectDone then [⟨.connect, connectUpstream auth⟩] else []) ++
  [⟨.request, requestheaders auth m schemeHttp tunneled⟩]

/-- one event on a client connection in mode `m`; `tunneled` = membership in UpstreamAuth.tunneled -/
def rstep (auth : Bool) (m : Mode) (tunneled : Bool) (s : CState) (e : REv) : CState × ROut :=
  match s.phase, e with
  | .closed, _ => (s, { kind := .ignored })
  -- closed connections are never handed out again (`connection.connected` is false): the pool is gone, and the
  -- context connection, when next needed, is replaced by a new one with the same parameters (and a new CONNECT)
  | _, .drop => ({ s with pool := [], ctxUsed := false }, { kind := .noop })
  | .outer, .connect host port =>
    if m.isHttpProxy then
      ({ phase := .tunnel, ctx := some ⟨host, port, false, none, m == Mode.upstream, m == Mode.upstream, 0⟩,
         ctxUsed := false, pool := [], connected := s.connected, used := s.used }, { kind := .tunnel })
    else ({ s with phase := .closed }, { kind := .invalid })
  | .tunnel, .connect _ _ => ({ s with phase := .closed }, { kind := .invalid })
  | ph, .req host port https =>
    let proxyLayer := m.isHttpProxy && ph == .outer
    if proxyLayer then
      -- HttpStream.make_server_connection: GetHttpConnection((host, port), scheme == https, via)
      let via := m == Mode.upstream
      match s.pool.find? (fun c => c.matches host port https via) with
      | some c =>
        (if c.sendConnect then { s with connected := c.idx :: s.connected } else s,
         { kind := .response, conn := some c, fresh := false,
           writes := writesOn auth m c (s.connected.contains c.idx) (!https) tunneled })
      | none =>
        let c : UpConn := ⟨host, port, https, if https then some host else none, via, via && https, s.used⟩
        ({ s with pool := s.pool ++ [c], used := s.used + 1,
                  connected := if c.sendConnect then c.idx :: s.connected else s.connected },
         { kind := .response, conn := some c, fresh := true, writes := writesOn auth m c false (!https) tunneled })
    else
      -- transparent layer: destination and scheme are context.server's, the request's own host is not consulted
      match s.ctx with
      | none => ({ s with phase := .closed }, { kind := .invalid })
      | some c0 =>
        let c := if s.ctxUsed then c0 else { c0 with idx := s.used }
        ({ s with ctx := some c, ctxUsed := true, used := if s.ctxUsed then s.used else s.used + 1,
                  connected := if c.sendConnect then c.idx :: s.connected else s.connected },
         { kind := .response, conn := some c, fresh := !s.ctxUsed,
           writes := writesOn auth m c (s.connected.contains c.idx) true tunneled })

structure RState where
  tunneled : List Nat
  conns : Nat → CState

def RState.init (modes : Nat → Mode) : RState := ⟨[], fun c => CState.init (modes c)⟩

def rrun (auth : Bool) (modes : Nat → Mode) : RState → List (Nat × REv) → List (Nat × ROut)
  | _, [] => []
  | σ, (cid, e) :: rest =>
    let r := rstep auth (modes cid) (σ.tunneled.contains cid) (σ.conns cid) e
    let σ' : RState :=
      { tunneled := if r.2.kind = .tunnel then cid :: σ.tunneled else σ.tunneled,
        conns := fun c => if c = cid then r.1 else σ.conns c }
    (cid, r.2) :: rrun auth modes σ' rest

/-- the same with `upstream_auth` changed at runtime -/
def rrunVar (modes : Nat → Mode) : RState → List (Nat × Bool × REv) → List (Nat × ROut)
  | _, [] => []
  | σ, (cid, auth, e) :: rest =>
    let r := rstep auth (modes cid) (σ.tunneled.contains cid) (σ.conns cid) e
    let σ' : RState :=
      { tunneled := if r.2.kind = .tunnel then cid :: σ.tunneled else σ.tunneled,
        conns := fun c => if c = cid then r.1 else σ.conns c }
    (cid, r.2) :: rrunVar modes σ' rest

/-- who reads a write on connection `c`: the upstream proxy, the origin behind a tunnel, or the addressed server itself -/
def partyOf (m : Mode) (c : UpConn) (w : RWrite) : Dest :=
  if c.via then (if c.sendConnect && w.form == .request then .originViaTunnel else .proxy)
  else if m == Mode.reverse && c.host == 3 then .reverseTarget else .originDirect

end MitmVerif.C24.Route
