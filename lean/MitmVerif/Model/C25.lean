/-
  C25 — DNS wire codec (shared with C26).
  Model of mitmproxy/net/dns/domain_names.py (`pack`, `_unpack_label_into`, `unpack_from_with_compression`
  with its offset cache, `_expand_name`, `_expand_name_field`, `expand_record_data`) and of
  `DNSMessage.unpack / unpack_from / packed` in mitmproxy/dns.py, as they are after the `fix:` commits
  recorded in known/C25.json.

  * A Python `str` is modelled by its UTF-8 bytes (`Text`); splitting/joining on "." commutes with UTF-8.
  * The `idna` codec is a *parameter* (`Idna`): it is consulted only for labels that contain the ACE prefix
    `xn--` (decode) and for non-ASCII text (encode); everything else is the codec's ASCII fast path, which is
    transcribed.  No law about the parameter is assumed anywhere.
  * `none` = the call raises (struct.error on decode; ValueError/struct.error on encode).
  * The two pointer-chasing functions are defined by well-founded recursion on the number of buffer offsets
    that have not been visited yet: that Lean accepts them *is* the termination argument (no fuel).
-/
import MitmVerif.Basic.Bytes
import MitmVerif.Gen.C25
set_option linter.unusedVariables false
set_option linter.unusedSimpArgs false
namespace MitmVerif.C25

abbrev Text := Bytes

/-- the parts of Python's `idna` codec that are not transcribed -/
structure Idna where
  /-- `raw.decode("idna")` for a label that contains `xn--`; `none` = UnicodeError -/
  dec : Bytes → Option Text
  /-- `text.encode("idna")` for a text with a non-ASCII character; `none` = UnicodeError -/
  enc : Text → Option Bytes

/-! ### text helpers -/

def isAscii (b : Bytes) : Bool := b.all (fun c => decide (c.toNat < 128))

def acePrefix : Bytes := [0x78, 0x6e, 0x2d, 0x2d]

/-- `b"xn--" in raw` -/
def hasAce : Bytes → Bool
  | [] => false
  | c :: rest => acePrefix.isPrefixOf (c :: rest) || hasAce rest

def consHead (c : UInt8) : List Text → List Text
  | [] => [[c]]
  | h :: t => (c :: h) :: t

/-- `str.split(".")` -/
def splitDot : Text → List Text
  | [] => [[]]
  | c :: rest => if c = 46 then [] :: splitDot rest else consHead c (splitDot rest)

/-- `".".join(parts)` -/
def joinDot : List Text → Text
  | [] => []
  | [a] => a
  | a :: b :: rest => a ++ 46 :: joinDot (b :: rest)

/-- ASCII fast path of `Codec.encode`: every part but the last is 1..63 long, the last at most 63 -/
def fastPathOk (t : Text) : Bool :=
  let ls := splitDot t
  ls.dropLast.all (fun l => decide (0 < l.length ∧ l.length < 64)) &&
    (match ls.getLast? with | some l => decide (l.length < 64) | none => true)

/-- `text.encode("idna")` -/
def encText (I : Idna) (t : Text) : Option Bytes :=
  if t = [] then some []
  else if isAscii t then (if fastPathOk t then some t else none)
  else I.enc t

/-- `raw.decode("idna")` -/
def decText (I : Idna) (raw : Bytes) : Option Text :=
  if hasAce raw then I.dec raw
  else if isAscii raw then some raw
  else none

/-- the label part of `_unpack_label_into` (raw is the non-empty label content) -/
def decLabel (I : Idna) (raw : Bytes) : Option Text :=
  match decText I raw with
  | none => none
  | some t =>
    match encText I t with
    | none => none
    | some e =>
      let label := if e = raw then some t else (if isAscii raw then some raw else none)
      match label with
      | none => none
      | some l => if l.contains 46 then none else some l

/-- one part of a name in `pack`: `part.encode("idna")` plus the size checks -/
def encPart (I : Idna) (p : Text) : Option Bytes :=
  match encText I p with
  | none => none
  | some l => if l.length = 0 ∨ 64 ≤ l.length then none else some l

def packParts (I : Idna) : List Text → Option Bytes
  | [] => some []
  | p :: ps =>
    match encPart I p, packParts I ps with
    | some l, some r => some (UInt8.ofNat l.length :: l ++ r)
    | _, _ => none

/-- `domain_names.pack` -/
def packName (I : Idna) (name : Text) : Option Bytes :=
  if name = [] then some [0]
  else (packParts I (splitDot name)).map (· ++ [0])

/-! ### label scanning -/

/-- Labels from the start of `s` up to the terminator or the first pointer:
    (raw labels, bytes consumed including terminator/pointer, pointer target). `none` = struct.error. -/
def scanRaw (s : Bytes) : Option (List Bytes × Nat × Option Nat) :=
  match s with
  | [] => none
  | sz :: rest =>
    if 192 ≤ sz.toNat then
      match rest with
      | [] => none
      | lo :: _ => some ([], 2, some ((sz.toNat - 192) * 256 + lo.toNat))
    else if 64 ≤ sz.toNat then none
    else if sz.toNat = 0 then some ([], 1, none)
    else if rest.length < sz.toNat then none
    else
      match scanRaw (rest.drop sz.toNat) with
      | none => none
      | some (ls, n, p) => some (rest.take sz.toNat :: ls, 1 + sz.toNat + n, p)
termination_by s.length
decreasing_by simp [List.length_drop]; omega

/-- uncompressed wire form of a label sequence (without the terminator) -/
def wire (ls : List Bytes) : Bytes := ls.flatMap (fun l => UInt8.ofNat l.length :: l)

/-! ### the measure of the two pointer-chasing loops -/

def countFree (n : Nat) (seen : List Nat) : Nat :=
  ((List.range n).filter (fun k => !seen.contains k)).length

theorem filter_length_lt {α} (p q : α → Bool) (l : List α) (x : α) (hx : x ∈ l) (hq : q x = true)
    (hp : p x = false) (himp : ∀ y, p y = true → q y = true) :
    (l.filter p).length < (l.filter q).length := by
  have hle : ∀ l : List α, (l.filter p).length ≤ (l.filter q).length := by
    intro l; induction l with
    | nil => simp
    | cons b l ih2 =>
      simp only [List.filter_cons]
      cases hpb : p b
      · cases hqb : q b <;> simp <;> omega
      · simp [himp b hpb]; omega
  induction l with
  | nil => cases hx
  | cons a l ih =>
    simp only [List.filter_cons]
    rcases List.mem_cons.mp hx with rfl | hm
    · simp [hq, hp]; have := hle l; omega
    · have := ih hm
      cases hpa : p a
      · cases hqa : q a <;> simp <;> omega
      · simp [himp a hpa]; omega

/-- visiting one more offset inside the buffer strictly decreases the number of unvisited offsets -/
theorem countFree_lt (n k : Nat) (seen : List Nat) (hk : k < n) (hs : seen.contains k = false) :
    countFree n (k :: seen) < countFree n seen := by
  unfold countFree
  apply filter_length_lt _ _ _ k
  · simp [hk]
  · simpa using hs
  · simp
  · intro y hy; simp at hy ⊢; exact hy.2

theorem scanRaw_some_ne_nil {s : Bytes} {r} (h : scanRaw s = some r) : s ≠ [] := by
  intro hs; subst hs; unfold scanRaw at h; cases h

theorem lt_length_of_drop_ne_nil {buf : Bytes} {off : Nat} (h : buf.drop off ≠ []) : off < buf.length := by
  by_cases hlt : off < buf.length
  · exact hlt
  · exact absurd (List.drop_eq_nil_of_le (Nat.le_of_not_lt hlt)) h

/-! ### names with compression: `unpack_from_with_compression` and its cache -/

/-- `cache[offset]`: `none` = being unpacked, `some (name, size)` = finished -/
abbrev Cache := List (Nat × Option (Text × Nat))

def keys (c : Cache) : List Nat := c.map (·.1)

theorem lookup_none_keys {c : Cache} {k : Nat} (h : c.lookup k = none) : (keys c).contains k = false := by
  induction c with
  | nil => simp [keys]
  | cons e c ih =>
    obtain ⟨a, v⟩ := e
    simp only [List.lookup] at h
    by_cases hk : k = a
    · subst hk; simp at h
    · have hne : (k == a) = false := by simpa using hk
      simp only [hne] at h
      have := ih h
      simp only [keys, List.map_cons, List.contains_cons, hne, Bool.false_or] at this ⊢
      exact this

/-- the name text built from the labels read in place and the name the pointer led to -/
def nameOf (labels : List Text) (tail : Text) : Text :=
  joinDot (labels ++ (if tail = [] then [] else [tail]))

def mapLabels (I : Idna) : List Bytes → Option (List Text)
  | [] => some []
  | r :: rs =>
    match decLabel I r, mapLabels I rs with
    | some t, some ts => some (t :: ts)
    | _, _ => none

/-- `unpack_from_with_compression(buffer, offset, cache)`; returns the result and the updated cache.
    A struct.error aborts the whole `DNSMessage.unpack`, so no cache is returned for it. -/
def maxPointerDepth : Nat := 127

def unpackName (I : Idna) (buf : Bytes) (off : Nat) (cache : Cache) (depth : Nat) :
    Option ((Text × Nat) × Cache) :=
  match hc : cache.lookup off with
  | some (some r) => some (r, cache)
  | some none => none                                        -- "domain name loop"
  | none =>
    if maxPointerDepth < depth then none                     -- "too many nested compression pointers"
    else
    match hs : scanRaw (buf.drop off) with
    | none => none
    | some (raws, n, ptr) =>
      match mapLabels I raws with
      | none => none
      | some labels =>
        match ptr with
        | none =>
          let r := (joinDot labels, n)
          some (r, (off, some r) :: (off, none) :: cache)
        | some t =>
          match unpackName I buf t ((off, none) :: cache) (depth + 1) with
          | none => none
          | some ((label, _), c2) =>
            let r := (nameOf labels label, n)
            some (r, (off, some r) :: c2)
termination_by countFree buf.length (keys cache)
decreasing_by
  have h1 : off < buf.length := lt_length_of_drop_ne_nil (scanRaw_some_ne_nil hs)
  have h2 := lookup_none_keys hc
  simpa [keys] using countFree_lt _ _ _ h1 h2

/-! ### record data: `_expand_name`, `_expand_name_field`, `expand_record_data` -/

/-- `_expand_name(buffer, offset)` with its `seen` set -/
def expandName (buf : Bytes) (off : Nat) (seen : List Nat) : Option Bytes :=
  if hseen : seen.contains off = true then none                -- "domain name loop"
  else
    match hs : scanRaw (buf.drop off) with
    | none => none
    | some (raws, _, none) => some (wire raws ++ [0])
    | some (raws, _, some t) =>
      match expandName buf t (off :: seen) with
      | none => none
      | some e => some (wire raws ++ e)
termination_by countFree buf.length seen
decreasing_by
  have h1 : off < buf.length := lt_length_of_drop_ne_nil (scanRaw_some_ne_nil hs)
  have h2 : seen.contains off = false := by simpa using hseen
  exact countFree_lt _ _ _ h1 h2

inductive FieldRes where
  | stop                                   -- no complete name within the record data (Python: None)
  | fail                                   -- a pointer that cannot be resolved (struct.error)
  | done (out : Bytes) (consumed : Nat)
  deriving DecidableEq, Repr

/-- `_expand_name_field`; `rd` is the record data from the current offset to its end, `pos` the absolute
    offset of its first byte -/
def nameField (buf : Bytes) (rd : Bytes) (pos : Nat) : FieldRes :=
  match rd with
  | [] => .stop
  | sz :: rest =>
    if 192 ≤ sz.toNat then
      if rest = [] then .stop
      else match expandName buf pos [] with
        | none => .fail
        | some e => .done e 2
    else if 64 ≤ sz.toNat ∨ rest.length < sz.toNat then .stop
    else if sz.toNat = 0 then .done [0] 1
    else
      match nameField buf (rest.drop sz.toNat) (pos + 1 + sz.toNat) with
      | .stop => .stop
      | .fail => .fail
      | .done out n => .done (sz :: rest.take sz.toNat ++ out) (1 + sz.toNat + n)
termination_by rd.length
decreasing_by simp [List.length_drop]; omega

/-- the trailing loop of `expand_record_data` for data that does not match its layout -/
def heur (buf : Bytes) (rd : Bytes) (pos : Nat) : Bytes :=
  match rd with
  | [] => []
  | c :: rest =>
    if 192 ≤ c.toNat ∧ rest ≠ [] then
      match expandName buf pos [] with
      | some e => e ++ heur buf (rest.drop 1) (pos + 2)
      | none => c :: heur buf rest (pos + 1)
    else c :: heur buf rest (pos + 1)
termination_by rd.length
decreasing_by all_goals (simp [List.length_drop]; try omega)

/-- the `for field in layout` loop of `expand_record_data` followed by its trailing loop -/
def walk (buf : Bytes) : List Field → Bytes → Nat → Option Bytes
  | [], rd, _ => some rd                                        -- `else:` everything after the fields is opaque
  | .name :: fs, rd, pos =>
    match nameField buf rd pos with
    | .stop => some (heur buf rd pos)
    | .fail => none
    | .done e n => (walk buf fs (rd.drop n) (pos + n)).map (e ++ ·)
  | .fixed k :: fs, rd, pos =>
    if rd.length < k then some (heur buf rd pos)
    else (walk buf fs (rd.drop k) (pos + k)).map (rd.take k ++ ·)
  | .cstr :: fs, rd, pos =>
    match rd with
    | [] => some (heur buf rd pos)
    | c :: _ =>
      let k := 1 + c.toNat
      if rd.length < k then some (heur buf rd pos)
      else (walk buf fs (rd.drop k) (pos + k)).map (rd.take k ++ ·)

def layoutOf (ty : Nat) : Option (List Field) := layoutTable.lookup ty

/-- record data of a resource record as `unpack_rrs` computes it (`off`, `len`: position of the RDATA) -/
def rrData (buf : Bytes) (off len ty : Nat) : Option Bytes :=
  let rd := (buf.drop off).take len
  match layoutOf ty with
  | none => some rd
  | some L =>
    match walk buf L rd off with
    | none => none
    | some d => if 65535 < d.length then none else some d

/-! ### messages -/

structure Question where
  name : Text
  type : Nat
  cls : Nat
  deriving DecidableEq, Repr

structure RR where
  name : Text
  type : Nat
  cls : Nat
  ttl : Nat
  data : Bytes
  deriving DecidableEq, Repr

structure Msg where
  id : Nat
  query : Bool
  opCode : Nat
  aa : Bool
  tc : Bool
  rd : Bool
  ra : Bool
  reserved : Nat
  rcode : Nat
  questions : List Question
  answers : List RR
  authorities : List RR
  additionals : List RR
  deriving DecidableEq, Repr

def getU16 (buf : Bytes) (off : Nat) : Option Nat :=
  match buf.drop off with
  | a :: b :: _ => some (a.toNat * 256 + b.toNat)
  | _ => none

def getU32 (buf : Bytes) (off : Nat) : Option Nat :=
  match buf.drop off with
  | a :: b :: c :: d :: _ => some (((a.toNat * 256 + b.toNat) * 256 + c.toNat) * 256 + d.toNat)
  | _ => none

def unpackQuestions (I : Idna) (buf : Bytes) : Nat → Nat → Cache → Option (List Question × Nat × Cache)
  | 0, off, c => some ([], off, c)
  | k + 1, off, c =>
    match unpackName I buf off c 0 with
    | none => none
    | some ((name, n), c1) =>
      match getU16 buf (off + n), getU16 buf (off + n + 2) with
      | some ty, some cl =>
        match unpackQuestions I buf k (off + n + 4) c1 with
        | none => none
        | some (qs, off', c') => some (⟨name, ty, cl⟩ :: qs, off', c')
      | _, _ => none

def unpackRRs (I : Idna) (buf : Bytes) : Nat → Nat → Cache → Option (List RR × Nat × Cache)
  | 0, off, c => some ([], off, c)
  | k + 1, off, c =>
    match unpackName I buf off c 0 with
    | none => none
    | some ((name, n), c1) =>
      let h := off + n
      match getU16 buf h, getU16 buf (h + 2), getU32 buf (h + 4), getU16 buf (h + 8) with
      | some ty, some cl, some ttl, some len =>
        if buf.length < h + 10 + len then none
        else
          match rrData buf (h + 10) len ty with
          | none => none
          | some data =>
            match unpackRRs I buf k (h + 10 + len) c1 with
            | none => none
            | some (rs, off', c') => some (⟨name, ty, cl, ttl, data⟩ :: rs, off', c')
      | _, _, _, _ => none

/-- `DNSMessage.unpack_from(buffer, 0)` -/
def unpackFrom (I : Idna) (buf : Bytes) : Option (Nat × Msg) :=
  match getU16 buf 0, getU16 buf 2, getU16 buf 4, getU16 buf 6, getU16 buf 8, getU16 buf 10 with
  | some id, some flags, some nq, some nan, some nns, some nar =>
    match unpackQuestions I buf nq 12 [] with
    | none => none
    | some (qs, o1, c1) =>
      match unpackRRs I buf nan o1 c1 with
      | none => none
      | some (an, o2, c2) =>
        match unpackRRs I buf nns o2 c2 with
        | none => none
        | some (ns, o3, c3) =>
          match unpackRRs I buf nar o3 c3 with
          | none => none
          | some (ar, o4, _) =>
            some (o4, {
              id := id
              query := flags / 32768 % 2 = 0
              opCode := flags / 2048 % 16
              aa := flags / 1024 % 2 = 1
              tc := flags / 512 % 2 = 1
              rd := flags / 256 % 2 = 1
              ra := flags / 128 % 2 = 1
              reserved := flags / 16 % 8
              rcode := flags % 16
              questions := qs, answers := an, authorities := ns, additionals := ar })
  | _, _, _, _, _, _ => none

/-- `DNSMessage.unpack(buffer)` -/
def unpack (I : Idna) (buf : Bytes) : Option Msg :=
  match unpackFrom I buf with
  | none => none
  | some (n, m) => if n = buf.length then some m else none

def putU16 (n : Nat) : Option Bytes :=
  if n < 65536 then some [UInt8.ofNat (n / 256), UInt8.ofNat (n % 256)] else none

def putU32 (n : Nat) : Option Bytes :=
  if n < 4294967296 then
    some [UInt8.ofNat (n / 16777216), UInt8.ofNat (n / 65536 % 256), UInt8.ofNat (n / 256 % 256), UInt8.ofNat (n % 256)]
  else none

def b2n (b : Bool) : Nat := if b then 1 else 0

def flagsOf (m : Msg) : Nat :=
  (if m.query then 0 else 32768) + m.opCode * 2048 + b2n m.aa * 1024 + b2n m.tc * 512 + b2n m.rd * 256 +
    b2n m.ra * 128 + m.reserved * 16 + m.rcode

def packQuestion (I : Idna) (q : Question) : Option Bytes :=
  match packName I q.name, putU16 q.type, putU16 q.cls with
  | some n, some t, some c => some (n ++ t ++ c)
  | _, _, _ => none

def packRR (I : Idna) (r : RR) : Option Bytes :=
  match packName I r.name, putU16 r.type, putU16 r.cls, putU32 r.ttl, putU16 r.data.length with
  | some n, some t, some c, some l, some dl => some (n ++ t ++ c ++ l ++ dl ++ r.data)
  | _, _, _, _, _ => none

def packList {α} (f : α → Option Bytes) : List α → Option Bytes
  | [] => some []
  | x :: xs =>
    match f x, packList f xs with
    | some a, some b => some (a ++ b)
    | _, _ => none

/-- `DNSMessage.packed`; `none` = ValueError / struct.error -/
def pack (I : Idna) (m : Msg) : Option Bytes :=
  if 65535 < m.id ∨ 15 < m.opCode ∨ 7 < m.reserved ∨ 15 < m.rcode then none
  else
    match putU16 m.id, putU16 (flagsOf m), putU16 m.questions.length, putU16 m.answers.length,
          putU16 m.authorities.length, putU16 m.additionals.length,
          packList (packQuestion I) m.questions,
          packList (packRR I) (m.answers ++ m.authorities ++ m.additionals) with
    | some a, some b, some c, some d, some e, some f, some qs, some rs => some (a ++ b ++ c ++ d ++ e ++ f ++ qs ++ rs)
    | _, _, _, _, _, _, _, _ => none

/-! ### well-formedness predicates used by the theorems (executable, tied to their Python twins) -/

inductive PlainRes where
  | stop
  | ptr
  | done (n : Nat)
  deriving DecidableEq, Repr

/-- walk a name field of record data taken on its own: does it end, stop, or meet a compression pointer? -/
def plainName (rd : Bytes) : PlainRes :=
  match rd with
  | [] => .stop
  | sz :: rest =>
    if 192 ≤ sz.toNat then (if rest = [] then .stop else .ptr)
    else if 64 ≤ sz.toNat ∨ rest.length < sz.toNat then .stop
    else if sz.toNat = 0 then .done 1
    else
      match plainName (rest.drop sz.toNat) with
      | .stop => .stop
      | .ptr => .ptr
      | .done n => .done (1 + sz.toNat + n)
termination_by rd.length
decreasing_by simp [List.length_drop]; omega

/-- no byte that could start a two-byte pointer -/
def heurInert : Bytes → Bool
  | [] => true
  | c :: rest => (decide (c.toNat < 192) || rest.isEmpty) && heurInert rest

/-- record data that `expand_record_data` returns unchanged whatever message it is part of -/
def plainWalk : List Field → Bytes → Bool
  | [], _ => true
  | .name :: fs, rd =>
    match plainName rd with
    | .stop => heurInert rd
    | .ptr => false
    | .done n => plainWalk fs (rd.drop n)
  | .fixed k :: fs, rd => if rd.length < k then heurInert rd else plainWalk fs (rd.drop k)
  | .cstr :: fs, rd =>
    match rd with
    | [] => true
    | c :: _ => if rd.length < 1 + c.toNat then heurInert rd else plainWalk fs (rd.drop (1 + c.toNat))

def rdataPlain (ty : Nat) (data : Bytes) : Bool :=
  match layoutOf ty with
  | none => true
  | some L => plainWalk L data

/-! ### did a record match the layout of its type? (round 5; instrumented decode, tied by driver op `unpackt`) -/

/-- the record data matches the layout: `walk` never reaches its heuristic fallback -/
def layoutMatches (buf : Bytes) : List Field → Bytes → Nat → Bool
  | [], _, _ => true
  | .name :: fs, rd, pos =>
    match nameField buf rd pos with
    | .stop => false
    | .fail => true
    | .done _ n => layoutMatches buf fs (rd.drop n) (pos + n)
  | .fixed k :: fs, rd, pos => if rd.length < k then false else layoutMatches buf fs (rd.drop k) (pos + k)
  | .cstr :: fs, rd, pos =>
    match rd with
    | [] => false
    | c :: _ => if rd.length < 1 + c.toNat then false else layoutMatches buf fs (rd.drop (1 + c.toNat)) (pos + (1 + c.toNat))

def rrMatched (buf : Bytes) (off len ty : Nat) : Bool :=
  match layoutOf ty with
  | none => true
  | some L => layoutMatches buf L ((buf.drop off).take len) off

/-- `unpackRRs` that also reports whether every record matched the layout of its type -/
def unpackRRsT (I : Idna) (buf : Bytes) : Nat → Nat → Cache → Option (List RR × Nat × Cache × Bool)
  | 0, off, c => some ([], off, c, true)
  | k + 1, off, c =>
    match unpackName I buf off c 0 with
    | none => none
    | some ((name, n), c1) =>
      let h := off + n
      match getU16 buf h, getU16 buf (h + 2), getU32 buf (h + 4), getU16 buf (h + 8) with
      | some ty, some cl, some ttl, some len =>
        if buf.length < h + 10 + len then none
        else
          match rrData buf (h + 10) len ty with
          | none => none
          | some data =>
            match unpackRRsT I buf k (h + 10 + len) c1 with
            | none => none
            | some (rs, off', c', ok) => some (⟨name, ty, cl, ttl, data⟩ :: rs, off', c', rrMatched buf (h + 10) len ty && ok)
      | _, _, _, _ => none

/-- `unpack` that also reports whether every record matched the layout of its type -/
def unpackT (I : Idna) (buf : Bytes) : Option (Msg × Bool) :=
  match getU16 buf 0, getU16 buf 2, getU16 buf 4, getU16 buf 6, getU16 buf 8, getU16 buf 10 with
  | some id, some flags, some nq, some nan, some nns, some nar =>
    match unpackQuestions I buf nq 12 [] with
    | none => none
    | some (qs, o1, c1) =>
      match unpackRRsT I buf nan o1 c1 with
      | none => none
      | some (an, o2, c2, k1) =>
        match unpackRRsT I buf nns o2 c2 with
        | none => none
        | some (ns, o3, c3, k2) =>
          match unpackRRsT I buf nar o3 c3 with
          | none => none
          | some (ar, o4, _, k3) =>
            if o4 = buf.length then
              some ({
                id := id
                query := flags / 32768 % 2 = 0
                opCode := flags / 2048 % 16
                aa := flags / 1024 % 2 = 1
                tc := flags / 512 % 2 = 1
                rd := flags / 256 % 2 = 1
                ra := flags / 128 % 2 = 1
                reserved := flags / 16 % 8
                rcode := flags % 16
                questions := qs, answers := an, authorities := ns, additionals := ar }, k1 && k2 && k3)
            else none
  | _, _, _, _, _, _ => none

/-! ### codec-free well-formedness (round 3; executable, tied to its Python twin by driver op `wfascii`) -/

/-- a host-name style label: 1..63 ASCII bytes, no dot, no ACE prefix `xn--` anywhere. For such a label the model
    never consults the `Idna` parameter: both directions are the codec's transcribed ASCII fast path. -/
def asciiPart (p : Text) : Bool :=
  !p.isEmpty && decide (p.length < 64) && isAscii p && !hasAce p && !p.contains 46

/-- a name all of whose labels are `asciiPart` (or the root name) -/
def asciiName (t : Text) : Bool := t.isEmpty || (splitDot t).all asciiPart

/-- well-formedness that does not mention the idna codec at all (decidable by computation) -/
def wellFormedAscii (m : Msg) : Bool :=
  decide (m.id < 65536) && decide (m.opCode < 16) && decide (m.reserved < 8) && decide (m.rcode < 16) &&
  decide (m.questions.length < 65536) && decide (m.answers.length < 65536) && decide (m.authorities.length < 65536) &&
  decide (m.additionals.length < 65536) &&
  m.questions.all (fun q => asciiName q.name && decide (q.type < 65536) && decide (q.cls < 65536)) &&
  (m.answers ++ m.authorities ++ m.additionals).all (fun r => asciiName r.name && decide (r.type < 65536) && decide (r.cls < 65536) &&
    decide (r.ttl < 4294967296) && decide (r.data.length < 65536) && rdataPlain r.type r.data)

/-! ### concrete `Idna` used by the driver: a finite table recorded from the real codec -/

def tableIdna (dt : List (Bytes × Option Text)) (et : List (Text × Option Bytes)) (dflt : Option Bytes) : Idna where
  dec raw := match dt.lookup raw with | some r => r | none => dflt
  enc t := match et.lookup t with | some r => r | none => dflt

/-- an `Idna` that knows nothing (used for non-vacuity examples on pure ASCII names) -/
def noIdna : Idna := tableIdna [] [] none

end MitmVerif.C25
