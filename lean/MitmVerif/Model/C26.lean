/-
  C26 — forwarded DNS messages keep their meaning.
  * `DnsRef`: the *specification* decoder, written independently of the codec model: RFC 1035 names with
    backward-only compression pointers, RDATA canonicalised by the RFC layout of the record type (its own table,
    not the one generated from the code), everything else byte for byte.
  * `forwardUdp` / `forwardTcp`: what `DNSLayer` does with a message no addon modifies
    (`unpack_message` → hook → `pack_message`), on top of the C25 codec model.
-/
import MitmVerif.Model.C25
set_option linter.unusedVariables false
namespace MitmVerif.C26
open MitmVerif MitmVerif.C25

namespace DnsRef

/-- RFC layouts (RFC 1035 §3.3, RFC 1183, RFC 2163, RFC 2535, RFC 2782, RFC 3403); the rest of the RDATA is opaque -/
def layout (ty : Nat) : Option (List Field) :=
  if ty = 2 ∨ ty = 3 ∨ ty = 4 ∨ ty = 5 ∨ ty = 7 ∨ ty = 8 ∨ ty = 9 ∨ ty = 12 ∨ ty = 30 then some [.name]  -- NS MD MF CNAME MB MG MR PTR NXT
  else if ty = 6 ∨ ty = 14 ∨ ty = 17 then some [.name, .name]                                           -- SOA MINFO RP
  else if ty = 15 ∨ ty = 18 ∨ ty = 21 then some [.fixed 2, .name]                                       -- MX AFSDB RT
  else if ty = 26 then some [.fixed 2, .name, .name]                                                    -- PX
  else if ty = 33 then some [.fixed 6, .name]                                                           -- SRV
  else if ty = 24 then some [.fixed 18, .name]                                                          -- SIG
  else if ty = 35 then some [.fixed 4, .cstr, .cstr, .cstr, .name]                                      -- NAPTR
  else none

/-- labels of the name at `off`; a pointer must point before the start of the name that contains it.
    `fuel` bounds the number of pointer hops; `off` hops always suffice because targets strictly decrease. -/
def nameF : Nat → Bytes → Nat → Option (List Bytes × Nat)
  | fuel, buf, off =>
    match scanRaw (buf.drop off) with
    | none => none
    | some (ls, n, none) => some (ls, n)
    | some (ls, n, some t) =>
      if t < off then
        match fuel with
        | 0 => none
        | f + 1 =>
          match nameF f buf t with
          | none => none
          | some (ls2, _) => some (ls ++ ls2, n)
      else none

def name (buf : Bytes) (off : Nat) : Option (List Bytes × Nat) := nameF off buf off

/-- canonical RDATA: fields by the layout, names uncompressed; `rem` = bytes left in the RDATA -/
def rdataF (buf : Bytes) : List Field → Nat → Nat → Option Bytes
  | [], pos, rem => some ((buf.drop pos).take rem)
  | .name :: fs, pos, rem =>
    match name buf pos with
    | none => none
    | some (ls, n) =>
      if rem < n then none
      else (rdataF buf fs (pos + n) (rem - n)).map (wire ls ++ [0] ++ ·)
  | .fixed k :: fs, pos, rem =>
    if rem < k then none
    else (rdataF buf fs (pos + k) (rem - k)).map ((buf.drop pos).take k ++ ·)
  | .cstr :: fs, pos, rem =>
    match buf.drop pos with
    | [] => none
    | c :: _ =>
      let k := 1 + c.toNat
      if rem < k then none
      else (rdataF buf fs (pos + k) (rem - k)).map ((buf.drop pos).take k ++ ·)

def rdata (buf : Bytes) (pos len ty : Nat) : Option Bytes :=
  match layout ty with
  | none => some ((buf.drop pos).take len)
  | some L => rdataF buf L pos len

structure RQ where
  labels : List Bytes
  type : Nat
  cls : Nat
  deriving DecidableEq, Repr

structure RRec where
  labels : List Bytes
  type : Nat
  cls : Nat
  ttl : Nat
  rdata : Bytes
  deriving DecidableEq, Repr

structure RMsg where
  id : Nat
  flags : Nat
  questions : List RQ
  answers : List RRec
  authorities : List RRec
  additionals : List RRec
  deriving DecidableEq, Repr

def questions (buf : Bytes) : Nat → Nat → Option (List RQ × Nat)
  | 0, pos => some ([], pos)
  | k + 1, pos =>
    match name buf pos with
    | none => none
    | some (ls, n) =>
      match getU16 buf (pos + n), getU16 buf (pos + n + 2) with
      | some t, some c =>
        match questions buf k (pos + n + 4) with
        | none => none
        | some (qs, p) => some (⟨ls, t, c⟩ :: qs, p)
      | _, _ => none

def records (buf : Bytes) : Nat → Nat → Option (List RRec × Nat)
  | 0, pos => some ([], pos)
  | k + 1, pos =>
    match name buf pos with
    | none => none
    | some (ls, n) =>
      let h := pos + n
      match getU16 buf h, getU16 buf (h + 2), getU32 buf (h + 4), getU16 buf (h + 8) with
      | some t, some c, some ttl, some len =>
        if buf.length < h + 10 + len then none
        else
          match rdata buf (h + 10) len t with
          | none => none
          | some d =>
            match records buf k (h + 10 + len) with
            | none => none
            | some (rs, p) => some (⟨ls, t, c, ttl, d⟩ :: rs, p)
      | _, _, _, _ => none

/-- the specification decoder: `none` = not a well-formed message -/
def decode (buf : Bytes) : Option RMsg :=
  match getU16 buf 0, getU16 buf 2, getU16 buf 4, getU16 buf 6, getU16 buf 8, getU16 buf 10 with
  | some id, some flags, some nq, some nan, some nns, some nar =>
    match questions buf nq 12 with
    | none => none
    | some (qs, p1) =>
      match records buf nan p1 with
      | none => none
      | some (an, p2) =>
        match records buf nns p2 with
        | none => none
        | some (ns, p3) =>
          match records buf nar p3 with
          | none => none
          | some (ar, p4) => if p4 = buf.length then some ⟨id, flags, qs, an, ns, ar⟩ else none
  | _, _, _, _, _, _ => none

end DnsRef

/-! ### a reference compressing encoder for names (RFC 1035 §4.1.4), the twin of the harness's `Compressor.name` -/

/-- the two bytes of a compression pointer to offset `t`: `struct.pack("!H", 0xC000 | t)` -/
def ptrBytes (t : Nat) : Bytes := [UInt8.ofNat (192 ||| (t / 256)), UInt8.ofNat (t % 256)]

/-- suffixes already written and where: the first registration of a suffix wins -/
abbrev CTable := List (List Bytes × Nat)

/-- write the name `ls` at message offset `pos`: label by label; a suffix that is in the table becomes a pointer; every
    suffix written at an offset below 0x4000 is registered -/
def cname (tbl : CTable) (pos : Nat) : List Bytes → Bytes × CTable
  | [] => ([0], tbl)
  | l :: ls =>
    match tbl.lookup (l :: ls) with
    | some t => (ptrBytes t, tbl)
    | none =>
      let tbl1 := if pos < 16384 then tbl ++ [(l :: ls, pos)] else tbl
      let r := cname tbl1 (pos + 1 + l.length) ls
      (UInt8.ofNat l.length :: l ++ r.1, r.2)

/-- a sequence of names written one after the other from offset `pos` -/
def cnames (tbl : CTable) (pos : Nat) : List (List Bytes) → Bytes
  | [] => []
  | n :: ns => let r := cname tbl pos n; r.1 ++ cnames r.2 (pos + r.1.length) ns

/-! ### the layer: a message that no addon modifies -/

/-- what `state_query` does with one `DataReceived` whose messages no addon modifies (and, for replies, that answer a
    pending query of the client): the SendData payloads in order, and whether it then logged a parse error and closed -/
inductive Fwd where
  | crashed                                      -- pack_message raised: the exception leaves the layer
  | done (out : List Bytes) (closed : Bool)
  deriving DecidableEq, Repr

/-- UDP: one datagram is one message -/
def forwardUdp (I : Idna) (data : Bytes) : Fwd :=
  match unpack I data with
  | none => .done [] true
  | some m =>
    match pack I m with
    | none => .crashed
    | some b => .done [b] false

def frame (b : Bytes) : Bytes := UInt8.ofNat (b.length / 256) :: UInt8.ofNat (b.length % 256) :: b

/-- the framing loop of `_unpack_messages` on a TCP segment that arrives on an empty buffer:
    the complete frames in front of the first zero-length frame, and whether there was one -/
def tcpFrames : Nat → Bytes → List Bytes × Bool
  | 0, _ => ([], false)
  | fuel + 1, s =>
    match s with
    | a :: b :: rest =>
      let n := a.toNat * 256 + b.toNat
      if n = 0 then ([], true)
      else if rest.length < n then ([], false)
      else
        let r := tcpFrames fuel (rest.drop n)
        (rest.take n :: r.1, r.2)
    | _ => ([], false)

/-- the messages in front of the first frame that does not parse, and whether there was one
    (`_unpack_messages` stops at it; the messages in front of it are still handled) -/
def unpackAll (I : Idna) : List Bytes → List Msg × Bool
  | [] => ([], false)
  | b :: bs =>
    match unpack I b with
    | none => ([], true)
    | some m => let r := unpackAll I bs; (m :: r.1, r.2)

def mapM' {α β} (f : α → Option β) : List α → Option (List β)
  | [] => some []
  | x :: xs => match f x, mapM' f xs with | some y, some ys => some (y :: ys) | _, _ => none

/-- `pack_message(message, "tcp")` given the packed message: `struct.pack("!H", len(packed)) + packed`;
    `none` = struct.error, the length does not fit the 16-bit prefix (nothing in layers/dns.py catches it: finding F-C26b) -/
def frameC (b : Bytes) : Option Bytes := if b.length < 65536 then some (frame b) else none

/-- the re-encodings `state_query` is about to send for one TCP segment (before the length prefix is put in front) -/
def reencodings (I : Idna) (data : Bytes) : Option (List Bytes) :=
  mapM' (pack I) (unpackAll I (tcpFrames data.length data).1).1

def forwardTcp (I : Idna) (data : Bytes) : Fwd :=
  let fr := tcpFrames data.length data
  let ms := unpackAll I fr.1
  match mapM' (pack I) ms.1 with
  | none => .crashed
  | some outs =>
    match mapM' frameC outs with
    | none => .crashed                       -- a re-encoded message is longer than 65535 bytes: struct.error leaves the layer
    | some fs => .done fs (fr.2 || ms.2)

end MitmVerif.C26
