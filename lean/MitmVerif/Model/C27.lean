/-
  C27 — DNS replies correspond to client queries; TCP framing ignores segmentation.
  Model of `mitmproxy/proxy/layers/dns.py` `DNSLayer` (after the /repo fix commits be51bf886, b401f459b, a9b0ebfcc,
  33c1efd6e) on top of the C25 codec model:

  * `parse`          — `_unpack_messages` for TCP: 2-byte length framing over `req_buf`/`resp_buf`; zero length or an
                       undecodable frame ends parsing *after* the messages in front of it have been returned
  * `handleRequest` / `handleResponse` / `handleError` — the three handlers incl. hooks, `OpenConnection`,
                       `DNSMessage.fail(SERVFAIL)` and `pack_message`
  * `step`           — `state_query` / `state_done` for the four events of a connection pair
  * the environment (what addons do in the hooks, whether `OpenConnection` succeeds) is a script in the state that is
    consumed one entry per hook / connect attempt; the theorems quantify over all scripts.

  Events are handled strictly one after the other: every command of the layer that waits (hooks, OpenConnection)
  blocks the layer, and `Layer.handle_event` queues events that arrive meanwhile.
-/
import MitmVerif.Model.C25
import MitmVerif.Basic.Seg
set_option linter.unusedVariables false
namespace MitmVerif.C27
open MitmVerif MitmVerif.C25

/-- `DNSMessage.fail(response_code)` -/
def fail (m : Msg) (rcode : Nat) : Msg :=
  { id := m.id, query := false, opCode := m.opCode, aa := false, tc := false, rd := m.rd, ra := false,
    reserved := 0, rcode := rcode, questions := m.questions, answers := [], authorities := [], additionals := [] }

/-- `response_codes.SERVFAIL` -/
def SERVFAIL : Nat := 2

def servfail (m : Msg) : Msg := fail m SERVFAIL

/-- `struct.pack("!H", len(packed)) + packed` -/
def frame (b : Bytes) : Bytes := UInt8.ofNat (b.length / 256) :: UInt8.ofNat (b.length % 256) :: b

/-- `pack_message(message, transport_protocol)` given the packed message -/
def wireOf (tcp : Bool) (b : Bytes) : Bytes := if tcp then frame b else b

/-! ### TCP framing (`_unpack_messages`, tcp branch) -/

/-- all complete frames of `buf`: (messages, remaining buffer, parsing ended with an error).
    After an error the connection is closed and the buffer is never looked at again; the model leaves it empty. -/
def parse (I : Idna) (buf : Bytes) : List Msg × Bytes × Bool :=
  match buf with
  | a :: b :: rest =>
    if a.toNat * 256 + b.toNat = 0 then ([], [], true)
    else if rest.length < a.toNat * 256 + b.toNat then ([], buf, false)
    else
      match unpack I (rest.take (a.toNat * 256 + b.toNat)) with
      | none => ([], [], true)
      | some m =>
        let r := parse I (rest.drop (a.toNat * 256 + b.toNat))
        (m :: r.1, r.2.1, r.2.2)
  | _ => ([], buf, false)
termination_by buf.length
decreasing_by simp only [List.length_drop, List.length_cons]; omega

/-- `_unpack_messages`: a UDP datagram is one message; TCP data extends the buffer of its direction -/
def extract (I : Idna) (tcp : Bool) (buf data : Bytes) : List Msg × Bytes × Bool :=
  if tcp then parse I (buf ++ data)
  else match unpack I data with
    | none => ([], buf, true)
    | some m => ([m], buf, false)

/-! ### flows, environment, observable output -/

/-- the part of a `DNSFlow` the layer reads -/
structure Flow where
  request : Option Msg := none
  response : Option Msg := none
  error : Bool := false
  deriving DecidableEq, Repr

/-- what an addon does with the flow inside a hook -/
inductive Act where
  | pass
  | respond (m : Msg)      -- flow.response = m
  | clear                  -- flow.response = None
  | err                    -- flow.error = Error(...)
  deriving DecidableEq, Repr

def applyAct : Act → Flow → Flow
  | .pass, f => f
  | .respond m, f => { f with response := some m }
  | .clear, f => { f with response := none }
  | .err, f => { f with error := true }

inductive Hook where
  | request | response | error
  deriving DecidableEq, Repr

/-- result of `OpenConnection(server)`: `killed` = the server object already carries the error of a failed attempt
    (`proxy/server.py` `open_connection`: "killed before connect") -/
inductive OpenRes where
  | ok | fail | killed
  deriving DecidableEq, Repr

inductive Out where
  | hook (h : Hook) (f : Flow)            -- the flow as the addons see it when the hook fires
  | opened (r : OpenRes)                  -- OpenConnection(server) and its result
  | toServer (m : Msg) (wire : Bytes)     -- SendData(server, …)
  | toClient (m : Msg) (wire : Bytes)     -- SendData(client, …)
  | closeClient
  | closeServer
  | crash                                 -- an exception leaves the layer
  deriving DecidableEq, Repr

inductive Phase where
  | query | done | crashed
  deriving DecidableEq, Repr

/-- everything the handlers read and write -/
structure Core where
  phase : Phase := .query
  flows : List (Nat × Flow) := []         -- `DNSLayer.flows`: lookup finds the newest entry of an id
  serverOpen : Bool := false              -- `context.server.connected`
  serverFailed : Bool := false            -- `context.server.error` is set: a connect attempt has failed
  acts : List Act := []                   -- environment: one entry per hook, `pass` when exhausted
  conns : List Bool := []                 -- environment: one entry per OpenConnection, success when exhausted
  seen : List Msg := []                   -- ghost: every query of the client that was handled (never read)
  deriving Repr

structure State where
  core : Core := {}
  reqBuf : Bytes := []                    -- `DNSLayer.req_buf`
  respBuf : Bytes := []                   -- `DNSLayer.resp_buf`
  deriving Repr

/-- static configuration of one connection -/
structure Cfg where
  I : Idna
  tcp : Bool                              -- `context.client.transport_protocol` (the server uses the same)
  upstream : Bool                         -- `context.server.address` is set

def popAct (σ : Core) : Act × Core :=
  match σ.acts with
  | [] => (.pass, σ)
  | a :: r => (a, { σ with acts := r })

def popConn (σ : Core) : Bool × Core :=
  match σ.conns with
  | [] => (true, σ)
  | c :: r => (c, { σ with conns := r })

def setFlow (σ : Core) (k : Nat) (f : Flow) : Core := { σ with flows := (k, f) :: σ.flows }

def crashed (σ : Core) : Core := { σ with phase := .crashed }

/-- `pack_message(message, transport_protocol)` with its error outcome: over TCP `struct.pack("!H", len(packed))` raises
    struct.error when the packed message is longer than 65535 bytes (`none`); `wireOf`/`frame` alone would silently wrap -/
def wireOf? (tcp : Bool) (b : Bytes) : Option Bytes :=
  if tcp = true ∧ 65536 ≤ b.length then none else some (wireOf tcp b)

/-- `SendData(client, pack_message(m, …))`; `packed` or `struct.pack` raising leaves the layer -/
def sendClient (c : Cfg) (σ : Core) (m : Msg) : Core × List Out :=
  match pack c.I m with
  | none => (crashed σ, [.crash])
  | some b =>
    match wireOf? c.tcp b with
    | none => (crashed σ, [.crash])
    | some w => (σ, [.toClient m w])

def sendServer (c : Cfg) (σ : Core) (m : Msg) : Core × List Out :=
  match pack c.I m with
  | none => (crashed σ, [.crash])
  | some b =>
    match wireOf? c.tcp b with
    | none => (crashed σ, [.crash])
    | some w => (σ, [.toServer m w])

/-- `handle_response(flow, msg)` for the flow stored under `k` -/
def handleResponse (c : Cfg) (σ : Core) (k : Nat) (f : Flow) (m : Msg) : Core × List Out :=
  let f1 := { f with response := some m }
  let f2 := applyAct (popAct σ).1 f1
  let σ2 := setFlow (popAct σ).2 k f2
  match f2.response with
  | none => (σ2, [.hook .response f1])
  | some r => ((sendClient c σ2 r).1, .hook .response f1 :: (sendClient c σ2 r).2)

/-- `handle_error(flow, err)` -/
def handleError (c : Cfg) (σ : Core) (k : Nat) (f : Flow) : Core × List Out :=
  let f1 := { f with error := true }
  let f2 := applyAct (popAct σ).1 f1
  let σ2 := setFlow (popAct σ).2 k f2
  match f2.request with
  | none => (crashed σ2, [.hook .error f1, .crash])        -- `flow.request.fail`: AttributeError
  | some q => ((sendClient c σ2 (servfail q)).1, .hook .error f1 :: (sendClient c σ2 (servfail q)).2)

/-- `handle_request(flow, msg)` -/
def handleRequest (c : Cfg) (σ : Core) (k : Nat) (f : Flow) (q : Msg) : Core × List Out :=
  let f1 := { f with request := some q }
  let f2 := applyAct (popAct σ).1 f1
  let σ2 := setFlow (popAct σ).2 k f2
  let h := Out.hook .request f1
  match f2.response with
  | some r => ((handleResponse c σ2 k f2 r).1, h :: (handleResponse c σ2 k f2 r).2)
  | none =>
    if f2.error ∨ ¬ c.upstream then ((handleError c σ2 k f2).1, h :: (handleError c σ2 k f2).2)
    else if σ2.serverOpen then ((sendServer c σ2 q).1, h :: (sendServer c σ2 q).2)
    else if σ2.serverFailed then ((handleError c σ2 k f2).1, h :: .opened .killed :: (handleError c σ2 k f2).2)
    else if (popConn σ2).1 then
      let σ3 := { (popConn σ2).2 with serverOpen := true }
      ((sendServer c σ3 q).1, h :: .opened .ok :: (sendServer c σ3 q).2)
    else
      let σ3 := { (popConn σ2).2 with serverFailed := true }
      ((handleError c σ3 k f2).1, h :: .opened .fail :: (handleError c σ3 k f2).2)

/-- the flow a query of the client is attached to: a pending flow with its id is reused, an answered one replaced -/
def flowFor (σ : Core) (id : Nat) : Flow :=
  match σ.flows.lookup id with
  | some f => if f.response.isSome ∨ f.error then {} else f
  | none => {}

/-- one message from the client -/
def clientMsg (c : Cfg) (σ : Core) (q : Msg) : Core × List Out :=
  handleRequest c { σ with seen := q :: σ.seen } q.id (flowFor σ q.id) q

/-- one message from the server: only a reply to a pending query (same id, same question section) is handled -/
def serverMsg (c : Cfg) (σ : Core) (m : Msg) : Core × List Out :=
  match σ.flows.lookup m.id with
  | none => (σ, [])
  | some f =>
    match f.request with
    | none => (crashed σ, [.crash])                         -- `flow.request.questions`: AttributeError
    | some q => if m.questions = q.questions then handleResponse c σ m.id f m else (σ, [])

/-- the `for msg in msgs` loop; an exception ends it -/
def handleMsgs (c : Cfg) (fromClient : Bool) : Core → List Msg → Core × List Out
  | σ, [] => (σ, [])
  | σ, m :: ms =>
    if σ.phase = .crashed then (σ, [])
    else
      let r1 := if fromClient then clientMsg c σ m else serverMsg c σ m
      let r2 := handleMsgs c fromClient r1.1 ms
      (r2.1, r1.2 ++ r2.2)

inductive Ev where
  | clientData (d : Bytes)
  | serverData (d : Bytes)
  | clientClose
  | serverClose
  deriving DecidableEq, Repr

/-- the layer is done (or broken): no buffer is looked at again -/
def ended (σ : Core) : State := { core := σ }

/-- `state_query` for `DataReceived(client, d)` -/
def stepClient (c : Cfg) (σ : State) (d : Bytes) : State × List Out :=
  let x := extract c.I c.tcp σ.reqBuf d
  let r := handleMsgs c true σ.core x.1
  if r.1.phase = .crashed then (ended r.1, r.2)
  else if x.2.2 then (ended { r.1 with phase := .done }, r.2 ++ [.closeClient])
  else ({ σ with core := r.1, reqBuf := x.2.1 }, r.2)

/-- `state_query` for `DataReceived(server, d)` -/
def stepServer (c : Cfg) (σ : State) (d : Bytes) : State × List Out :=
  let x := extract c.I c.tcp σ.respBuf d
  let r := handleMsgs c false σ.core x.1
  if r.1.phase = .crashed then (ended r.1, r.2)
  else if x.2.2 then (ended { r.1 with phase := .done, serverOpen := false }, r.2 ++ [.closeServer])
  else ({ σ with core := r.1, respBuf := x.2.1 }, r.2)

/-- `_handle_event`: `state_query` while the phase is `query`, `state_done` afterwards.  Events of a server
    connection that is not open do not exist. -/
def step (c : Cfg) (σ : State) (ev : Ev) : State × List Out :=
  if σ.core.phase ≠ .query then (σ, [])
  else
    match ev with
    | .clientData d => stepClient c σ d
    | .serverData d => if σ.core.serverOpen then stepServer c σ d else (σ, [])
    | .clientClose => (ended { σ.core with phase := .done }, if σ.core.serverOpen then [.closeServer] else [])
    | .serverClose =>
      if σ.core.serverOpen then (ended { σ.core with phase := .done, serverOpen := false }, [.closeClient]) else (σ, [])

def run (c : Cfg) : State → List Ev → State × List Out
  | σ, [] => (σ, [])
  | σ, ev :: evs =>
    let r1 := step c σ ev
    let r2 := run c r1.1 evs
    (r2.1, r1.2 ++ r2.2)

/-- a fresh layer with the given environment script -/
def init (acts : List Act) (conns : List Bool) : State := { core := { acts := acts, conns := conns } }

end MitmVerif.C27
