/-
  C27 — `mitmproxy/proxy/layer.py` `Layer.handle_event` / `__process` / `__continue`: the pause-and-queue mechanism that makes
  a layer handle its events one after the other although hooks complete asynchronously.

  A handler (`_handle_event`, a generator) yields commands; a blocking command (a hook) suspends it (`self._paused`), events
  that arrive meanwhile are appended to `self._paused_event_queue`; the reply resumes the generator, and once it has finished
  the queued events are handled in order — until one of them blocks again.

  The generator of the DNS layer is represented by what it will emit: the output of `step`, cut after every hook (`chunks`);
  this is faithful because the suspended handler is the only code that touches the layer's state (`handle_event` does nothing
  but append to the queue while paused) and the replies it will see are the environment scripts held in the state.
-/
import MitmVerif.Model.C27
set_option linter.unusedVariables false
namespace MitmVerif.C27
open MitmVerif

def isHook : Out → Bool
  | .hook _ _ => true
  | _ => false

/-- the commands of a handler, cut after every blocking command: first what it yields up to and including its first hook,
    …, last what it yields after its last hook has completed (possibly nothing) -/
def chunks : List Out → List (List Out)
  | [] => [[]]
  | o :: rest =>
    match chunks rest with
    | [] => [[o]]
    | ch :: cs => if isHook o then [o] :: ch :: cs else (o :: ch) :: cs

/-- `Layer`: the DNS layer's own state, the suspended generator (`_paused`: what it will still emit, one chunk per reply it
    waits for), and `_paused_event_queue` -/
structure AState where
  σ : State := {}
  paused : Option (List (List Out)) := none
  queue : List Ev := []

/-- `command_generator = self._handle_event(event)` + `__process`: run the handler up to its first blocking command -/
def startEv (c : Cfg) (a : AState) (ev : Ev) : AState × List Out :=
  match chunks (step c a.σ ev).2 with
  | [] => ({ a with σ := (step c a.σ ev).1, paused := none }, [])
  | [ch] => ({ a with σ := (step c a.σ ev).1, paused := none }, ch)
  | ch :: rest => ({ a with σ := (step c a.σ ev).1, paused := some rest }, ch)

/-- `while not self._paused and self._paused_event_queue:` of `__continue` -/
def drain (c : Cfg) : List Ev → AState → AState × List Out
  | [], a => ({ a with queue := [] }, [])
  | ev :: q, a =>
    if a.paused.isSome then ({ a with queue := ev :: q }, [])
    else
      let r1 := startEv c a ev
      let r2 := drain c q r1.1
      (r2.1, r1.2 ++ r2.2)

inductive AEv where
  | arrive (ev : Ev)       -- `handle_event(event)` for a connection event
  | complete               -- `handle_event(CommandCompleted)` for the command the layer is paused on
  deriving Repr

/-- `Layer.handle_event` -/
def astep (c : Cfg) (a : AState) : AEv → AState × List Out
  | .arrive ev =>
    match a.paused with
    | some _ => ({ a with queue := a.queue ++ [ev] }, [])
    | none => startEv c a ev
  | .complete =>
    match a.paused with
    | none => (a, [])
    | some [] => drain c a.queue { a with paused := none }
    | some [ch] => ((drain c a.queue { a with paused := none }).1, ch ++ (drain c a.queue { a with paused := none }).2)
    | some (ch :: rest) => ({ a with paused := some rest }, ch)

def arun (c : Cfg) : AState → List AEv → AState × List Out
  | a, [] => (a, [])
  | a, e :: es =>
    let r1 := astep c a e
    let r2 := arun c r1.1 es
    (r2.1, r1.2 ++ r2.2)

/-- the connection events of a schedule, in order of arrival -/
def arrivals : List AEv → List Ev
  | [] => []
  | .arrive ev :: es => ev :: arrivals es
  | .complete :: es => arrivals es

/-- what the layer still owes: the rest of the suspended handler, then the queued events handled one after the other -/
def owed (c : Cfg) (a : AState) : List Out := (a.paused.getD []).flatten ++ (run c a.σ a.queue).2

/-- the state the layer will be in once everything owed has happened -/
def settled (c : Cfg) (a : AState) : State := (run c a.σ a.queue).1

end MitmVerif.C27
