/-
  C28 — WebSocket messages are relayed exactly once with their exact content.
  Model of `mitmproxy/proxy/layers/websocket.py` (after the two `fix:` commits):

  * `san`          : `bytes.decode("utf-8", errors="replace").encode()` — what `Fragmentizer.msg`
                     + wsproto put on the wire for a text fragment (byte-at-a-time UTF-8 automaton,
                     maximal-subpart replacement by U+FFFD exactly like CPython).
  * `fragmentize`  : `Fragmentizer.__call__` + `Fragmentizer.cut` (reuse of the original fragment
                     lengths iff the total length is unchanged, else FRAGMENT_SIZE chunks; text cuts
                     are moved back to a character boundary).
  * `step`         : `WebsocketLayer.relay_messages` at the level of wsproto events: `frame_buf`
                     accumulation, message hook with the addon's keep/edit/drop decision, injection
                     through a separate buffer, ping/pong relay, close bookkeeping and the
                     wsproto connection states that decide where a close frame is sent.
  wsproto itself (frame codec, permessage-deflate, incremental UTF-8 decoding of received text)
  is a parameter: the model consumes the events wsproto yields and produces the events handed
  to `wsproto.Connection.send`.
-/
import MitmVerif.Basic.Bytes
import MitmVerif.Gen.C28
namespace MitmVerif.C28

/-! ### UTF-8 "decode with errors=replace, encode again" -/

/-- `b & 0xC0 == 0x80` -/
def isCont (b : UInt8) : Bool := decide (0x80 ≤ b.toNat) && decide (b.toNat ≤ 0xBF)

/-- total length of the sequence introduced by lead byte `b0`; 0 = not a lead byte -/
def seqLen (b0 : UInt8) : Nat :=
  let n := b0.toNat
  if n < 0x80 then 1
  else if 0xC2 ≤ n ∧ n ≤ 0xDF then 2
  else if 0xE0 ≤ n ∧ n ≤ 0xEF then 3
  else if 0xF0 ≤ n ∧ n ≤ 0xF4 then 4
  else 0

/-- range of the second byte (Unicode table 3-7) -/
def secondOk (b0 x : UInt8) : Bool :=
  let n := x.toNat
  if b0 = 0xE0 then decide (0xA0 ≤ n) && decide (n ≤ 0xBF)
  else if b0 = 0xED then decide (0x80 ≤ n) && decide (n ≤ 0x9F)
  else if b0 = 0xF0 then decide (0x90 ≤ n) && decide (n ≤ 0xBF)
  else if b0 = 0xF4 then decide (0x80 ≤ n) && decide (n ≤ 0x8F)
  else decide (0x80 ≤ n) && decide (n ≤ 0xBF)

/-- does `x` continue the pending (incomplete, so far well-formed) sequence? -/
def accepts (pend : Bytes) (x : UInt8) : Bool :=
  match pend with
  | [] => false
  | [b0] => secondOk b0 x
  | _ => isCont x

def FFFD : Bytes := [0xEF, 0xBF, 0xBD]

/-- a byte seen with nothing pending: (output, pending) -/
def start (x : UInt8) : Bytes × Bytes :=
  if seqLen x = 1 then ([x], [])
  else if seqLen x = 0 then (FFFD, [])
  else ([], [x])

def stepB (pend : Bytes) (x : UInt8) : Bytes × Bytes :=
  match pend with
  | [] => start x
  | b0 :: _ =>
    if accepts pend x then
      (if pend.length + 1 = seqLen b0 then (pend ++ [x], []) else ([], pend ++ [x]))
    else (FFFD ++ (start x).1, (start x).2)

/-- end of input with an incomplete sequence pending: one replacement character -/
def flush (pend : Bytes) : Bytes := if pend.isEmpty then [] else FFFD

def go (pend : Bytes) : Bytes → Bytes
  | [] => flush pend
  | x :: xs => (stepB pend x).1 ++ go (stepB pend x).2 xs

/-- `data.decode(errors="replace").encode()` -/
def san (b : Bytes) : Bytes := go [] b

/-! ### the strict incremental decoder wsproto runs over received text frames
    (`codecs.getincrementaldecoder("utf-8")().decode(payload, final)` in `MessageDecoder.process_frame`) -/

/-- one byte, strict: `none` = UnicodeDecodeError -/
def stepS (pend : Bytes) (x : UInt8) : Option (Bytes × Bytes) :=
  match pend with
  | [] => if seqLen x = 1 then some ([x], []) else if seqLen x = 0 then none else some ([], [x])
  | b0 :: _ =>
    if accepts pend x then
      (if pend.length + 1 = seqLen b0 then some (pend ++ [x], []) else some ([], pend ++ [x]))
    else none

/-- (decoded bytes, bytes held back for the next call) -/
def goS (pend : Bytes) : Bytes → Option (Bytes × Bytes)
  | [] => some ([], pend)
  | x :: xs =>
    match stepS pend x with
    | none => none
    | some r => (goS r.2 xs).map (fun r2 => (r.1 ++ r2.1, r2.2))

/-- `decoder.decode(chunk, final)`: with `final` an incomplete character at the end is an error -/
def incDecode (pend chunk : Bytes) (final : Bool) : Option (Bytes × Bytes) :=
  match goS pend chunk with
  | none => none
  | some r => if final && !r.2.isEmpty then none else some r

/-- the frames of one text message through the decoder: data of each event, `none` = ParseFailed(1007) -/
def decodeChunks (pend : Bytes) : List Bytes → Option (List Bytes × Bytes)
  | [] => some ([], pend)
  | [c] => (incDecode pend c true).map (fun r => ([r.1], r.2))
  | c :: rest =>
    match incDecode pend c false with
    | none => none
    | some r => (decodeChunks r.2 rest).map (fun r2 => (r.1 :: r2.1, r2.2))

/-- what the strict decoder may hold back: a proper prefix of a well-formed sequence -/
def pendOk : Bytes → Bool
  | [] => true
  | [b0] => decide (2 ≤ seqLen b0)
  | [b0, b1] => decide (3 ≤ seqLen b0) && secondOk b0 b1
  | [b0, b1, b2] => decide (seqLen b0 = 4) && secondOk b0 b1 && isCont b2
  | _ => false

/-- a well-formed UTF-8 byte sequence for one code point (Unicode table 3-7) -/
def wfChar (ch : Bytes) : Bool :=
  match ch with
  | [a] => decide (a.toNat < 0x80)
  | [a, b] => decide (0xC2 ≤ a.toNat) && decide (a.toNat ≤ 0xDF) && isCont b
  | [a, b, c] => decide (0xE0 ≤ a.toNat) && decide (a.toNat ≤ 0xEF) && secondOk a b && isCont c
  | [a, b, c, d] => decide (0xF0 ≤ a.toNat) && decide (a.toNat ≤ 0xF4) && secondOk a b && isCont c && isCont d
  | _ => false

/-! ### Fragmentizer -/

/-- `Fragmentizer.cut` for text: `while 0 < pos < len(content) and content[pos] & 0xC0 == 0x80: pos -= 1` -/
def back (c : Bytes) : Nat → Nat
  | 0 => 0
  | p + 1 => if p + 1 < c.length ∧ isCont (c.getD (p + 1) 0) = true then back c p else p + 1

def cut (isText : Bool) (c : Bytes) (p : Nat) : Nat := if isText then back c p else p

/-- running sums `acc + l₁, acc + l₁ + l₂, …` (the successive values of `offset`) -/
def prefixSums (acc : Nat) : List Nat → List Nat
  | [] => []
  | l :: ls => (acc + l) :: prefixSums (acc + l) ls

/-- the step lengths walked by `offset`: original lengths (all but the last) iff the total length
    is unchanged, else FRAGMENT_SIZE as long as `offset < len(content) - FRAGMENT_SIZE` -/
def stepLens (fs : Nat) (lens : List Nat) (n : Nat) : List Nat :=
  if n = lens.sum then lens.dropLast else List.replicate ((n - 1) / fs) fs

def nominalCuts (fs : Nat) (lens : List Nat) (n : Nat) : List Nat := prefixSums 0 (stepLens fs lens n)

/-- the slices `content[start:end]` … `content[start:]` with their `message_finished` flag -/
def pieces (isText : Bool) (c : Bytes) (start : Nat) : List Nat → List (Bytes × Bool)
  | [] => [(c.drop start, true)]
  | p :: ps => ((c.drop start).take (cut isText c p - start), false) :: pieces isText c (cut isText c p) ps

/-- what wsproto sends for one fragment (`Fragmentizer.msg`) -/
def payload (isText : Bool) (p : Bytes) : Bytes := if isText then san p else p

/-- `Fragmentizer(fragments, is_text)(content)` with `lens = [len(x) for x in fragments]`:
    list of (payload on the wire, message_finished) -/
def fragmentize (fs : Nat) (lens : List Nat) (isText : Bool) (c : Bytes) : List (Bytes × Bool) :=
  (pieces isText c 0 (nominalCuts fs lens c.length)).map (fun pf => (payload isText pf.1, pf.2))

/-- fragments with their `message_finished` flag (only the last one finishes the message) -/
def flagged : List Bytes → List (Bytes × Bool)
  | [] => []
  | [f] => [(f, true)]
  | f :: rest => (f, false) :: flagged rest

/-! ### relay bookkeeping -/

inductive WsState | wopen | remoteClosing | localClosing | closed
  deriving DecidableEq, Repr

/-- how wsproto came to yield a `CloseConnection` event -/
inductive CloseKind
  | frame      -- a close frame was received (state → REMOTE_CLOSING / CLOSED)
  | eof        -- `receive_data(None)`: code 1006, state → CLOSED
  | parseFail  -- protocol error detected locally, state unchanged
  deriving DecidableEq, Repr

/-- events yielded by `src_ws.events()` (text data already as the UTF-8 bytes of the `str`) -/
inductive WsEv
  | msg (text : Bool) (data : Bytes) (frameFin msgFin : Bool)
  | ping (p : Bytes)
  | pong (p : Bytes)
  | close (kind : CloseKind) (code : Nat) (reason : Option Bytes)
  deriving DecidableEq, Repr

/-- events handled by `relay_messages` -/
inductive Ev
  | data (fromClient : Bool) (evs : List WsEv)           -- DataReceived / ConnectionClosed
  | inject (fromClient : Bool) (text : Bool) (content : Bytes)
  deriving Repr

structure Msg where
  text : Bool
  fromClient : Bool
  content : Bytes
  injected : Bool
  dropped : Bool
  deriving DecidableEq, Repr

/-- what the addons do with the message in the `websocket_message` hook -/
inductive Action | keep | edit (c : Bytes) | drop
  deriving DecidableEq, Repr

/-- the addon chain: decision for the `idx`-th recorded message -/
abbrev Policy := Nat → Msg → Action

inductive Out
  | hookMsg (idx : Nat)
  | sendMsg (toClient : Bool) (text : Bool) (frames : List (Bytes × Bool))
  | sendPing (toClient : Bool) (p : Bytes)
  | sendPong (toClient : Bool) (p : Bytes)
  | sendClose (toClient : Bool) (code : Nat) (reason : Option Bytes)
  | closeConn (client : Bool)
  | hookEnd
  | crash                     -- wsproto LocalProtocolError (send on a connection that is not OPEN)
  deriving DecidableEq, Repr

structure St where
  bufC : List Bytes := [[]]      -- client_ws.frame_buf
  bufS : List Bytes := [[]]      -- server_ws.frame_buf
  wsC : WsState := .wopen        -- client_ws.state
  wsS : WsState := .wopen        -- server_ws.state
  msgs : List Msg := []          -- flow.websocket.messages
  closed : Option (Bool × Nat × Option Bytes) := none   -- closed_by_client, close_code, close_reason
  done : Bool := false
  crashed : Bool := false
  deriving Repr

def St.buf (s : St) (fromClient : Bool) : List Bytes := if fromClient then s.bufC else s.bufS
def St.setBuf (s : St) (fromClient : Bool) (b : List Bytes) : St :=
  if fromClient then { s with bufC := b } else { s with bufS := b }
def St.ws (s : St) (client : Bool) : WsState := if client then s.wsC else s.wsS
def St.setWs (s : St) (client : Bool) (w : WsState) : St :=
  if client then { s with wsC := w } else { s with wsS := w }

/-- `frame_buf[-1] += data` -/
def appendLast (buf : List Bytes) (d : Bytes) : List Bytes :=
  match buf with
  | [] => [d]
  | [x] => [x ++ d]
  | x :: rest => x :: appendLast rest d

def applyAction (m : Msg) : Action → Msg
  | .keep => m
  | .edit c => { m with content := c }
  | .drop => { m with dropped := true }

/-- `if ws_event.message_finished:` — record the message assembled in `buf`, run the hook, re-fragment -/
def finishMsg (fs : Nat) (pol : Policy) (fromClient injected : Bool) (s : St) (text : Bool) (buf : List Bytes) :
    St × List Out :=
  let m0 : Msg := { text := text, fromClient := fromClient, content := buf.flatten,
                     injected := injected, dropped := false }
  let idx := s.msgs.length
  let m := applyAction m0 (pol idx m0)
  let s1 := { s.setBuf fromClient [[]] with msgs := s.msgs ++ [m] }
  if m.dropped then (s1, [.hookMsg idx])
  else if s.ws (!fromClient) = .wopen then
    (s1, [.hookMsg idx, .sendMsg (!fromClient) text (fragmentize fs (buf.map List.length) text m.content)])
  else ({ s1 with crashed := true }, [.hookMsg idx, .crash])

/-- a finished/unfinished data frame event: `frame_buf` accumulation, hook, re-fragmentation -/
def procMsg (fs : Nat) (pol : Policy) (fromClient injected : Bool) (s : St)
    (text : Bool) (data : Bytes) (frameFin msgFin : Bool) : St × List Out :=
  let buf := appendLast (s.buf fromClient) data
  if msgFin then finishMsg fs pol fromClient injected s text buf
  else if frameFin then (s.setBuf fromClient (buf ++ [[]]), [])
  else (s.setBuf fromClient buf, [])

/-- ping / pong: `yield dst_ws.send2(ws_event)` -/
def procCtl (fromClient : Bool) (s : St) (o : Out) : St × List Out :=
  if s.ws (!fromClient) = .wopen then (s, [o]) else ({ s with crashed := true }, [.crash])

/-- wsproto's own state change of the connection that yields the close event -/
def srcAfterClose (kind : CloseKind) (src : WsState) : WsState :=
  match kind with
  | .frame => if src = .localClosing then .closed else .remoteClosing
  | .eof => .closed
  | .parseFail => src

/-- `if ws.state in {OPEN, REMOTE_CLOSING}: yield ws.send2(ws_event)` then `CloseConnection(ws.conn)` -/
def closeSend (code : Nat) (reason : Option Bytes) (st : St) (client : Bool) : St × List Out :=
  if st.ws client = .wopen then
    (st.setWs client .localClosing, [.sendClose client code reason, .closeConn client])
  else if st.ws client = .remoteClosing then
    (st.setWs client .closed, [.sendClose client code reason, .closeConn client])
  else (st, [.closeConn client])

def procClose (fromClient : Bool) (s : St) (kind : CloseKind) (code : Nat) (reason : Option Bytes) :
    St × List Out :=
  let s0 := { s.setWs fromClient (srcAfterClose kind (s.ws fromClient)) with
              closed := some (fromClient, code, reason) }
  let r1 := closeSend code reason s0 false      -- for ws in [self.server_ws, self.client_ws]
  let r2 := closeSend code reason r1.1 true
  ({ r2.1 with done := true }, r1.2 ++ r2.2 ++ [.hookEnd])

/-- one event of the `for ws_event in src_ws.events()` loop -/
def procEv (fs : Nat) (pol : Policy) (fromClient injected : Bool) (s : St) (e : WsEv) : St × List Out :=
  if s.crashed then (s, []) else
  match e with
  | .msg text data frameFin msgFin => procMsg fs pol fromClient injected s text data frameFin msgFin
  | .ping p => procCtl fromClient s (.sendPing (!fromClient) p)
  | .pong p => procCtl fromClient s (.sendPong (!fromClient) p)
  | .close kind code reason => procClose fromClient s kind code reason

def procEvs (fs : Nat) (pol : Policy) (fromClient injected : Bool) (s : St) : List WsEv → St × List Out
  | [] => (s, [])
  | e :: es =>
    let r := procEv fs pol fromClient injected s e
    let r' := procEvs fs pol fromClient injected r.1 es
    (r'.1, r.2 ++ r'.2)

/-- the wsproto events `Fragmentizer([], is_text)(content)` pushes into `src_ws._events` -/
def injectEvents (fs : Nat) (text : Bool) (content : Bytes) : List WsEv :=
  (fragmentize fs [] text content).map (fun pf => WsEv.msg text pf.1 true pf.2)

/-- `WebsocketLayer.relay_messages` / `done` -/
def step (fs : Nat) (pol : Policy) (s : St) : Ev → St × List Out
  | .data fromClient evs =>
    if s.done || s.crashed then (s, []) else procEvs fs pol fromClient false s evs
  | .inject fromClient text content =>
    if s.done || s.crashed then (s, []) else
    let saved := s.buf fromClient
    let r := procEvs fs pol fromClient true (s.setBuf fromClient [[]]) (injectEvents fs text content)
    (r.1.setBuf fromClient saved, r.2)

def run (fs : Nat) (pol : Policy) (s : St) : List Ev → St × List Out
  | [] => (s, [])
  | e :: es =>
    let r := step fs pol s e
    let r' := run fs pol r.1 es
    (r'.1, r.2 ++ r'.2)

/-! ### what the receiving peer reassembles (wsproto law: frames out = frames in) -/

/-- messages (type, content) delivered to the peer on side `toClient` -/
def delivered (toClient : Bool) : List Out → List (Bool × Bytes)
  | [] => []
  | .sendMsg tc text frames :: rest =>
    if tc = toClient then (text, (frames.map (·.1)).flatten) :: delivered toClient rest
    else delivered toClient rest
  | _ :: rest => delivered toClient rest

/-- content as it appears on the wire for a recorded message -/
def wire (m : Msg) : Bytes := payload m.text m.content

/-- what the property expects the peer on side `toClient` to have received -/
def expected (toClient : Bool) (msgs : List Msg) : List (Bool × Bytes) :=
  (msgs.filter (fun m => m.fromClient = !toClient && !m.dropped)).map (fun m => (m.text, wire m))

/-- pings (`true`) and pongs (`false`) handed to the peer on side `toClient`, in order -/
def controlsOut (toClient : Bool) : List Out → List (Bool × Bytes)
  | [] => []
  | .sendPing tc p :: rest => if tc = toClient then (true, p) :: controlsOut toClient rest else controlsOut toClient rest
  | .sendPong tc p :: rest => if tc = toClient then (false, p) :: controlsOut toClient rest else controlsOut toClient rest
  | _ :: rest => controlsOut toClient rest

def WsEv.isClose : WsEv → Bool
  | .close _ _ _ => true
  | _ => false

def wsControls : List WsEv → List (Bool × Bytes)
  | [] => []
  | .ping p :: rest => (true, p) :: wsControls rest
  | .pong p :: rest => (false, p) :: wsControls rest
  | _ :: rest => wsControls rest

/-- pings / pongs the peer on side `fromClient` sent, in order of arrival -/
def controlsIn (fromClient : Bool) : List Ev → List (Bool × Bytes)
  | [] => []
  | .data fc evs :: rest => if fc = fromClient then wsControls evs ++ controlsIn fromClient rest else controlsIn fromClient rest
  | .inject _ _ _ :: rest => controlsIn fromClient rest

/-- no close event (close frame, EOF, protocol failure) in this event -/
def Ev.noClose : Ev → Bool
  | .data _ evs => evs.all (fun e => !e.isClose)
  | .inject _ _ _ => true

/-- a close event occurs at most as the LAST event of a batch — what wsproto guarantees
    (`_parse_more_gen` stops behind a close frame; EOF and a parse failure end the batch) -/
def closeLast : List WsEv → Bool
  | [] => true
  | [_] => true
  | e :: rest => !e.isClose && closeLast rest

def Ev.closeLast : Ev → Bool
  | .data _ evs => C28.closeLast evs
  | .inject _ _ _ => true

/-- a burst of frames is one complete message: only the last frame has `message_finished` -/
def wellFramed : List (Bytes × Bool) → Bool
  | [] => false
  | [(_, fin)] => fin
  | (_, fin) :: rest => !fin && wellFramed rest

/-! ### what the peers sent, as a function of the event history alone (no frame buffers, no wsproto states) -/

structure Sent where
  c : Bytes := []          -- data of the client's message in progress
  s : Bytes := []          -- data of the server's message in progress
  msgs : List Msg := []    -- finished / injected messages so far, as edited by the addons

def Sent.acc (a : Sent) (fc : Bool) : Bytes := if fc then a.c else a.s
def Sent.setAcc (a : Sent) (fc : Bool) (b : Bytes) : Sent := if fc then { a with c := b } else { a with s := b }

/-- one wsproto event of direction `fc` -/
def sentEv (pol : Policy) (fc : Bool) (a : Sent) : WsEv → Sent
  | .msg t d _ mf =>
    let cur := a.acc fc ++ d
    if mf then
      let m0 : Msg := { text := t, fromClient := fc, content := cur, injected := false, dropped := false }
      { a.setAcc fc [] with msgs := a.msgs ++ [applyAction m0 (pol a.msgs.length m0)] }
    else a.setAcc fc cur
  | _ => a

def sentOf (pol : Policy) (a : Sent) : Ev → Sent
  | .data fc evs => evs.foldl (sentEv pol fc) a
  | .inject fc t c =>
    let m0 : Msg := { text := t, fromClient := fc, content := payload t c, injected := true, dropped := false }
    { a with msgs := a.msgs ++ [applyAction m0 (pol a.msgs.length m0)] }

/-- the messages of a history: every finished message of either peer (content = concatenation of the data of its
    events, i.e. of its fragments) and every injected message, in arrival order, with the addons' decision applied -/
def sentMessages (pol : Policy) (evs : List Ev) : List Msg := (evs.foldl (sentOf pol) {}).msgs

end MitmVerif.C28
