/-
  C28 — the WebSocket wire format under the relay model (transcription of wsproto 1.3
  `frame_protocol.py`: `FrameProtocol._serialize_frame`, `FrameDecoder.parse_header /
  parse_extended_payload_length / extension_processing / process_buffer`, `XorMaskerSimple`,
  `MessageDecoder.process_frame`, `FrameProtocol._process_close`, `FrameProtocol.send_data`,
  and the frame → event mapping of `Connection.events`).
  Still parameters: permessage-deflate (frames are taken with the payload the extension hands
  over; `rsvOk` says which RSV bits the negotiated extensions accept) and UTF-8 validation /
  incremental decoding of text payloads (text frames are taken to end on character boundaries,
  which is what the relay itself guarantees for the frames it sends — `text_exact`).
-/
import MitmVerif.Model.C28
namespace MitmVerif.C28.Wire
open MitmVerif MitmVerif.C28

structure Frame where
  fin : Bool
  rsv : Nat            -- rsv1*4 + rsv2*2 + rsv3
  opcode : Nat
  key : Option Bytes   -- masking key (client → server frames)
  payload : Bytes      -- unmasked payload
  deriving DecidableEq, Repr

def byte (n : Nat) : UInt8 := UInt8.ofNat n

def be16 (n : Nat) : Bytes := [byte (n / 256), byte (n % 256)]
def be64 (n : Nat) : Bytes :=
  [byte (n / 72057594037927936 % 256), byte (n / 281474976710656 % 256), byte (n / 1099511627776 % 256),
   byte (n / 4294967296 % 256), byte (n / 16777216 % 256), byte (n / 65536 % 256), byte (n / 256 % 256), byte (n % 256)]

def beVal : Bytes → Nat := fun bs => bs.foldl (fun acc b => acc * 256 + b.toNat) 0

/-- `XorMaskerSimple.process` (the offset restarts with every frame) -/
def maskGo (key : Bytes) (i : Nat) : Bytes → Bytes
  | [] => []
  | x :: xs => (x ^^^ key.getD (i % 4) 0) :: maskGo key (i + 1) xs

def mask (key : Bytes) (p : Bytes) : Bytes := maskGo key 0 p

def isControl (opcode : Nat) : Bool := decide (8 ≤ opcode)
/-- `Opcode(opcode)` succeeds -/
def validOpcode (opcode : Nat) : Bool :=
  opcode = 0 || opcode = 1 || opcode = 2 || opcode = 8 || opcode = 9 || opcode = 10

/-- `FrameProtocol._serialize_frame` (after the extensions): header, extended length, masking key,
    masked payload.  A frame carries a key iff it is sent by the client. -/
def encodeFrame (f : Frame) : Bytes :=
  let b0 := byte ((if f.fin then 128 else 0) + f.rsv * 16 + f.opcode)
  let n := f.payload.length
  let m := if f.key.isSome then 128 else 0
  let lenBytes :=
    if n ≤ 125 then [byte (m + n)]
    else if n ≤ 65535 then byte (m + 126) :: be16 n
    else byte (m + 127) :: be64 n
  match f.key with
  | some k => b0 :: lenBytes ++ k ++ mask k f.payload
  | none => b0 :: lenBytes ++ f.payload

inductive Dec (α : Type) | more | fail | ok (a : α) (rest : Bytes)
  deriving Repr, DecidableEq

/-- `FrameDecoder.parse_extended_payload_length` (after the control-frame check) -/
def parseLen (len7 : Nat) (r : Bytes) : Dec Nat :=
  if len7 = 126 then
    (if r.length < 2 then .more
     else if beVal (r.take 2) ≤ 125 then .fail        -- "used 2 bytes when 1 would have sufficed"
     else .ok (beVal (r.take 2)) (r.drop 2))
  else if len7 = 127 then
    (if r.length < 8 then .more
     else if beVal (r.take 8) ≤ 65535 then .fail      -- "used 8 bytes when 2 would have sufficed"
     else if 9223372036854775808 ≤ beVal (r.take 8) then .fail   -- "non-zero MSB"
     else .ok (beVal (r.take 8)) (r.drop 8))
  else .ok len7 r

/-- masking key (if announced) and the whole payload -/
def takePayload (fin : Bool) (rsv opcode : Nat) (hasMask : Bool) (n : Nat) (r1 : Bytes) : Dec Frame :=
  if hasMask then
    (if r1.length < 4 then .more
     else if (r1.drop 4).length < n then .more
     else .ok { fin := fin, rsv := rsv, opcode := opcode, key := some (r1.take 4),
                payload := mask (r1.take 4) ((r1.drop 4).take n) } ((r1.drop 4).drop n))
  else
    (if r1.length < n then .more
     else .ok { fin := fin, rsv := rsv, opcode := opcode, key := none, payload := r1.take n } (r1.drop n))

/-- `FrameDecoder.parse_header` + the whole payload (`process_buffer` once all of it is buffered).
    `client` is the role of the RECEIVING endpoint; `rsvOk opcode rsv` = the extensions accept
    these reserved bits (`extension_processing`). -/
def decodeFrame (client : Bool) (rsvOk : Nat → Nat → Bool) (bs : Bytes) : Dec Frame :=
  match bs with
  | b0 :: b1 :: r =>
    let fin := decide (128 ≤ b0.toNat)
    let rsv := b0.toNat / 16 % 8
    let opcode := b0.toNat % 16
    if !validOpcode opcode then .fail                         -- "Invalid opcode"
    else if isControl opcode && !fin then .fail               -- "Invalid attempt to fragment control frame"
    else
      let hasMask := decide (128 ≤ b1.toNat)
      let len7 := b1.toNat % 128
      if isControl opcode && decide (125 < len7) then .fail   -- "Control frame with payload len > 125"
      else
        match parseLen len7 r with
        | .more => .more
        | .fail => .fail
        | .ok n r1 =>
          if !rsvOk opcode rsv then .fail                     -- "Reserved bit set unexpectedly"
          else if hasMask && client then .fail                -- "client received unexpected masked frame"
          else if !hasMask && !client then .fail              -- "server received unexpected unmasked frame"
          else takePayload fin rsv opcode hasMask n r1
  | _ => .more

/-- all complete frames of a buffer, the unconsumed rest, and whether parsing failed -/
def decodeStream (client : Bool) (rsvOk : Nat → Nat → Bool) : Nat → Bytes → List Frame × Bytes × Bool
  | 0, bs => ([], bs, false)
  | fuel + 1, bs =>
    match decodeFrame client rsvOk bs with
    | .more => ([], bs, false)
    | .fail => ([], bs, true)
    | .ok f rest =>
      let r := decodeStream client rsvOk fuel rest
      (f :: r.1, r.2.1, r.2.2)

/-- no extension negotiated: every reserved bit is an error -/
def noExt : Nat → Nat → Bool := fun _ rsv => rsv = 0

/-- what an endpoint may put on the wire (`_serialize_frame` preconditions) -/
def Frame.wf (client : Bool) (f : Frame) : Prop :=
  f.rsv < 8 ∧ validOpcode f.opcode = true ∧ (isControl f.opcode = true → f.fin = true ∧ f.payload.length ≤ 125) ∧
  f.payload.length < 9223372036854775808 ∧
  (match f.key with | some k => k.length = 4 ∧ client = false | none => client = true)

/-! ### messages ⇄ frames -/

/-- `FrameProtocol.send_data` over the fragments of one message: first frame TEXT/BINARY, the
    others CONTINUATION, FIN on the last; `keys` supplies the masking key of each frame -/
def dataFrames (text : Bool) (keys : Nat → Option Bytes) (start : Nat) : Bool → List (Bytes × Bool) → List Frame
  | _, [] => []
  | first, (p, fin) :: rest =>
    { fin := fin, rsv := 0, opcode := (if first then (if text then 1 else 2) else 0), key := keys start, payload := p }
      :: dataFrames text keys (start + 1) false rest

/-- `MessageDecoder` state: the opcode of the message in progress -/
abbrev MState := Option Nat

/-- close codes wsproto knows (`CloseReason`) -/
def knownClose (c : Nat) : Bool :=
  c = 1000 || c = 1001 || c = 1002 || c = 1003 || c = 1005 || c = 1006 || c = 1007 || c = 1008 || c = 1009 ||
  c = 1010 || c = 1011 || c = 1012 || c = 1013 || c = 1014 || c = 1015

/-- `FrameProtocol._process_close`: (code, reason) or a protocol error -/
def parseClose (p : Bytes) : Option (Nat × Bytes) :=
  match p with
  | [] => some (1005, [])
  | [_] => none
  | a :: b :: reason =>
    let code := a.toNat * 256 + b.toNat
    if code < 1000 ∨ 4999 < code then none
    else if code = 1005 ∨ code = 1006 ∨ code = 1015 then none
    else if !knownClose code ∧ code ≤ 2999 then none
    else some (code, reason)

/-- one complete frame → the event `Connection.events` yields (`none` = ParseFailed, which wsproto
    turns into a locally generated close event) -/
def frameEvent (ms : MState) (f : Frame) : Option (MState × WsEv) :=
  if f.opcode = 9 then some (ms, .ping f.payload)
  else if f.opcode = 10 then some (ms, .pong f.payload)
  else if f.opcode = 8 then
    match parseClose f.payload with
    | some (c, r) => some (ms, .close .frame c (some r))
    | none => none
  else
    match ms with
    | none =>
      if f.opcode = 0 then none                                   -- "unexpected CONTINUATION"
      else some (if f.fin then none else some f.opcode, .msg (f.opcode = 1) f.payload true f.fin)
    | some op =>
      if f.opcode ≠ 0 then none                                   -- "expected CONTINUATION"
      else some (if f.fin then none else some op, .msg (op = 1) f.payload true f.fin)

def framesEvents (ms : MState) : List Frame → Option (MState × List WsEv)
  | [] => some (ms, [])
  | f :: fs =>
    match frameEvent ms f with
    | none => none
    | some (ms1, e) =>
      if f.opcode = 8 then some (ms1, [e])          -- `_parse_more_gen`: `closed = True`, nothing is parsed behind a close
      else
      match framesEvents ms1 fs with
      | none => none
      | some (ms2, es) => some (ms2, e :: es)

/-- `received_frames` on a whole buffer: decode frame by frame, map to events, stop behind a close
    frame (`none` = ParseFailed somewhere before) -/
def streamEvents (client : Bool) (rsvOk : Nat → Nat → Bool) : Nat → MState → Bytes → Option (List WsEv)
  | 0, _, _ => some []
  | fuel + 1, ms, bs =>
    match decodeFrame client rsvOk bs with
    | .more => some []
    | .fail => none
    | .ok f rest =>
      match frameEvent ms f with
      | none => none
      | some (ms1, e) =>
        if f.opcode = 8 then some [e]
        else (streamEvents client rsvOk fuel ms1 rest).map (e :: ·)

/-! ### text frames through wsproto's incremental UTF-8 decoder (frames may end inside a character) -/

/-- `MessageDecoder.process_frame` with the decoder: a TEXT frame starts a fresh decoder, every
    frame of a text message is decoded with `final = message_finished`; `pend` = bytes the decoder
    holds back.  Sequencing errors are raised before decoding. -/
def frameEventU (ms : MState) (pend : Bytes) (f : Frame) : Option (MState × Bytes × WsEv) :=
  match frameEvent ms f with
  | none => none
  | some (ms1, .msg true _ ff mf) =>
    match incDecode (if ms.isNone then [] else pend) f.payload f.fin with
    | none => none                                   -- ParseFailed(INVALID_FRAME_PAYLOAD_DATA)
    | some r => some (ms1, r.2, .msg true r.1 ff mf)
  | some (ms1, e) => some (ms1, pend, e)

def framesEventsU (ms : MState) (pend : Bytes) : List Frame → Option (MState × Bytes × List WsEv)
  | [] => some (ms, pend, [])
  | f :: fs =>
    match frameEventU ms pend f with
    | none => none
    | some (ms1, p1, e) =>
      if f.opcode = 8 then some (ms1, p1, [e])
      else
      match framesEventsU ms1 p1 fs with
      | none => none
      | some (ms2, p2, es) => some (ms2, p2, e :: es)

def streamEventsU (client : Bool) (rsvOk : Nat → Nat → Bool) : Nat → MState → Bytes → Bytes → Option (List WsEv)
  | 0, _, _, _ => some []
  | fuel + 1, ms, pend, bs =>
    match decodeFrame client rsvOk bs with
    | .more => some []
    | .fail => none
    | .ok f rest =>
      match frameEventU ms pend f with
      | none => none
      | some (ms1, p1, e) =>
        if f.opcode = 8 then some [e]
        else (streamEventsU client rsvOk fuel ms1 p1 rest).map (e :: ·)

/-- the peer's view: reassemble complete messages from data frames (control frames skipped) -/
def reassemble (acc : Option (Bool × Bytes)) : List WsEv → List (Bool × Bytes)
  | [] => []
  | .msg t d _ mf :: rest =>
    let cur := match acc with | some (t0, c) => (t0, c ++ d) | none => (t, d)
    if mf then cur :: reassemble none rest else reassemble (some cur) rest
  | _ :: rest => reassemble acc rest

end MitmVerif.C28.Wire
