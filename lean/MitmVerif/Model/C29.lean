/-
  C29 — executable model of `TCPLayer` / `UDPLayer` (mitmproxy/proxy/layers/tcp.py, udp.py) together with
  the part of `Layer.handle_event` (mitmproxy/proxy/layer.py) they rely on: a layer that has yielded a
  blocking command (a hook, `OpenConnection`) is *paused*; events arriving meanwhile are buffered in
  `_paused_event_queue` and replayed, in order, once the reply arrives.

  The model is an open system: its inputs are the events `proxy/server.py` can hand to the layer
  (plus the connection-state bookkeeping `server.py` performs *before* it delivers `ConnectionClosed`),
  its outputs are the commands the layer yields.  Commands are applied to the connection state at the
  moment they are yielded (`server.py` consumes the command generator lazily), exactly as
  `ConnectionHandler.close_connection` does.

  Core Lean only (compiled into `mv_c29`; reused by the C30 model as the per-stream relay).
-/
import MitmVerif.Basic.Bytes
namespace MitmVerif.C29

inductive Side | client | server
deriving DecidableEq, Repr, Inhabited

def Side.other : Side → Side
  | .client => .server
  | .server => .client

/-- `ConnectionState`: the two bits CAN_READ / CAN_WRITE (`OPEN` = both, `CLOSED` = none). -/
structure Conn where
  canRead : Bool
  canWrite : Bool
deriving DecidableEq, Repr, Inhabited

def Conn.opened : Conn := ⟨true, true⟩
def Conn.shut : Conn := ⟨false, false⟩
/-- `conn.state is ConnectionState.CLOSED` -/
def Conn.isClosed (c : Conn) : Bool := !c.canRead && !c.canWrite

inductive Proto | tcp | udp
deriving DecidableEq, Repr

inductive Hook
  | start
  | message (fromClient : Bool) (content : Bytes)   -- content of `flow.messages[-1]` when the hook fires
  | end_
  | error
deriving DecidableEq, Repr

inductive Output
  | hook (h : Hook)
  | openServer                              -- `OpenConnection(context.server)`
  | send (to : Side) (d : Bytes)            -- `SendData`
  | close (c : Side) (half : Bool)          -- `CloseConnection` (half = false) / `CloseTcpConnection(half_close=True)`
deriving DecidableEq, Repr

/-- events as `_handle_event` sees them; an injected message is "spoofed" into `DataReceived` by the layer -/
inductive Ev
  | data (src : Side) (d : Bytes)
  | closed (s : Side)
deriving DecidableEq, Repr

/-- which state function `_handle_event` currently is (`idle` = `Start` not yet delivered) -/
inductive Phase | idle | start | relay | done
deriving DecidableEq, Repr

structure Msg where
  fromClient : Bool
  content : Bytes
deriving DecidableEq, Repr

/-- the suspended generator (`Layer._paused`): which blocking command we wait for and what follows -/
inductive Pending
  | none
  | startHook                       -- `start`: after `Tcp/UdpStartHook`
  | connect                         -- `start`: `err = yield OpenConnection(server)`
  | errorHook                       -- `start`: after `Tcp/UdpErrorHook`; then CloseConnection(client), done
  | msgHook (to : Side) (m : Msg)   -- `relay_messages`: after the message hook; then `SendData(to, flow.messages[index].content)`
  | endHook                         -- `relay_messages`: after the end hook; then `flow.live = False`
deriving DecidableEq, Repr

structure State where
  proto : Proto
  flow : Bool                 -- `ignore=False`: a flow object exists and hooks fire
  connectAs : Conn            -- state a successfully opened server connection gets (OPEN for real sockets)
  phase : Phase
  pending : Pending
  queue : List Ev             -- `_paused_event_queue`
  msgs : List Msg             -- `flow.messages` whose hook has completed (the one in flight sits in `pending`)
  client : Conn
  server : Conn
  connected : Bool            -- `context.server.timestamp_start is not None`
  live : Bool                 -- `flow.live`
  error : Bool                -- `flow.error is not None`
  killed : Bool               -- `flow.error.msg == Error.KILLED_MESSAGE` (an addon called `flow.kill()`)
  cEofFail : Bool             -- environment: `writer.write_eof()` on the client socket raises OSError
  sEofFail : Bool             -- environment: the same for the server socket
  trace : List Output         -- every command yielded so far (ghost log; never read by the model)
deriving Repr

def init (proto : Proto) (flow connected : Bool) : State :=
  { proto, flow, connectAs := .opened, phase := .idle, pending := .none, queue := [], msgs := [],
    client := .opened, server := if connected then .opened else .shut, connected, live := true,
    error := false, killed := false, cEofFail := false, sEofFail := false, trace := [] }

/-- like `init`, but the sockets may be dead for writing: a half-close then hits the `except OSError` branch of
    `ConnectionHandler.close_connection` ("we presume it completely dead": state CLOSED, handler cancelled) -/
def initX (proto : Proto) (flow connected cEofFail sEofFail : Bool) : State :=
  { init proto flow connected with cEofFail, sEofFail }

def State.conn (st : State) : Side → Conn
  | .client => st.client
  | .server => st.server

def State.setConn (st : State) (s : Side) (c : Conn) : State :=
  match s with
  | .client => { st with client := c }
  | .server => { st with server := c }

/-- `flow.messages` as an addon sees it -/
def State.flowMessages (st : State) : List Msg :=
  match st.pending with
  | .msgHook _ m => st.msgs ++ [m]
  | _ => st.msgs

def State.eofFail (st : State) : Side → Bool
  | .client => st.cEofFail
  | .server => st.sEofFail

/-- `ConnectionHandler.close_connection`; `eofFails`: `write_eof()` raises OSError, the connection is presumed dead -/
def applyClose (c : Conn) (half : Bool) (eofFails : Bool := false) : Conn :=
  if half then (if eofFails && c.canWrite then .shut else { c with canWrite := false }) else .shut

/-- yield a command; `server.py` executes it before the generator is advanced -/
def emit (st : State) (o : Output) : State :=
  match o with
  | .close s half => { st.setConn s (applyClose (st.conn s) half (st.eofFail s)) with trace := st.trace ++ [o] }
  | _ => { st with trace := st.trace ++ [o] }

/-- `if self.flow: yield EndHook(flow); flow.live = False` (up to the blocking hook) -/
def finish (st : State) : State :=
  if st.flow then { emit st (.hook .end_) with pending := .endHook } else st

/-- `relay_messages`, `DataReceived` branch (also reached by injected messages) -/
def handleData (st : State) (src : Side) (d : Bytes) : State :=
  if st.flow then
    { emit st (.hook (.message (src == .client) d)) with pending := .msgHook src.other ⟨src == .client, d⟩ }
  else emit st (.send src.other d)

/-- `relay_messages`, `ConnectionClosed` branch -/
def handleClosed (st : State) (s : Side) : State :=
  match st.proto with
  | .tcp =>
    if !st.client.canRead && !st.server.canRead then
      let st := { st with phase := .done }
      let st := if st.server.isClosed then st else emit st (.close .server false)
      let st := if st.client.isClosed then st else emit st (.close .client false)
      finish st
    else emit st (.close s.other true)
  | .udp =>
    finish (emit { st with phase := .done } (.close s.other false))

/-- `self._handle_event(ev)` of an un-paused layer -/
def handle (st : State) (ev : Ev) : State :=
  match st.phase with
  | .relay =>
    match ev with
    | .data src d => handleData st src d
    | .closed s => handleClosed st s
  | _ => st            -- `done` ignores everything; `idle`/`start` never see an event un-paused

/-- `Layer.__continue`, the replay loop: `while not self._paused and self._paused_event_queue` -/
def drain : List Ev → State → State
  | [], st => { st with queue := [] }
  | e :: q, st =>
    match st.pending with
    | .none => drain q (handle st e)
    | _ => { st with queue := e :: q }

/-- `start` after the start hook -/
def enterRelayOrConnect (st : State) : State :=
  if st.connected then { st with phase := .relay }
  else { emit st .openServer with pending := .connect }

/-- `start`, error path after the error hook: `yield CloseConnection(client); self._handle_event = self.done` -/
def afterError (st : State) : State :=
  { emit st (.close .client false) with phase := .done }

def editMsg (m : Msg) : Option Bytes → Msg
  | none => m
  | some b => { m with content := b }

inductive Input
  | start
  | data (src : Side) (d : Bytes)              -- `DataReceived`
  | inject (fromClient : Bool) (d : Bytes)     -- `Tcp/UdpMessageInjected`
  | closed (s : Side) (full : Bool)            -- server.py: state &= ~CAN_READ (or CLOSED), then `ConnectionClosed`
  | hookDone (edit : Option Bytes)             -- `HookCompleted`; a message hook may have rewritten `messages[-1].content`
  | connectDone (err : Bool)                   -- `OpenConnectionCompleted`
  | hookKill                                   -- `HookCompleted` after the addon called `flow.kill()` inside the hook
deriving DecidableEq, Repr

/-- `Flow.kill()`: only if `killable` (`live and not killed`); sets `error = Error(KILLED_MESSAGE)`, `live = False`.
    Neither layer ever looks at these fields again, which is why killing does not stop the relay. -/
def applyKill (st : State) : State :=
  if st.live && !st.killed then { st with error := true, killed := true, live := false } else st

/-- `Layer.handle_event` for an ordinary event -/
def deliver (st : State) (ev : Ev) : State :=
  match st.pending with
  | .none => handle st ev
  | _ => { st with queue := st.queue ++ [ev] }

def step (st : State) (i : Input) : State :=
  match st.phase with
  | .idle =>
    match i with
    | .start =>
      let st := { st with phase := .start }
      if st.flow then { emit st (.hook .start) with pending := .startHook } else enterRelayOrConnect st
    | _ => st
  | _ =>
    match i with
    | .start => st
    | .data src d => deliver st (.data src d)
    | .inject fc d => deliver st (.data (if fc then .client else .server) d)
    | .closed s full =>
      let c := st.conn s
      deliver (st.setConn s (if full then .shut else { c with canRead := false })) (.closed s)
    | .hookDone edit =>
      match st.pending with
      | .startHook => let st := enterRelayOrConnect { st with pending := .none }; drain st.queue st
      | .errorHook => let st := afterError { st with pending := .none }; drain st.queue st
      | .msgHook to m =>
        let m' := editMsg m edit
        let st := emit { st with pending := .none, msgs := st.msgs ++ [m'] } (.send to m'.content)
        drain st.queue st
      | .endHook => let st := { st with pending := .none, live := false }; drain st.queue st
      | _ => st
    | .hookKill =>
      match st.pending with
      | .startHook => let st := enterRelayOrConnect { applyKill st with pending := .none }; drain st.queue st
      | .errorHook => let st := afterError { applyKill st with pending := .none }; drain st.queue st
      | .msgHook to m =>
        let st := applyKill st
        let st := emit { st with pending := .none, msgs := st.msgs ++ [m] } (.send to m.content)
        drain st.queue st
      | .endHook => let st := { applyKill st with pending := .none, live := false }; drain st.queue st
      | _ => st
    | .connectDone err =>
      match st.pending with
      | .connect =>
        if err then
          if st.flow then
            { emit { st with error := true } (.hook .error) with pending := .errorHook }
          else
            let st := afterError { st with pending := .none }; drain st.queue st
        else
          let st := { st with pending := .none, connected := true, server := st.connectAs, phase := .relay }
          drain st.queue st
      | _ => st

def run (st : State) (is : List Input) : State := is.foldl step st

/-! ### `OpenConnectionCompleted.reply` (`str | None`) and where it comes from

  The layers test the reply with `if err:` — Python truthiness: `None` and the EMPTY string both count as "no error".
  `ConnectionHandler.open_connection` therefore has to make sure that a failed attempt never yields an empty message. -/

/-- `if err:` for a reply of type `str | None` -/
def truthy : Option Bytes → Bool
  | none => false
  | some [] => false
  | some (_ :: _) => true

/-- the input the layer sees when `OpenConnectionCompleted(command, reply)` arrives -/
def replyInput (r : Option Bytes) : Input := .connectDone (truthy r)

/-- how the attempt in `open_connection` ended -/
inductive ConnectOutcome
  | ok                          -- the transport is up
  | oserror (msg : Bytes)       -- `except OSError as e`, `msg = str(e)` (empty for a bare TimeoutError() / OSError())
  | cancelled                   -- `except asyncio.CancelledError` (`str(e)` is empty)
deriving DecidableEq, Repr

/-- the bytes of `"connection cancelled"` (compared with the real reply by the harness) -/
def cancelledMsg : Bytes := [99, 111, 110, 110, 101, 99, 116, 105, 111, 110, 32, 99, 97, 110, 99, 101, 108, 108, 101, 100]

/-- `err = str(e); if not err: err = "connection cancelled"` -/
def openConnectionReply : ConnectOutcome → Option Bytes
  | .ok => none
  | .oserror msg => some (if msg.isEmpty then cancelledMsg else msg)
  | .cancelled => some cancelledMsg

/-! observation helpers -/

def isEndOrError : Output → Bool
  | .hook .end_ => true
  | .hook .error => true
  | _ => false

def isSend : Output → Bool
  | .send _ _ => true
  | _ => false

def isHook : Output → Bool
  | .hook _ => true
  | _ => false

/-- payloads of the `SendData` commands addressed to `s`, in order -/
def sentTo (s : Side) (tr : List Output) : List Bytes :=
  tr.filterMap fun o => match o with
    | .send to d => if to = s then some d else none
    | _ => none

/-- recorded contents of the messages travelling towards `s`, in order -/
def recorded (s : Side) (ms : List Msg) : List Bytes :=
  (ms.filter fun m => m.fromClient == (s == .server)).map (·.content)

end MitmVerif.C29
