/-
  C30 — executable model of `RawQuicLayer` (mitmproxy/proxy/layers/quic/_raw_layers.py, `force_raw=True`):
  the stream-id bookkeeping (`client_stream_ids`, `server_stream_ids`, `next_stream_id[4]`), registration of a
  stream layer on the first event for an unknown id, `event_to_child` (translation of the child's
  SendData / CloseConnection / CloseTcpConnection / OpenConnection into SendQuicStreamData / StopSendingQuicStream
  and the allocation of the paired server stream), `close_stream_layer`, reset preservation and the connection-close
  fan-out.

  The per-stream child layer is *abstract*: any `ChildOps σ` (a state type with a step function from events to
  commands).  The theorems in Props/C30.lean hold for every child; the compiled driver instantiates it with the
  C29 model of `TCPLayer` (streams) and `UDPLayer` (datagram layer).

  Not modelled: `RawQuicLayer`'s own `OpenConnection` on `Start` (the server connection is taken to be established,
  as it is whenever stream events can arrive) and `force_raw=False` (protocol detection via NextLayer).
-/
import MitmVerif.Model.C29
namespace MitmVerif.C30
open MitmVerif.C29 (Side Conn Hook)

/-- `stream_is_unidirectional`: `id & 2` -/
def isUni (id : Nat) : Bool := decide (2 ≤ id % 4)
/-- `stream_is_client_initiated`: `not (id & 1)` -/
def isClientInit (id : Nat) : Bool := decide (id % 2 = 0)

/-- the child layer of a stream / the datagram layer, as a black box -/
structure ChildOps (σ : Type) where
  /-- `TCPLayer(context)` of a new stream; `connected` = the server stream is already open -/
  mkStream : Bool → σ
  /-- the datagram layer -/
  mkDgram : σ
  /-- `child.handle_event(ev)` given the current state of its two connections: new state, yielded commands -/
  step : σ → Conn → Conn → C29.Input → σ × List C29.Output

inductive QOut
  | data (toClient : Bool) (id : Nat) (d : Bytes) (fin : Bool)                 -- SendQuicStreamData
  | reset (toClient : Bool) (id : Nat) (code : Nat)                            -- ResetQuicStream
  | stop (toClient : Bool) (id : Nat)                                          -- StopSendingQuicStream(NO_ERROR)
  | closeQuic (toClient : Bool) (code : Nat)                                   -- CloseQuicConnection
  | hook (owner : Option Nat) (h : Hook)                                       -- hook of a stream's child / of the datagram layer
  | dgram (o : C29.Output)                                                     -- other datagram-layer command, passed through
  | fault                                                                      -- AssertionError
deriving DecidableEq, Repr

/-- `QuicStreamLayer` -/
structure Stream (σ : Type) where
  cid : Nat                 -- `_client_stream_id`
  sid : Option Nat          -- `_server_stream_id`
  cConn : Conn              -- `stream_layer.client.state`
  sConn : Conn              -- `stream_layer.server.state`
  cEnded : Bool             -- `client.timestamp_end is not None`
  sEnded : Bool
  child : σ

structure Next where
  n0 : Nat
  n1 : Nat
  n2 : Nat
  n3 : Nat
deriving DecidableEq, Repr

def Next.get (n : Next) (i : Nat) : Nat :=
  if i = 0 then n.n0 else if i = 1 then n.n1 else if i = 2 then n.n2 else n.n3

def Next.bump (n : Next) (i : Nat) : Next :=
  if i = 0 then { n with n0 := n.n0 + 4 } else if i = 1 then { n with n1 := n.n1 + 4 }
  else if i = 2 then { n with n2 := n.n2 + 4 } else { n with n3 := n.n3 + 4 }

/-- `get_next_available_stream_id`: index `(is_unidirectional << 1) | (not is_client)` -/
def allocIndex (isClient uni : Bool) : Nat := (if uni then 2 else 0) + (if isClient then 0 else 1)

structure Mux (σ : Type) where
  streams : List (Stream σ)       -- in creation order (= order of the entries of `connections`)
  next : Next                     -- `next_stream_id`
  client : Conn                   -- `context.client.state`
  server : Conn
  done : Bool                     -- `_handle_event = done`
  started : Bool
  dgram : σ

def Mux.init (ops : ChildOps σ) : Mux σ :=
  { streams := [], next := ⟨0, 1, 2, 3⟩, client := .opened, server := .opened, done := false, started := false,
    dgram := ops.mkDgram }

/-- state while the commands of one child are being translated -/
structure TS (σ : Type) where
  s : Stream σ
  next : Next
  out : List QOut
  halt : Bool            -- an assertion failed: the generator is dead, nothing further happens in this call

def TS.push (ts : TS σ) (o : QOut) : TS σ := { ts with out := ts.out ++ [o] }
def TS.fail (ts : TS σ) : TS σ := { ts with out := ts.out ++ [.fault], halt := true }

def Stream.conn (s : Stream σ) : Side → Conn
  | .client => s.cConn
  | .server => s.sConn
def Stream.setConn (s : Stream σ) (side : Side) (c : Conn) : Stream σ :=
  match side with
  | .client => { s with cConn := c }
  | .server => { s with sConn := c }
def Stream.ended (s : Stream σ) : Side → Bool
  | .client => s.cEnded
  | .server => s.sEnded
def Stream.setEnded (s : Stream σ) (side : Side) : Stream σ :=
  match side with
  | .client => { s with cEnded := true }
  | .server => { s with sEnded := true }
/-- `child_layer.stream_id(to_client)` -/
def Stream.idOf (s : Stream σ) : Side → Option Nat
  | .client => some s.cid
  | .server => s.sid

def toClient (side : Side) : Bool := side == .client

/-- `open_server_stream`: state of the server side of a stream with id `id` -/
def serverConnFor (id : Nat) : Conn :=
  if isUni id then (if isClientInit id then ⟨false, true⟩ else ⟨true, false⟩) else .opened
/-- `QuicStreamLayer.__init__`: state of the client side -/
def clientConnFor (id : Nat) : Conn :=
  if isUni id then (if isClientInit id then ⟨true, false⟩ else ⟨false, true⟩) else .opened

/-- `close_stream_layer`: close the incoming half, tell the child once (`rec` translates what it answers) -/
def closeStreamLayer (ops : ChildOps σ) (rec : TS σ → List C29.Output → TS σ) (ts : TS σ) (side : Side) : TS σ :=
  if ts.halt then ts else
  let c := ts.s.conn side
  let ts := { ts with s := ts.s.setConn side { c with canRead := false } }
  if ts.s.idOf side = none then ts.fail         -- `assert conn.timestamp_start is not None`
  else if ts.s.ended side then ts
  else
    let ts := { ts with s := ts.s.setEnded side }
    let r := ops.step ts.s.child ts.s.cConn ts.s.sConn (.closed side false)
    rec { ts with s := { ts.s with child := r.1 } } r.2

/-- one command of a stream's child inside `event_to_child` -/
def procOne (ops : ChildOps σ) (rec : TS σ → List C29.Output → TS σ) (ts : TS σ) (o : C29.Output) : TS σ :=
  if ts.halt then ts else
  match o with
  | .hook h => ts.push (.hook (some ts.s.cid) h)
  | .send to d =>
    match ts.s.idOf to with
    | none => ts.fail                                     -- `assert stream_id is not None`
    | some id =>
      if (ts.s.conn to).canWrite then ts.push (.data (toClient to) id d false) else ts
  | .close to half =>
    match ts.s.idOf to with
    | none => ts.fail
    | some id =>
      let ts :=
        if (ts.s.conn to).canWrite then
          ({ ts with s := ts.s.setConn to { ts.s.conn to with canWrite := false } } : TS σ).push
            (.data (toClient to) id [] true)
        else ts
      if half then ts
      else
        let ts := if isClientInit id == toClient to || !isUni id then ts.push (.stop (toClient to) id) else ts
        closeStreamLayer ops rec ts to
  | .openServer =>
    match ts.s.sid with
    | some _ => ts.fail                                   -- `assert stream_id is None`
    | none =>
      let i := allocIndex true (isUni ts.s.cid)
      let id := ts.next.get i
      let s := { ts.s with sid := some id, sConn := serverConnFor id }
      let r := ops.step s.child s.cConn s.sConn (.connectDone false)
      rec { ts with s := { s with child := r.1 }, next := ts.next.bump i } r.2

/-- `event_to_child` for a stream layer: translate the child's commands in order; nested events
    (connect reply, ConnectionClosed after a full close) recurse with one unit less fuel -/
def translate (ops : ChildOps σ) : Nat → TS σ → List C29.Output → TS σ
  | 0, ts, [] => ts
  | 0, ts, _ :: _ => if ts.halt then ts else ts.fail
  | fuel + 1, ts, outs => outs.foldl (procOne ops (translate ops fuel)) ts

def FUEL : Nat := 8

def eventToChild (ops : ChildOps σ) (ts : TS σ) (i : C29.Input) : TS σ :=
  if ts.halt then ts else
  let r := ops.step ts.s.child ts.s.cConn ts.s.sConn i
  translate ops FUEL { ts with s := { ts.s with child := r.1 } } r.2

def closeLayer (ops : ChildOps σ) (ts : TS σ) (side : Side) : TS σ :=
  closeStreamLayer ops (translate ops FUEL) ts side

inductive QIn
  | start
  | streamData (fromClient : Bool) (id : Nat) (d : Bytes) (fin : Bool)     -- QuicStreamDataReceived
  | streamReset (fromClient : Bool) (id : Nat) (code : Nat)                -- QuicStreamReset
  | connClosed (fromClient : Bool) (code : Nat)                            -- QuicConnectionClosed (state already CLOSED)
  | hookDone (target : Option Nat) (edit : Option Bytes)                   -- CommandCompleted routed via `command_sources`
  | dgram (fromClient : Bool) (d : Bytes)                                  -- DataReceived on the QUIC connection itself
deriving DecidableEq, Repr

def sideOf (fromClient : Bool) : Side := if fromClient then .client else .server

/-- index of the layer registered for `id` on that side -/
def Mux.find (m : Mux σ) (fromClient : Bool) (id : Nat) : Option Nat :=
  m.streams.findIdx? fun s => if fromClient then s.cid == id else s.sid == some id

/-- "preserve stream resets": an empty FIN towards the other side's stream id becomes a reset -/
def resetMap (otherId : Option Nat) (code : Nat) : QOut → QOut
  | .data tc id d fin =>
    if some id = otherId ∧ fin = true ∧ d = [] then .reset tc id code else .data tc id d fin
  | o => o

/-- connection close: "swallow empty stream end" -/
def keepOnConnClose : QOut → Bool
  | .data _ _ d _ => !d.isEmpty
  | _ => true

/-- commands of the datagram layer pass through untranslated -/
def passDgram (o : C29.Output) : QOut :=
  match o with
  | .hook h => .hook none h
  | o => .dgram o

/-- `server.py` executes a `CloseConnection` on one of the two QUIC connections -/
def dgramEffect (m : Mux σ) (o : C29.Output) : Mux σ :=
  match o with
  | .close .client half => { m with client := C29.applyClose m.client half false }
  | .close .server half => { m with server := C29.applyClose m.server half false }
  | _ => m

def applyDgramEffects (m : Mux σ) (outs : List C29.Output) : Mux σ := outs.foldl dgramEffect m

def dgramEvent (ops : ChildOps σ) (m : Mux σ) (i : C29.Input) (drop : C29.Output → Bool) : Mux σ × List QOut :=
  let r := ops.step m.dgram m.client m.server i
  let outs := r.2.filter (fun o => !drop o)
  (applyDgramEffects { m with dgram := r.1 } outs, outs.map passDgram)

/-- run `body` on the stream layer at index `i`, write the result back -/
def Mux.withStream (m : Mux σ) (i : Nat) (s : Stream σ) (body : TS σ → TS σ) : Mux σ × List QOut :=
  let ts := body { s := s, next := m.next, out := [], halt := false }
  ({ m with streams := m.streams.set i ts.s, next := ts.next }, ts.out)

/-- stream event: fetch or create the layer, then `body` -/
def streamEvent (ops : ChildOps σ) (m : Mux σ) (fromClient : Bool) (id : Nat) (body : TS σ → TS σ) :
    Mux σ × List QOut :=
  match m.find fromClient id with
  | some i =>
    match m.streams[i]? with
    | some s => m.withStream i s body
    | none => (m, [.fault])
  | none =>
    if isClientInit id != fromClient then (m, [.fault])        -- "ensure we haven't just forgotten to register the ID"
    else
      let idx := allocIndex false (isUni id)
      let cid := if fromClient then id else m.next.get idx
      let next := if fromClient then m.next else m.next.bump idx
      let s : Stream σ :=
        { cid, sid := if fromClient then none else some id,
          cConn := clientConnFor cid, sConn := if fromClient then .shut else serverConnFor id,
          cEnded := false, sEnded := false, child := ops.mkStream (!fromClient) }
      let m := { m with streams := m.streams ++ [s], next }
      m.withStream (m.streams.length - 1) s fun ts => body (eventToChild ops ts .start)

/-- the per-stream part of the connection-close fan-out; stops at the first failed assertion -/
def fanOut (ops : ChildOps σ) (side : Side) : List (Stream σ) → Next → Bool → List (Stream σ) × Next × List QOut × Bool
  | [], next, halt => ([], next, [], halt)
  | s :: rest, next, halt =>
    if halt then (s :: rest, next, [], true)
    else
      let s := s.setConn side { s.conn side with canWrite := false }
      let ts := closeLayer ops { s := s, next := next, out := [], halt := false } side
      let r := fanOut ops side rest ts.next ts.halt
      (ts.s :: r.1, r.2.1, ts.out.filter keepOnConnClose ++ r.2.2.1, r.2.2.2)

/-- `QuicConnectionClosed`, first part: the state of the closed connection (set by the QUIC layer underneath),
    `CloseQuicConnection` for the other side if that is still connected, else "be done" -/
def connClosedPre (m : Mux σ) (fc : Bool) (code : Nat) : Mux σ × List QOut :=
  let m := if fc then { m with client := .shut } else { m with server := .shut }
  let other := if fc then m.server else m.client
  if other.canRead && other.canWrite then (m, [.closeQuic (!fc) code]) else ({ m with done := true }, [])

def step (ops : ChildOps σ) (m : Mux σ) (i : QIn) : Mux σ × List QOut :=
  if m.done then (m, []) else
  match i with
  | .start =>
    if m.started then (m, [])
    else dgramEvent ops { m with started := true } .start (fun _ => false)
  | .dgram fc d => dgramEvent ops m (.data (sideOf fc) d) (fun _ => false)
  | .hookDone none edit => dgramEvent ops m (.hookDone edit) (fun _ => false)
  | .hookDone (some cid) edit =>
    match m.find true cid with
    | some i =>
      match m.streams[i]? with
      | some s => m.withStream i s fun ts => eventToChild ops ts (.hookDone edit)
      | none => (m, [.fault])
    | none => (m, [.fault])
  | .streamData fc id d fin =>
    streamEvent ops m fc id fun ts =>
      let ts := if d.isEmpty then ts else eventToChild ops ts (.data (sideOf fc) d)
      if fin then closeLayer ops ts (sideOf fc) else ts
  | .streamReset fc id code =>
    streamEvent ops m fc id fun ts =>
      let ts' := closeLayer ops { ts with out := [] } (sideOf fc)
      { ts' with out := ts.out ++ ts'.out.map (resetMap (ts'.s.idOf (sideOf fc).other) code) }
  | .connClosed fc code =>
    let side := sideOf fc
    let p := connClosedPre m fc code
    -- "always forward to the datagram layer and swallow CloseConnection commands" (for the other connection)
    let r := dgramEvent ops p.1 (.closed side true)
      (fun o => match o with | .close c _ => c == side.other | _ => false)
    let f := fanOut ops side r.1.streams r.1.next false
    ({ r.1 with streams := f.1, next := f.2.1 }, p.2 ++ r.2 ++ f.2.2.1)

def run (ops : ChildOps σ) (m : Mux σ) (is : List QIn) : Mux σ × List QOut :=
  is.foldl (fun (acc : Mux σ × List QOut) i => let r := step ops acc.1 i; (r.1, acc.2 ++ r.2)) (m, [])

/-! ### the layer's own `OpenConnection` on `Start`

  `RawQuicLayer._handle_event(Start)`: if the server connection is not up yet (`timestamp_start is None`) the layer
  yields a blocking `OpenConnection(context.server)`: `Layer.handle_event` pauses the layer and buffers every event that
  arrives meanwhile; the reply resumes the generator (error: `CloseConnection(client)`, be done; success: forward
  `Start` to the datagram layer) and then replays the buffered events in order (`Layer.__continue`). -/

structure MuxQ (σ : Type) where
  m : Mux σ
  needConnect : Bool          -- `context.server.timestamp_start is None`
  waiting : Bool              -- `_paused` on the layer's own OpenConnection
  q : List QIn                -- `_paused_event_queue`

inductive QInQ
  | ev (i : QIn)
  | connectDone (err : Bool)  -- `OpenConnectionCompleted` for the layer's own command
deriving DecidableEq, Repr

def MuxQ.init (ops : ChildOps σ) (connected : Bool) : MuxQ σ :=
  { m := if connected then Mux.init ops else { Mux.init ops with server := .shut },
    needConnect := !connected, waiting := false, q := [] }

/-- `Layer.__continue`: the buffered events one by one; an AssertionError kills the generator, what is still in the
    queue then stays there for good (the layer never pauses again) -/
def replay (ops : ChildOps σ) (m : Mux σ) : List QIn → Mux σ × List QOut
  | [] => (m, [])
  | i :: t =>
    let r := step ops m i
    if r.2.contains .fault then r
    else
      let r' := replay ops r.1 t
      (r'.1, r.2 ++ r'.2)

def stepQ (ops : ChildOps σ) (mq : MuxQ σ) (x : QInQ) : MuxQ σ × List QOut :=
  match x with
  | .ev i =>
    if mq.waiting then ({ mq with q := mq.q ++ [i] }, [])
    else if mq.needConnect && (i == .start) && !mq.m.done then
      ({ mq with needConnect := false, waiting := true }, [.dgram .openServer])
    else
      let r := step ops mq.m i
      ({ mq with m := r.1 }, r.2)
  | .connectDone err =>
    if !mq.waiting then (mq, [])
    else if err then
      ({ mq with m := { mq.m with done := true }, waiting := false, q := [] }, [.dgram (.close .client false)])
    else
      -- the socket is up; resume `Start`, then `__continue` replays the buffered events one by one
      let r := replay ops { mq.m with server := .opened } (.start :: mq.q)
      ({ mq with m := r.1, waiting := false, q := [] }, r.2)

def runQ (ops : ChildOps σ) (mq : MuxQ σ) (xs : List QInQ) : MuxQ σ × List QOut :=
  xs.foldl (fun (acc : MuxQ σ × List QOut) x => let r := stepQ ops acc.1 x; (r.1, acc.2 ++ r.2)) (mq, [])

/-! ### the concrete child: the C29 relay model -/

def relayOps : ChildOps C29.State where
  mkStream connected := C29.init .tcp true connected
  mkDgram := C29.init .udp true true
  step st c s i :=
    let st' := C29.step { st with client := c, server := s, connectAs := s, trace := [] } i
    ({ st' with trace := [] }, st'.trace)

end MitmVerif.C30
