/-
  C31 — Content-Encoding round-trips and the codec cache is transparent.

  Model of `mitmproxy/net/encoding.py` (`decode`, `encode`, the shared single-entry `_cache`) and of
  `mitmproxy/http.py` `Message.set_content / get_content / decode / encode`.

  The compression libraries cannot run here: every step function receives, from outside, the *uncached*
  result `fresh` of the one codec call the operation may make (`custom_decode[c](x)` / `codecs.decode`,
  resp. `…encode…`).  `need` names that call; for the theorems `Codecs` packages the uncached library
  behaviour as a parameter with laws (structure fields — hypotheses, never axioms) and `run` instantiates
  `fresh` with it.  The driver (`Driver/C31.lean`) feeds the `fresh` values observed on the real code.

  Coding names are ASCII byte strings; `str.lower()` is `asciiLower`.
-/
import MitmVerif.Basic.Bytes
import MitmVerif.Gen.C31
namespace MitmVerif.C31
open MitmVerif.Gen.C31

/-- outcome of a call: bytes / a `str` came back / ValueError / TypeError / `None` / setter finished -/
inductive Res
  | ok (b : Bytes) | str | verr | terr | nil | done
  deriving DecidableEq, Repr

inductive Kind
  | identity | cached | pybytes | pytext | unknown
  deriving DecidableEq, Repr

/-- classification of a *lower-cased* coding name (tables generated from the live source) -/
def kindOf (n : Bytes) : Kind :=
  if identityDec.contains n && identityEnc.contains n then .identity
  else if cachedDec.contains n && cachedEnc.contains n && customDec.contains n && customEnc.contains n then .cached
  else if pyBytes.contains n then .pybytes
  else if pyText.contains n then .pytext
  else .unknown

/-- `CachedDecode(encoded, encoding, errors, decoded)`; the initial all-`None` tuple is `none` -/
structure Entry where
  encoded : Bytes
  coding : Bytes
  errors : Bytes
  decoded : Bytes
  deriving DecidableEq, Repr

abbrev Cache := Option Entry

def strictB : Bytes := [0x73, 0x74, 0x72, 0x69, 0x63, 0x74]                 -- "strict"
def identityB : Bytes := [0x69, 0x64, 0x65, 0x6e, 0x74, 0x69, 0x74, 0x79]   -- "identity"

/-- `_cache.encoded == encoded and _cache.encoding == encoding and _cache.errors == errors` -/
def decHit (c : Cache) (encoded n errors : Bytes) : Option Bytes :=
  match c with
  | some e => if e.encoded = encoded ∧ e.coding = n ∧ e.errors = errors then some e.decoded else none
  | none => none

/-- `_cache.decoded == decoded and _cache.encoding == encoding and _cache.errors == errors` -/
def encHit (c : Cache) (decoded n errors : Bytes) : Option Bytes :=
  match c with
  | some e => if e.decoded = decoded ∧ e.coding = n ∧ e.errors = errors then some e.encoded else none
  | none => none

/-- `encoding.decode(encoded, coding, errors)`; `fresh` = uncached codec result (unused for identity names) -/
def decodeStep (c : Cache) (encoded coding errors : Bytes) (fresh : Res) : Res × Cache :=
  let n := asciiLower coding
  match decHit c encoded n errors with
  | some d => (.ok d, c)
  | none =>
    let r := if identityDec.contains n then Res.ok encoded else fresh
    (r, match r with
        | .ok d => if cachedDec.contains n then some ⟨encoded, n, errors, d⟩ else c
        | _ => c)

/-- `encoding.encode(decoded, coding, errors)` -/
def encodeStep (c : Cache) (decoded coding errors : Bytes) (fresh : Res) : Res × Cache :=
  let n := asciiLower coding
  match encHit c decoded n errors with
  | some x => (.ok x, c)
  | none =>
    let r := if identityEnc.contains n then Res.ok decoded else fresh
    (r, match r with
        | .ok x => if cachedEnc.contains n then some ⟨x, n, errors, decoded⟩ else c
        | _ => c)

/-- `Message.trailers`: `None` / an empty `Headers()` (falsy) / non-empty trailers (truthy) -/
inductive Trailers
  | absent | empty | nonEmpty
  deriving DecidableEq, Repr

/-- `Message.http_version`: "HTTP/1.1" / "HTTP/2.0" / "HTTP/3" -/
inductive Version
  | h11 | h2 | h3
  deriving DecidableEq, Repr

/-- the part of a message the property talks about. `ce` = Content-Encoding header value as given,
    `te` = a Transfer-Encoding header is present, `cl = some n` = Content-Length header is `str(n)` -/
structure Msg where
  raw : Option Bytes
  ce : Option Bytes
  te : Bool
  cl : Option Nat
  /-- trailers and HTTP version are part of the message state; NOTHING in set_content / get_content / decode / encode
      reads them (in particular the Content-Length rule looks at the Transfer-Encoding header only) -/
  tr : Trailers
  ver : Version
  deriving DecidableEq, Repr

/-- `ce or "identity"` -/
def ceOrIdentity (ce : Option Bytes) : Bytes :=
  match ce with
  | some x => if x.isEmpty then identityB else x
  | none => identityB

/-- `if "transfer-encoding" in headers: pass  else: headers["content-length"] = str(len(raw_content))` -/
def fixLen (m : Msg) : Msg :=
  if m.te then m else { m with cl := m.raw.map List.length }

/-- `Message.set_content(value)` -/
def setContent (c : Cache) (m : Msg) (v : Option Bytes) (fresh : Res) : Res × Cache × Msg :=
  match v with
  | none => (.done, c, { m with raw := none })
  | some v =>
    match encodeStep c v (ceOrIdentity m.ce) strictB fresh with
    | (.ok x, c') => (.done, c', fixLen { m with raw := some x })
    | (.verr, c') => (.done, c', fixLen { m with raw := some v, ce := none })   -- invalid coding: header removed
    | (_, c') => (.terr, c', m)   -- TypeError escapes, message untouched (an encode call never yields str/None)

/-- `Message.get_content(strict)` -/
def getContent (c : Cache) (m : Msg) (strict : Bool) (fresh : Res) : Res × Cache :=
  match m.raw with
  | none => (.nil, c)
  | some raw =>
    match m.ce with
    | none => (.ok raw, c)
    | some ce =>
      if ce.isEmpty then (.ok raw, c)
      else match decodeStep c raw ce strictB fresh with
        | (.ok d, c') => (.ok d, c')
        | (.str, c') => if strict then (.verr, c') else (.ok raw, c')            -- "Invalid Content-Encoding"
        | (.verr, c') => if strict then (.verr, c') else (.ok raw, c')
        | (_, c') => (.terr, c')            -- TypeError escapes (a decode call never yields None / nothing)

/-- `Message.decode(strict)` -/
def msgDecode (c : Cache) (m : Msg) (strict : Bool) (fresh : Res) : Res × Cache × Msg :=
  match m.raw with
  | none => (.done, c, m)
  | some raw =>
    if raw.isEmpty then (.done, c, m)
    else match getContent c m strict fresh with
      | (.ok d, c') => setContent c' { m with ce := none } (some d) .verr       -- identity: no codec call
      | (r, c') => (r, c', m)

/-- `Message.encode(coding)` -/
def msgEncode (c : Cache) (m : Msg) (coding : Bytes) (fresh : Res) : Res × Cache × Msg :=
  match setContent c { m with ce := some coding } m.raw fresh with
  | (.done, c', m') => if m'.ce.isNone then (.verr, c', m') else (.done, c', m')
  | (r, c', m') => (r, c', m')

structure State where
  cache : Cache
  m0 : Msg
  m1 : Msg
  deriving DecidableEq, Repr

def emptyMsg : Msg := ⟨none, none, false, none, .absent, .h11⟩
def init : State := ⟨none, emptyMsg, emptyMsg⟩

def State.msg (s : State) (i : Bool) : Msg := if i then s.m1 else s.m0
def State.setMsg (s : State) (i : Bool) (m : Msg) : State := if i then { s with m1 := m } else { s with m0 := m }

inductive Op
  | dec (encoded coding errors : Bytes)
  | enc (decoded coding errors : Bytes)
  | setContent (i : Bool) (v : Option Bytes)
  | getContent (i : Bool) (strict : Bool)
  | mdecode (i : Bool) (strict : Bool)
  | mencode (i : Bool) (coding : Bytes)
  | setRaw (i : Bool) (v : Option Bytes)
  | setCe (i : Bool) (v : Option Bytes)
  | setTe (i : Bool) (on : Bool)
  | setCl (i : Bool) (n : Option Nat)
  | setTr (i : Bool) (t : Trailers)
  | setVer (i : Bool) (w : Version)
  deriving DecidableEq, Repr

/-- the one non-identity uncached codec call an op can make: (lower-cased name, errors, data) -/
inductive Need
  | no
  | dec (n errors data : Bytes)
  | enc (n errors data : Bytes)
  deriving DecidableEq, Repr

def needDec (coding errors data : Bytes) : Need :=
  let n := asciiLower coding
  if identityDec.contains n then .no else .dec n errors data

def needEnc (coding errors data : Bytes) : Need :=
  let n := asciiLower coding
  if identityEnc.contains n then .no else .enc n errors data

def needGet (m : Msg) : Need :=
  match m.raw, m.ce with
  | some raw, some ce => if ce.isEmpty then .no else needDec ce strictB raw
  | _, _ => .no

def need (s : State) : Op → Need
  | .dec x c e => needDec c e x
  | .enc d c e => needEnc c e d
  | .setContent i (some v) => needEnc (ceOrIdentity (s.msg i).ce) strictB v
  | .getContent i _ => needGet (s.msg i)
  | .mdecode i _ =>
    match (s.msg i).raw with
    | some raw => if raw.isEmpty then .no else needGet (s.msg i)
    | none => .no
  | .mencode i c =>
    match (s.msg i).raw with
    | some raw => needEnc (ceOrIdentity (some c)) strictB raw
    | none => .no
  | _ => .no

/-- one op on the whole state, given the uncached result of the call named by `need` -/
def stepWith (s : State) (op : Op) (fresh : Res) : State × Res :=
  match op with
  | .dec x c e => let (r, c') := decodeStep s.cache x c e fresh; ({ s with cache := c' }, r)
  | .enc d c e => let (r, c') := encodeStep s.cache d c e fresh; ({ s with cache := c' }, r)
  | .setContent i v =>
    let (r, c', m') := setContent s.cache (s.msg i) v fresh; (({ s with cache := c' }).setMsg i m', r)
  | .getContent i st => let (r, c') := getContent s.cache (s.msg i) st fresh; ({ s with cache := c' }, r)
  | .mdecode i st =>
    let (r, c', m') := msgDecode s.cache (s.msg i) st fresh; (({ s with cache := c' }).setMsg i m', r)
  | .mencode i cd =>
    let (r, c', m') := msgEncode s.cache (s.msg i) cd fresh; (({ s with cache := c' }).setMsg i m', r)
  | .setRaw i v => (s.setMsg i { s.msg i with raw := v }, .done)
  | .setCe i v => (s.setMsg i { s.msg i with ce := v }, .done)
  | .setTe i on => (s.setMsg i { s.msg i with te := on }, .done)
  | .setCl i n => (s.setMsg i { s.msg i with cl := n }, .done)
  | .setTr i t => (s.setMsg i { s.msg i with tr := t }, .done)
  | .setVer i w => (s.setMsg i { s.msg i with ver := w }, .done)

/-! ### the codec libraries as a parameter -/

/-- Uncached behaviour of the codec libraries (`custom_*code[n]`, else `codecs.*code(x, n, errors)`) on
    lower-cased names, plus a strict reference decoder.  The laws are what the property's own wording
    presupposes of the libraries; they are fields (hypotheses of every theorem), not axioms. -/
structure Codecs where
  enc : (n errors d : Bytes) → Res
  dec : (n errors x : Bytes) → Res
  ref : (n x : Bytes) → Option Bytes
  /-- compressing never fails -/
  enc_total : ∀ n e d, kindOf n = .cached → ∃ x, enc n e d = .ok x
  /-- the decoder inverts the encoder -/
  roundtrip : ∀ n e d x, kindOf n = .cached → enc n e d = .ok x → dec n e x = .ok d
  /-- `if not content: return b""` in every `decode_*` -/
  dec_empty : ∀ n e, kindOf n = .cached → dec n e [] = .ok []
  /-- the custom decoders return bytes or fail with a (wrapped) ValueError -/
  dec_shape : ∀ n e x, kindOf n = .cached → (∃ d, dec n e x = .ok d) ∨ dec n e x = .verr
  /-- LookupError → ValueError -/
  unknown_enc : ∀ n e d, kindOf n = .unknown → enc n e d = .verr
  unknown_dec : ∀ n e x, kindOf n = .unknown → dec n e x = .verr
  /-- the strict reference decoder accepts what the encoder emits … -/
  ref_enc : ∀ n e d x, kindOf n = .cached → enc n e d = .ok x → ref n x = some d
  /-- … and mitmproxy's lenient decoder extends it -/
  ref_dec : ∀ n e x d, kindOf n = .cached → ref n x = some d → dec n e x = .ok d

def freshOf (C : Codecs) (s : State) (op : Op) : Res :=
  match need s op with
  | .no => .verr
  | .dec n e x => C.dec n e x
  | .enc n e d => C.enc n e d

def step (C : Codecs) (s : State) (op : Op) : State × Res := stepWith s op (freshOf C s op)

/-- a call history from state `s`: final state and the list of results -/
def run (C : Codecs) (s : State) : List Op → State × List Res
  | [] => (s, [])
  | op :: ops =>
    let (s', r) := step C s op
    let (s'', rs) := run C s' ops
    (s'', r :: rs)

/-- the uncached answers (what a process with no history computes) -/
def uncachedDec (C : Codecs) (coding errors x : Bytes) : Res :=
  let n := asciiLower coding
  if identityDec.contains n then .ok x else C.dec n errors x

def uncachedEnc (C : Codecs) (coding errors d : Bytes) : Res :=
  let n := asciiLower coding
  if identityEnc.contains n then .ok d else C.enc n errors d

/-! ### a toy instance: the laws are satisfiable, and it carries the counterexample -/

/-- toy compressor: `enc d = 1 :: d`; the decoder also accepts the lenient-only forms `[]` and `2 :: d`,
    the strict reference decoder accepts `1 :: d` only. -/
def toyEnc (n _e d : Bytes) : Res :=
  match kindOf n with
  | .cached => .ok (1 :: d)
  | .pybytes => .ok d
  | .pytext => .terr
  | _ => .verr

def toyDecC (x : Bytes) : Res :=
  match x with
  | [] => .ok []
  | b :: d => if b = 1 ∨ b = 2 then .ok d else .verr

def toyDec (n _e x : Bytes) : Res :=
  match kindOf n with
  | .cached => toyDecC x
  | .pybytes => .ok x
  | .pytext => .str
  | _ => .verr

def toyRef (n x : Bytes) : Option Bytes :=
  match kindOf n, x with
  | .cached, b :: d => if b = 1 then some d else none
  | _, _ => none

def toy : Codecs where
  enc := toyEnc
  dec := toyDec
  ref := toyRef
  enc_total := by intro n e d h; exact ⟨1 :: d, by simp [toyEnc, h]⟩
  roundtrip := by
    intro n e d x h h2
    simp [toyEnc, h] at h2
    subst h2
    simp [toyDec, h, toyDecC]
  dec_empty := by intro n e h; simp [toyDec, h, toyDecC]
  dec_shape := by
    intro n e x h
    simp only [toyDec, h]
    cases x with
    | nil => left; exact ⟨[], rfl⟩
    | cons b d =>
      by_cases hb : b = 1 ∨ b = 2
      · left; exact ⟨d, by simp [toyDecC, hb]⟩
      · right; simp [toyDecC, hb]
  unknown_enc := by intro n e d h; simp [toyEnc, h]
  unknown_dec := by intro n e x h; simp [toyDec, h]
  ref_enc := by
    intro n e d x h h2
    simp [toyEnc, h] at h2
    subst h2
    simp [toyRef, h]
  ref_dec := by
    intro n e x d h h2
    cases x with
    | nil => simp [toyRef, h] at h2
    | cons b t =>
      simp only [toyRef, h] at h2
      by_cases hb : b = 1
      · simp [hb] at h2; subst h2; simp [toyDec, h, toyDecC, hb]
      · simp [hb] at h2

/-! ### vocabulary of the theorems (Props/C31.lean) -/

/-- invariant carried along every history: the cache entry belongs to a cached-kind coding and is a true
    statement about the *uncached* decoder -/
def Inv (C : Codecs) (c : Cache) : Prop :=
  ∀ e, c = some e → kindOf e.coding = .cached ∧ C.dec e.coding e.errors e.encoded = .ok e.decoded

/-- the stronger invariant that fails on the real code (F-C31a): the entry is accepted by the strict
    reference decoder -/
def InvRef (C : Codecs) (c : Cache) : Prop :=
  ∀ e, c = some e → kindOf e.coding = .cached ∧ C.ref e.coding e.encoded = some e.decoded

/-- the lower-cased coding a message's header stands for (`ce or "identity"`, then `.lower()`) -/
def effName (ce : Option Bytes) : Bytes := asciiLower (ceOrIdentity ce)

/-- codings the property statement speaks about: identity / a compressed coding / an unknown name -/
def OkName (n : Bytes) : Prop := kindOf n = .identity ∨ kindOf n = .cached ∨ kindOf n = .unknown

/-- **C31, sentence 2 at full strength** ("the raw body decodes to that content with independent
    decoders", for every history).  FALSE on the current code — finding F-C31a; see
    `raw_decodes_to_content_counterexample`, `…_partial`, `…_partial_hit`, `…_lenient`. -/
def RawDecodesToContent (C : Codecs) : Prop :=
  ∀ (s0 : State) (ops : List Op) (i : Bool) (v : Bytes), s0.cache = none →
    kindOf (effName (((run C s0 ops).1.msg i).ce)) = .cached →
    ∃ raw, ((step C (run C s0 ops).1 (.setContent i (some v))).1.msg i).raw = some raw ∧
      C.ref (effName (((run C s0 ops).1.msg i).ce)) raw = some v

/-- guard on one op: if it decodes a cached-kind coding successfully, the strict reference decoder
    accepts the same body with the same result (i.e. the decode was not lenient-only) -/
def strictOp (C : Codecs) (s : State) (op : Op) : Bool :=
  match need s op with
  | .dec n e x =>
    if kindOf n = .cached then
      match C.dec n e x with
      | .ok d => C.ref n x == some d
      | _ => true
    else true
  | _ => true

/-- decidable guard on a history: no op performs a lenient-only decode -/
def strictHist (C : Codecs) (s : State) : List Op → Bool
  | [] => true
  | op :: ops => strictOp C s op && strictHist C (step C s op).1 ops

/-- the exact defect class of F-C31a at the moment of an assignment: the encode is a cache hit on an
    entry the strict reference decoder does not map to the assigned content -/
def lenientHit (C : Codecs) (c : Cache) (v n : Bytes) : Bool :=
  match encHit c v n strictB with
  | some x => C.ref n x != some v
  | none => false

/-! ### round-3 vocabulary: cache-free reading of a message, which ops can write a message -/

/-- what `get_content(strict)` yields on message `m` in a process with NO history (no cache at all) -/
def contentOf (C : Codecs) (m : Msg) (strict : Bool) : Res :=
  match m.raw with
  | none => .nil
  | some raw =>
    match m.ce with
    | none => .ok raw
    | some ce =>
      if ce.isEmpty then .ok raw
      else match uncachedDec C ce strictB raw with
        | .ok d => .ok d
        | .str => if strict then .verr else .ok raw
        | .verr => if strict then .verr else .ok raw
        | _ => .terr

/-- `writes j op`: the op is a setter / `Message.decode` / `Message.encode` / mutator of message `j`.
    Everything else (module-level `encoding.decode/encode`, any `get_content`, every op on the other message)
    can reach message `j` only through the shared cache. -/
def Op.writes (j : Bool) : Op → Bool
  | .dec _ _ _ => false
  | .enc _ _ _ => false
  | .getContent _ _ => false
  | .setContent i _ => i == j
  | .mdecode i _ => i == j
  | .mencode i _ => i == j
  | .setRaw i _ => i == j
  | .setCe i _ => i == j
  | .setTe i _ => i == j
  | .setCl i _ => i == j
  | .setTr i _ => i == j
  | .setVer i _ => i == j

/-- `op` is a content assignment on message `i` that ran to completion in state `s`:
    `set_content(bytes)` finished; `Message.decode` on a non-empty body finished; `Message.encode` on a present
    body did not let a TypeError escape (it may report ValueError for an unknown coding — the body is stored then) -/
def completesAssign (C : Codecs) (s : State) (i : Bool) : Op → Prop
  | .setContent j (some v) => j = i ∧ (step C s (.setContent j (some v))).2 = .done
  | .mdecode j st => j = i ∧ (∃ r, (s.msg i).raw = some r ∧ r.isEmpty = false) ∧ (step C s (.mdecode j st)).2 = .done
  | .mencode j cd => j = i ∧ (∃ r, (s.msg i).raw = some r) ∧ (step C s (.mencode j cd)).2 ≠ .terr
  | _ => False

/-! ### round 5: trailers / HTTP version are carried by the message state and read by nothing -/

/-- the message with trailers and version blanked -/
def Msg.core (m : Msg) : Msg := { m with tr := .absent, ver := .h11 }
def State.core (s : State) : State := { s with m0 := s.m0.core, m1 := s.m1.core }

/-- the op is the trailers / version mutator of message `j` -/
def Op.setsMeta (j : Bool) : Op → Bool
  | .setTr i _ => i == j
  | .setVer i _ => i == j
  | _ => false

/-! ### deepening round 5: mitmproxy's OWN decoder functions transcribed; the libraries shrink to `Lib` -/

/-- the function a `custom_decode` entry is bound to (table `decodeFn` generated from `f.__name__`) -/
inductive DecFn
  | identity | gzip | deflate | brotli | zstd
  deriving DecidableEq, Repr

def decFnOfCode : Nat → Option DecFn
  | 0 => some .identity
  | 1 => some .gzip
  | 2 => some .deflate
  | 3 => some .brotli
  | 4 => some .zstd
  | _ => none

/-- `custom_decode[n]` for a lower-cased name (none = KeyError, the `codecs` module is asked instead) -/
def decFnOf (n : Bytes) : Option DecFn := (decodeFn.lookup n).bind decFnOfCode

/-- mitmproxy's `identity` / `decode_gzip` / `decode_deflate` / `decode_brotli` / `decode_zstd`, given the outcome of
    the library calls they make on `x` (`none` = the library raised):
    `lib1` = `zlib.decompressobj(47)` resp. `zlib.decompress(x)` / `brotli.decompress(x)` / `zstd.decompress(x)`,
    `lib2` = `zlib.decompress(x, -15)` (only `decode_deflate` falls back to it).
    Transcribed: `if not content: return b""` in all four, the `try … except zlib.error: <raw deflate>` of
    `decode_deflate`; a library error surfaces as ValueError (`verr`). -/
def ownDecodeWith (fn : DecFn) (x : Bytes) (lib1 lib2 : Option Bytes) : Res :=
  match fn with
  | .identity => .ok x
  | .deflate =>
    if x.isEmpty then .ok []
    else match lib1 with
      | some d => .ok d
      | none => match lib2 with
        | some d => .ok d
        | none => .verr
  | _ =>
    if x.isEmpty then .ok []
    else match lib1 with
      | some d => .ok d
      | none => .verr

/-- the compression libraries proper (zlib / brotli / zstd), per lower-cased coding name: a total compressor, the
    decoder call mitmproxy's wrapper makes, and raw-deflate inflation.  Two laws only. -/
structure Lib where
  compress : (n d : Bytes) → Bytes
  decompress : (n x : Bytes) → Option Bytes
  inflateRaw : Bytes → Option Bytes
  /-- the library decoder inverts the library encoder -/
  roundtrip : ∀ n d, decompress n (compress n d) = some d
  /-- a library decoder that accepts the empty input yields the empty output -/
  decompress_empty : ∀ n d, decompress n [] = some d → d = []

/-- uncached `custom_decode[n](x)` over a library -/
def ownDecode (L : Lib) (n x : Bytes) : Res :=
  match decFnOf n with
  | some fn => ownDecodeWith fn x (L.decompress n x) (L.inflateRaw x)
  | none => .verr

/-- Python's `codecs` registry, asked for every name without a custom codec -/
structure PyReg where
  enc : (n e d : Bytes) → Res
  dec : (n e x : Bytes) → Res
  unknown_enc : ∀ n e d, kindOf n = .unknown → enc n e d = .verr
  unknown_dec : ∀ n e x, kindOf n = .unknown → dec n e x = .verr

/-- toy library: `compress d = 1 :: d`, strict `decompress (1 :: d) = d`, raw inflation accepts `2 :: d` -/
def toyLib : Lib where
  compress := fun _ d => 1 :: d
  decompress := fun _ x => match x with | b :: d => if b = 1 then some d else none | [] => none
  inflateRaw := fun x => match x with | b :: d => if b = 2 then some d else none | [] => none
  roundtrip := by intro n d; simp
  decompress_empty := by intro n d h; simp at h

def toyPy : PyReg where
  enc := fun n _ d => match kindOf n with | .pybytes => .ok d | .pytext => .terr | _ => .verr
  dec := fun n _ x => match kindOf n with | .pybytes => .ok x | .pytext => .str | _ => .verr
  unknown_enc := by intro n e d h; simp [h]
  unknown_dec := by intro n e x h; simp [h]

/-- `contentOf` with the uncached decoder result supplied from outside (`fresh` = `custom_decode[ce.lower()](raw)` resp.
    `codecs.decode`; unused for identity names, empty / absent headers and a missing body) — the form the driver can
    run; `contentOf_eq_with` (Props) identifies the two -/
def contentOfWith (m : Msg) (strict : Bool) (fresh : Res) : Res :=
  match m.raw with
  | none => .nil
  | some raw =>
    match m.ce with
    | none => .ok raw
    | some ce =>
      if ce.isEmpty then .ok raw
      else match (if identityDec.contains (asciiLower ce) then Res.ok raw else fresh) with
        | .ok d => .ok d
        | .str => if strict then .verr else .ok raw
        | .verr => if strict then .verr else .ok raw
        | _ => .terr

/-! ### round 6 (owner fixes): the clause "no result ever depends on earlier calls" at BYTE level, for encode results -/

/-- **C31, sentence 5 read byte-wise for `encoding.encode`**: in every reachable state the result equals what a process
    without history returns.  FALSE on the current code and in the model — by design of the cache (it hands back the
    peer's original bytes when the content is re-encoded unchanged); see `encode_history_independent_counterexample`.
    Proved: the results are equal UP TO WHAT THEY DECODE TO (`encode_history_independent_partial` =
    `encode_semantically_transparent`) and byte-wise unless the call is a cache hit on a non-canonical entry
    (`encode_bytes_history_independent_partial_hit`, `…_partial`). -/
def EncodeHistoryIndependent (C : Codecs) : Prop :=
  ∀ (s0 : State) (ops : List Op) (d c e : Bytes), s0.cache = none →
    (step C (run C s0 ops).1 (.enc d c e)).2 = uncachedEnc C c e d

/-- **the same for the raw body stored by an assignment** (`set_content(bytes)`, `Message.encode`): the raw body after
    the op equals the raw body after the same op on the same message state with an EMPTY cache.  FALSE by design, see
    `stored_raw_history_independent_counterexample`; proved up to meaning (`raw_decodes_to_content_lenient`,
    `set_get_content`) and byte-wise outside non-canonical hits (`stored_raw_history_independent_partial_hit`). -/
def StoredRawHistoryIndependent (C : Codecs) : Prop :=
  ∀ (s0 : State) (ops : List Op) (i : Bool), s0.cache = none →
    (∀ v : Bytes,
      ((step C (run C s0 ops).1 (.setContent i (some v))).1.msg i).raw =
      ((step C { (run C s0 ops).1 with cache := none } (.setContent i (some v))).1.msg i).raw) ∧
    (∀ cd : Bytes,
      ((step C (run C s0 ops).1 (.mencode i cd)).1.msg i).raw =
      ((step C { (run C s0 ops).1 with cache := none } (.mencode i cd)).1.msg i).raw)

/-- the call `encode(d, n, e)` is a cache hit whose entry does NOT hold the bytes the uncached encoder produces for `d`
    (such an entry can only have been made by a decode of a non-canonical — e.g. differently compressed — body) -/
def nonCanonicalHit (C : Codecs) (c : Cache) (d n e : Bytes) : Bool :=
  match encHit c d n e with
  | some x => C.enc n e d != .ok x
  | none => false

/-- guard on one op: a successful decode of a compressed coding was of the canonical bytes (what the encoder emits) -/
def canonOp (C : Codecs) (s : State) (op : Op) : Bool :=
  match need s op with
  | .dec n e x =>
    if kindOf n = .cached then
      match C.dec n e x with
      | .ok d => C.enc n e d == .ok x
      | _ => true
    else true
  | _ => true

/-- decidable guard on a history: every decoded body was canonical -/
def canonHist (C : Codecs) (s : State) : List Op → Bool
  | [] => true
  | op :: ops => canonOp C s op && canonHist C (step C s op).1 ops

/-- a second library instance, with `decompress [] = some []` (the law `decompress_empty` is not vacuous on it):
    the identity "compressor" -/
def idLib : Lib where
  compress := fun _ d => d
  decompress := fun _ x => some x
  inflateRaw := fun _ => none
  roundtrip := by intro n d; rfl
  decompress_empty := by intro n d h; cases h; rfl

/-- `lenientHit` / `nonCanonicalHit` with the one library value they consult supplied from outside (the strict reference
    decoder's verdict on the cache entry's bytes, resp. the uncached encoder's result) — the forms the driver runs before
    every assignment / encode; `lenientHit_eq_with` and `nonCanonicalHit_eq_with` (Props) identify them -/
def lenientHitWith (c : Cache) (v n : Bytes) (refOfEntry : Option Bytes) : Bool :=
  match encHit c v n strictB with
  | some _ => refOfEntry != some v
  | none => false

def nonCanonicalHitWith (c : Cache) (d n e : Bytes) (enc : Res) : Bool :=
  match encHit c d n e with
  | some x => enc != .ok x
  | none => false

end MitmVerif.C31
