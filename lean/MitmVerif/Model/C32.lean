/-
  C32 — message text round-trips for every content type.
  Model of `mitmproxy.net.http.headers.parse_content_type / assemble_content_type / infer_content_encoding`
  (with the three in-body regex scanners transcribed) and of `mitmproxy.http.Message.set_text / get_text`.
  Python `str`s (content type, codec names) are lists of code points; bodies are byte lists; the text itself is an
  abstract type `τ` that only the codecs look into.  The codecs (`encoding.encode/decode`, utf-8/surrogateescape) are
  parameters (`Lib`).  `str.isspace()` comes from the generated table `Gen.C32.pySpace`; `str.lower()` is the generated per-character
  table `Gen.C32.pyLower` (exact for strings without GREEK CAPITAL SIGMA).
-/
import MitmVerif.Basic.Bytes
import MitmVerif.Gen.C32
namespace MitmVerif.C32

abbrev Str := List Nat

def S (s : String) : Str := s.toList.map Char.toNat

def isSpace (c : Nat) : Bool := Gen.C32.pySpace.contains c
def lstrip (s : Str) : Str := s.dropWhile isSpace
def rstrip (s : Str) : Str := (s.reverse.dropWhile isSpace).reverse
def strip (s : Str) : Str := rstrip (lstrip s)

/-- `chr(c).lower()`: ASCII directly, everything else from the generated table -/
def lowerC (c : Nat) : List Nat :=
  if c < 128 then [if 65 ≤ c ∧ c ≤ 90 then c + 32 else c]
  else match Gen.C32.pyLower.find? (fun e => e.1 == c) with
    | some e => e.2
    | none => [c]
/-- `str.lower()` (character by character; exact for strings without U+03A3, whose final-sigma rule depends on the context) -/
def lower (s : Str) : Str := s.flatMap lowerC

/-- `s.split(c, 1)`: the part before the first `c`, and the part after it if there is one -/
def split1 (c : Nat) : Str → Str × Option Str
  | [] => ([], none)
  | x :: r => if x = c then ([], some r) else ((x :: (split1 c r).1), (split1 c r).2)

/-- `s.split(c)` -/
def splitAll (c : Nat) : Str → List Str
  | [] => [[]]
  | x :: r => if x = c then [] :: splitAll c r else (x :: (splitAll c r).headD []) :: (splitAll c r).tail

/-- `needle in s` -/
def hasSub (n : Str) : Str → Bool
  | [] => n.isEmpty
  | x :: r => n.isPrefixOf (x :: r) || hasSub n r

/-! ### the parameter dictionary (an OrderedDict: insertion order, unique keys) -/
abbrev Dict := List (Str × Str)

def dictSet (d : Dict) (k v : Str) : Dict :=
  if d.any (fun e => e.1 == k) then d.map (fun e => if e.1 == k then (k, v) else e) else d ++ [(k, v)]

def dictGet (d : Dict) (k : Str) : Option Str := (d.find? (fun e => e.1 == k)).map (·.2)

def addClause (d : Dict) (i : Str) : Dict :=
  match split1 61 i with
  | (k, some v) => dictSet d (strip k) (strip v)
  | (_, none) => d

/-- `parse_content_type` -/
def parseContentType (c : Str) : Option (Str × Str × Dict) :=
  match split1 47 (split1 59 c).1 with
  | (_, none) => none
  | (t, some sub) =>
    let d : Dict := match (split1 59 c).2 with
      | none => []
      | some ps => (splitAll 59 ps).foldl addClause []
    some (lower t, lower sub, d)

def kv (e : Str × Str) : Str := e.1 ++ 61 :: e.2

def joinParams : Dict → Str
  | [] => []
  | [e] => kv e
  | e :: r => kv e ++ 59 :: 32 :: joinParams r

/-- `assemble_content_type` -/
def assembleContentType (t sub : Str) (d : Dict) : Str :=
  if d.isEmpty then t ++ 47 :: sub else t ++ 47 :: (sub ++ 59 :: 32 :: joinParams d)

/-! ### in-body declarations (regexes of `infer_content_encoding`, IGNORECASE = ASCII case folding) -/

/-- case-insensitive prefix test (`pat` is lower case); returns what follows the prefix -/
def ciPrefix : Bytes → Bytes → Option Bytes
  | [], s => some s
  | _ :: _, [] => none
  | p :: ps, c :: cs => if asciiLowerB c = p then ciPrefix ps cs else none

def isQuoteB (b : UInt8) : Bool := b = 0x22 || b = 0x27

/-- what follows `charset=` / `encoding=`: `['"]?([^…]+)` resp. `['"]([^…]+)` -/
def tryValue (needQuote : Bool) (vstop : UInt8 → Bool) (after : Bytes) : Option Bytes :=
  let body : Option Bytes := match after with
    | q :: r => if isQuoteB q then some r else if needQuote then none else some after
    | [] => if needQuote then none else some []
  match body with
  | none => none
  | some b => let g := b.takeWhile (fun x => !vstop x); if g.isEmpty then none else some g

/-- walk the `[^stop]+` run (greedy, so the LAST position where the rest of the pattern matches wins) -/
def scanRun (stop : UInt8 → Bool) (key : Bytes) (nq : Bool) (vstop : UInt8 → Bool) : Bytes → Option Bytes → Option Bytes
  | [], best => best
  | c :: cs, best =>
    let best' := match ciPrefix key (c :: cs) with
      | some after => (match tryValue nq vstop after with | some g => some g | none => best)
      | none => best
    if stop c then best' else scanRun stop key nq vstop cs best'

def declAfter (stop : UInt8 → Bool) (key : Bytes) (nq : Bool) (vstop : UInt8 → Bool) : Bytes → Option Bytes
  | [] => none
  | c :: cs => if stop c then none else scanRun stop key nq vstop cs none

/-- `re.search(open [^stop]+ key quote? ([^vstop]+), content, IGNORECASE)` → group 1 -/
def searchDecl (opn : Bytes) (stop : UInt8 → Bool) (key : Bytes) (nq : Bool) (vstop : UInt8 → Bool) : Bytes → Option Bytes
  | [] => none
  | c :: cs =>
    match ciPrefix opn (c :: cs) with
    | some rest =>
      (match declAfter stop key nq vstop rest with
       | some g => some g
       | none => searchDecl opn stop key nq vstop cs)
    | none => searchDecl opn stop key nq vstop cs

def B (s : String) : Bytes := s.toUTF8.toList

/-- `<meta[^>]+charset=['"]?([^'">]+)` -/
def metaCharset (content : Bytes) : Option Bytes :=
  searchDecl (B "<meta") (fun b => b = 0x3e) (B "charset=") false (fun b => b = 0x27 || b = 0x22 || b = 0x3e) content

/-- `<\?xml[^\?>]+encoding=['"]([^'"\?>]+)` -/
def xmlEncoding (content : Bytes) : Option Bytes :=
  searchDecl (B "<?xml") (fun b => b = 0x3f || b = 0x3e) (B "encoding=") true
    (fun b => b = 0x27 || b = 0x22 || b = 0x3f || b = 0x3e) content

/-- `re.match(@charset "([^"]+)";)` -/
def cssCharset (content : Bytes) : Option Bytes :=
  match ciPrefix (B "@charset \"") content with
  | none => none
  | some rest =>
    let g := rest.takeWhile (fun b => b != 0x22)
    if g.isEmpty then none else
      match rest.drop g.length with
      | q :: s :: _ => if q = 0x22 ∧ s = 0x3b then some g else none
      | _ => none

/-- `bytes.decode("ascii", "ignore")` -/
def asciiIgnore (b : Bytes) : Str := (b.filter (fun x => x.toNat < 128)).map (·.toNat)

def bomName (content : Bytes) : Option Str :=
  if ([0x00, 0x00, 0xfe, 0xff] : Bytes).isPrefixOf content then some (S "utf-32be")
  else if ([0xff, 0xfe, 0x00, 0x00] : Bytes).isPrefixOf content then some (S "utf-32le")
  else if ([0xfe, 0xff] : Bytes).isPrefixOf content then some (S "utf-16be")
  else if ([0xff, 0xfe] : Bytes).isPrefixOf content then some (S "utf-16le")
  else if ([0xef, 0xbb, 0xbf] : Bytes).isPrefixOf content then some (S "utf-8-sig")
  else none

/-- the charset named by the header (`None`/missing/empty all count as "not given") -/
def headerCharset (ct : Str) : Str :=
  match parseContentType ct with
  | some (_, _, d) => (dictGet d (S "charset")).getD []
  | none => []

def gbFix (enc : Str) : Str :=
  if lower enc = S "gb2312" ∨ lower enc = S "gbk" then S "gb18030" else enc

/-- `infer_content_encoding(content_type, content)` -/
def inferEncoding (ct : Str) (content : Bytes) : Str :=
  let e0 : Str := match bomName content with
    | some n => n
    | none => headerCharset ct
  let e1 := if e0.isEmpty && hasSub (S "json") ct then S "utf8" else e0
  let e2 := if e1.isEmpty && hasSub (S "html") ct then
      (match metaCharset content with | some g => asciiIgnore g | none => S "utf8") else e1
  let e3 := if e2.isEmpty && hasSub (S "xml") ct then
      (match xmlEncoding content with | some g => asciiIgnore g | none => S "utf8") else e2
  let e4 := if e3.isEmpty && (hasSub (S "javascript") ct || hasSub (S "ecmascript") ct) then S "utf8" else e3
  let e5 := if e4.isEmpty && hasSub (S "text/css") ct then
      (match cssCharset content with | some g => asciiIgnore g | none => S "utf8") else e4
  let e6 := if e5.isEmpty then S "latin-1" else e5
  gbFix e6

/-! ### Message.set_text / get_text -/

/-- the codec library -/
structure Lib (τ : Type) where
  /-- `encoding.encode(text, name)`; `none` = ValueError/TypeError (unknown codec, unencodable text, not a text codec) -/
  enc : Str → τ → Option Bytes
  /-- `encoding.decode(content, name)`, strict; `none` = ValueError -/
  dec : Str → Bytes → Option τ
  /-- `text.encode("utf8", "surrogateescape")` -/
  u8se : τ → Bytes
  /-- `content.decode("utf8", "surrogateescape")` -/
  u8seDec : Bytes → τ

structure Msg where
  /-- the Content-Type header value, if there is one -/
  ct : Option Str
  content : Bytes
  deriving DecidableEq

def ctOf (m : Msg) : Str := m.ct.getD []

/-- what the fallback writes into the header -/
def fallbackHeader (ct : Str) : Str :=
  match (parseContentType ct).getD (S "text", S "plain", []) with
  | (ty, sub, d) => assembleContentType ty sub (dictSet d (S "charset") (S "utf-8"))

def setText {τ : Type} (L : Lib τ) (m : Msg) (t : τ) : Msg :=
  match L.enc (inferEncoding (ctOf m) []) t with
  | some b => { m with content := b }
  | none => { ct := some (fallbackHeader (ctOf m)), content := L.u8se t }

/-- `get_text(strict)`; `none` = ValueError -/
def getText {τ : Type} (L : Lib τ) (m : Msg) (strict : Bool) : Option τ :=
  match L.dec (inferEncoding (ctOf m) m.content) m.content with
  | some t => some t
  | none => if strict then none else some (L.u8seDec m.content)

end MitmVerif.C32
