/-
  C33 — request URL, host, port and authority stay consistent.
  Model of `mitmproxy.net.http.url.hostport / default_port / unparse / parse_authority / parse`, of urllib's netloc reading
  (`_hostinfo`, `hostname`, `port`) that `url.parse` relies on, and of `mitmproxy.http.Request.url` (getter/setter),
  `host` / `port` setters, `_update_host_and_authority`, `host_header`.
  Strings are lists of code points.  Library behaviour is a parameter (`UrlLib`): urlparse's splitting of a URL into
  scheme / netloc / path-with-query, the IDNA codec round trip of a host name, `is_valid_host`, and the idna round trip of the
  authority setter+getter.
-/
import MitmVerif.Basic.Bytes
import MitmVerif.Gen.C33
namespace MitmVerif.C33

abbrev Str := List Nat

def S (s : String) : Str := s.toList.map Char.toNat

def lowerC (c : Nat) : Nat := if 65 ≤ c ∧ c ≤ 90 then c + 32 else c
def upperC (c : Nat) : Nat := if 97 ≤ c ∧ c ≤ 122 then c - 32 else c
def lower (s : Str) : Str := s.map lowerC

/-! ### decimal numbers -/
def isDigit (c : Nat) : Bool := 48 ≤ c && c ≤ 57

def decDigitsF : Nat → Nat → Str
  | 0, _ => []
  | f + 1, n => if n < 10 then [48 + n] else decDigitsF f (n / 10) ++ [48 + n % 10]

/-- `"%d" % n` -/
def decDigits (n : Nat) : Str := decDigitsF (n + 1) n

/-- `int(ds)` for a string of ASCII digits -/
def parseDec (s : Str) : Nat := s.foldl (fun a c => a * 10 + (c - 48)) 0

/-- the digit ZERO of the block of Unicode decimal digits that `c` belongs to (`\d` on a `str` and `int()` accept every such digit) -/
def digitZero? (c : Nat) : Option Nat := Gen.C33.pyDigitZeros.find? (fun z => z ≤ c && c ≤ z + 9)
/-- `str.isdecimal()` of one character -/
def isDecimalU (c : Nat) : Bool := (digitZero? c).isSome
def digitValU (c : Nat) : Nat := match digitZero? c with | some z => c - z | none => 0
/-- `int(ds)` for a string of Unicode decimal digits -/
def parseDecU (s : Str) : Nat := s.foldl (fun a c => a * 10 + digitValU c) 0

/-! ### url.hostport / unparse -/
def defaultPort (scheme : Str) : Option Nat :=
  if scheme = S "http" then some 80 else if scheme = S "https" then some 443 else none

/-- IPv6 literals are bracketed (fix bdda7e671) -/
def bracket (host : Str) : Str :=
  if host.contains 58 && host.head? != some 91 then 91 :: (host ++ [93]) else host

def hostport (scheme host : Str) (port : Nat) : Str :=
  if defaultPort scheme = some port then bracket host else bracket host ++ 58 :: decDigits port

def unparse (scheme host : Str) (port : Nat) (path : Str) : Str :=
  scheme ++ S "://" ++ hostport scheme host port ++ path

/-! ### url.parse_authority: `^(?P<host>[^:]+|\[.+\])(?::(?P<port>\d+))?$` -/

/-- `(?::(\d+))?$` against the rest of the string (`$` also matches before a final newline; `\d` = any Unicode decimal digit) -/
def tailPort (rest : Str) : Option (Option Str) :=
  if rest = [] ∨ rest = [10] then some none
  else match rest with
    | 58 :: r =>
      let ds := r.takeWhile isDecimalU
      let after := r.dropWhile isDecimalU
      if ds ≠ [] ∧ (after = [] ∨ after = [10]) then some (some ds) else none
    | _ => none

/-- second alternative `\[.+\]`: the greedy `.+` (no newline) ends at the LAST `]` after which the tail matches -/
def alt2Scan : Str → Str → Option (Str × Option Str) → Option (Str × Option Str)
  | _, [], best => best
  | pre, c :: cs, best =>
    let best' := if c = 93 ∧ pre ≠ [] then (match tailPort cs with | some p => some (pre, p) | none => best) else best
    if c = 10 then best' else alt2Scan (pre ++ [c]) cs best'

/-- the regex match: (host group with the brackets already stripped, port digits) -/
def authorityMatch (s : Str) : Option (Str × Option Str) :=
  let run := s.takeWhile (fun c => c != 58)
  let alt1 : Option (Str × Option Str) :=
    if run = [] then none else (tailPort (s.dropWhile (fun c => c != 58))).map (fun p =>
      (if run.head? = some 91 ∧ run.getLast? = some 93 then (run.drop 1).dropLast else run, p))
  match alt1 with
  | some r => some r
  | none => match s with
    | 91 :: body => alt2Scan [] body none
    | _ => none

/-- `parse_authority(s, check=True)`; `none` = ValueError -/
def parseAuthority (valid : Str → Bool) (s : Str) : Option (Str × Option Nat) :=
  match authorityMatch s with
  | none => none
  | some (host, p) =>
    if !valid host then none
    else match p with
      | none => some (host, none)
      | some ds => if parseDecU ds ≤ 65535 then some (host, some (parseDecU ds)) else none

/-- `parse_authority(s, check=False)` -/
def parseAuthorityLoose (valid : Str → Bool) (s : Str) : Str × Option Nat :=
  (parseAuthority valid s).getD (s, none)

/-! ### urllib: netloc → hostname, port -/
def partition (c : Nat) : Str → Str × Bool × Str
  | [] => ([], false, [])
  | x :: r => if x = c then ([], true, r) else ((x :: (partition c r).1), (partition c r).2.1, (partition c r).2.2)

/-- what follows the last `c` (the whole string if there is none): `s.rpartition(c)[2]` -/
def afterLast (c : Nat) (s : Str) : Str := (s.reverse.takeWhile (fun x => x != c)).reverse

def hostinfo (netloc : Str) : Str × Str :=
  let hi := afterLast 64 netloc
  match partition 91 hi with
  | (_, true, bracketed) =>
    ((partition 93 bracketed).1, (partition 58 (partition 93 bracketed).2.2).2.2)
  | (_, false, _) => ((partition 58 hi).1, (partition 58 hi).2.2)

def hostname (netloc : Str) : Option Str :=
  let hn := (hostinfo netloc).1
  if hn = [] then none
  else
    let p := partition 37 hn
    some (lower p.1 ++ (if p.2.1 then [37] else []) ++ p.2.2)

/-- `ParseResultBytes.port`; outer `none` = ValueError -/
def portOf (netloc : Str) : Option (Option Nat) :=
  let p := (hostinfo netloc).2
  if p = [] then some none
  else if p.all isDigit then (if parseDec p ≤ 65535 then some (some (parseDec p)) else none)
  else none

/-! ### urllib.parse.urlsplit, as far as url.parse uses it: scheme and netloc -/
def isC0OrSpace (c : Nat) : Bool := c ≤ 32
def isUnsafe (c : Nat) : Bool := c = 9 || c = 10 || c = 13
def isAsciiAlpha (c : Nat) : Bool := (97 ≤ c && c ≤ 122) || (65 ≤ c && c ≤ 90)
def isSchemeChar (c : Nat) : Bool := isAsciiAlpha c || (48 ≤ c && c ≤ 57) || c = 43 || c = 45 || c = 46
def isNetlocEnd (c : Nat) : Bool := c = 47 || c = 63 || c = 35

/-- leading C0 controls/blanks stripped, TAB CR LF removed everywhere -/
def cleanUrl (u0 : Str) : Str := (u0.dropWhile isC0OrSpace).filter (fun c => !isUnsafe c)

/-- the scheme (lower-cased) and what follows `scheme:`; no scheme → ("", u) -/
def schemeSplit (u : Str) : Str × Str :=
  if u.contains 58 ∧ u.takeWhile (fun c => c != 58) ≠ [] ∧ isAsciiAlpha (u.headD 0) = true ∧
      (u.takeWhile (fun c => c != 58)).all isSchemeChar = true
  then (lower (u.takeWhile (fun c => c != 58)), u.drop ((u.takeWhile (fun c => c != 58)).length + 1)) else ([], u)

/-- `urlsplit(u)` up to the netloc: (scheme, netloc, everything after the netloc); `none` = ValueError.
    `validBracketed` = `_check_bracketed_host` (ipaddress) does not raise. -/
def pySplit (validBracketed : Str → Bool) (u0 : Str) : Option (Str × Str × Str) :=
  let sr := schemeSplit (cleanUrl u0)
  if sr.2.take 2 = [47, 47] then
    let body := sr.2.drop 2
    let netloc := body.takeWhile (fun c => !isNetlocEnd c)
    let rest := body.dropWhile (fun c => !isNetlocEnd c)
    if netloc.contains 91 != netloc.contains 93 then none
    else if netloc.contains 91 && !validBracketed (partition 93 (partition 91 netloc).2.2).1 then none
    else some (sr.1, netloc, rest)
  else some (sr.1, [], sr.2)

/-! ### what follows the netloc: urlsplit's cut at `#` and `?`, urlparse's `;params`, and urlunparse's re-assembly -/

/-- `uses_params` of urllib.parse -/
def usesParams (scheme : Str) : Bool :=
  [S "", S "ftp", S "hdl", S "prospero", S "http", S "imap", S "https", S "shttp", S "rtsp", S "rtsps", S "rtspu", S "sip", S "sips",
   S "mms", S "sftp", S "tel"].contains scheme

/-- (the text up to and including the last `/`, the text after it) -/
def lastSlash : Str → Str × Str
  | [] => ([], [])
  | c :: r =>
    if (lastSlash r).1 = [] then (if c = 47 then ([47], (lastSlash r).2) else ([], c :: (lastSlash r).2))
    else (c :: (lastSlash r).1, (lastSlash r).2)

/-- `_splitparams(url)` (also covering the caller's `';' in url` test: without a `;` after the last `/` nothing is split off) -/
def splitParams (u : Str) : Str × Str :=
  if (partition 59 (lastSlash u).2).2.1 then ((lastSlash u).1 ++ (partition 59 (lastSlash u).2).1, (partition 59 (lastSlash u).2).2.2)
  else (u, [])

/-- `delimiter + x` unless x is empty (`if query: url = url + '?' + query` …) -/
def sfx (c : Nat) (x : Str) : Str := if x = [] then [] else c :: x

/-- `urlunparse(("", "", path, params, query, fragment))` of urlparse's reading of what follows the netloc -/
def normRestPy (scheme rest : Str) : Str :=
  let f := partition 35 rest
  let q := partition 63 f.1
  let ap := if usesParams scheme then splitParams q.1 else (q.1, [])
  ap.1 ++ sfx 59 ap.2 ++ sfx 63 q.2.2 ++ sfx 35 f.2.2

/-! ### url.parse and the Request -/
structure UrlLib where
  /-- `urllib.parse.urlparse(u)` → (scheme, netloc, path+params+query+fragment with a leading `/`); `none` = ValueError -/
  split : Str → Option (Str × Str × Str)
  /-- `hostname.encode("idna")` decoded again by the host setter; `none` = UnicodeError -/
  idnaRt : Str → Option Str
  /-- `check.is_valid_host(hostname.encode("idna"))` -/
  validHost : Str → Bool
  /-- `Request.authority` setter followed by the getter -/
  normAuth : Str → Str

/-- the Python side of `url.parse` that is not transcribed: `_check_bracketed_host`, the reassembly
    `urlunparse(("", "", path, params, query, fragment))` of what follows the netloc (given the scheme), the IDNA round trip,
    `is_valid_host`, the authority round trip -/
structure PyLib where
  validBracketed : Str → Bool
  normRest : Str → Str → Str
  idnaRt : Str → Option Str
  validHost : Str → Bool
  normAuth : Str → Str

/-- the library with urlsplit's scheme/netloc reading transcribed (`pySplit`) -/
def pyLib (Q : PyLib) : UrlLib where
  split u := (pySplit Q.validBracketed u).map (fun t =>
    (t.1, t.2.1, if (Q.normRest t.1 t.2.2).head? = some 47 then Q.normRest t.1 t.2.2 else 47 :: Q.normRest t.1 t.2.2))
  idnaRt := Q.idnaRt
  validHost := Q.validHost
  normAuth := Q.normAuth

/-- the library with urlparse/urlunparse's treatment of what follows the netloc transcribed as well -/
def withRest (Q : PyLib) : PyLib := { Q with normRest := normRestPy }

/-- `url.parse(u)` for a `str`; `none` = ValueError -/
def urlParse (P : UrlLib) (u : Str) : Option (Str × Str × Nat × Str) :=
  match P.split u with
  | none => none
  | some (scheme, netloc, full) =>
    match hostname netloc with
    | none => none
    | some hn =>
      match P.idnaRt hn with
      | none => none
      | some hostDec =>
        if u.any (fun c => c ≥ 128) then none
        else match portOf netloc with
          | none => none
          | some po =>
            let dflt := if scheme = S "https" then 443 else 80
            let port := match po with
              | some p => if p = 0 then dflt else p
              | none => dflt
            if !P.validHost hn then none else some (scheme, hostDec, port, full)

structure Req where
  h2 : Bool
  method : Str
  scheme : Str
  host : Str
  port : Nat
  path : Str
  /-- `headers.get("Host")` -/
  hostHeader : Option Str
  /-- `Request.authority` (decoded) -/
  authority : Str
  deriving DecidableEq

/-- `_update_host_and_authority` -/
def update (P : UrlLib) (r : Req) : Req :=
  let v := hostport r.scheme r.host r.port
  { r with hostHeader := r.hostHeader.map (fun _ => v),
           authority := if r.authority = [] then [] else P.normAuth v }

def setHost (P : UrlLib) (r : Req) (h : Str) : Req := update P { r with host := h }
def setPort (P : UrlLib) (r : Req) (p : Nat) : Req := update P { r with port := p }

/-- `Request.url = u`; `none` = ValueError (request unchanged) -/
def setUrl (P : UrlLib) (r : Req) (u : Str) : Option Req :=
  match urlParse P u with
  | none => none
  | some (s, h, p, path) => some { setPort P (setHost P { r with scheme := s } h) p with path := path }

/-- `Request.url` -/
def url (r : Req) : Str :=
  if r.method.map upperC = S "CONNECT" then r.host ++ 58 :: decDigits r.port
  else unparse r.scheme r.host r.port (if r.path = [42] then [] else r.path)

/-- `Request.host_header` -/
def hostHeaderOf (r : Req) : Option Str :=
  if r.h2 then (if r.authority ≠ [] then some r.authority else r.hostHeader) else r.hostHeader

inductive Edit
  | host (h : Str)
  | port (p : Nat)
  | url (u : Str)

/-- one edit; a rejected URL leaves the request as it was -/
def applyEdit (P : UrlLib) (r : Req) : Edit → Req
  | .host h => setHost P r h
  | .port p => setPort P r p
  | .url u => (setUrl P r u).getD r

end MitmVerif.C33
