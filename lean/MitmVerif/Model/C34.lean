/-
  C34 — query, cookie, form and path views are lossless.
  Model of `mitmproxy.net.http.cookies` (`_read_until`, `_read_quoted_string`, `_read_value`, `_read_cookie_pairs`,
  `_read_set_cookie_pairs`, `_has_special`, `_format_pairs`), of `mitmproxy.net.http.multipart.encode_multipart /
  decode_multipart` (bytes.split, bytes.splitlines and the `name="…"` regex transcribed), and of the view getters/setters of
  `mitmproxy.http.Request` / `Response`.  Cookie strings are lists of code points, multipart data are byte lists.
  Offsets into the header string are modelled by the remaining suffix.  `str.isspace()` comes from the generated table
  `Gen.C34.pySpace`; `str.lower()` is ASCII lower-casing.  urllib (urlencode / parse_qsl / quote / unquote) is a parameter.
-/
import MitmVerif.Basic.Bytes
import MitmVerif.Gen.C34
import MitmVerif.Model.C33
namespace MitmVerif.C34

abbrev Str := List Nat
def S (s : String) : Str := s.toList.map Char.toNat

def isSpace (c : Nat) : Bool := Gen.C34.pySpace.contains c
def lstrip (s : Str) : Str := s.dropWhile isSpace
def rstrip (s : Str) : Str := (s.reverse.dropWhile isSpace).reverse
def strip (s : Str) : Str := rstrip (lstrip s)
/-- `str.isalpha()` of one character (generated ranges) -/
def isAlphaC (c : Nat) : Bool := Gen.C34.pyAlphaRanges.any (fun r => r.1 ≤ c && c ≤ r.2)
/-- `s.isalpha()`: non-empty and alphabetic throughout -/
def isAlphaStr (s : Str) : Bool := !s.isEmpty && s.all isAlphaC
def lowerC (c : Nat) : Nat := if 65 ≤ c ∧ c ≤ 90 then c + 32 else c
def lower (s : Str) : Str := s.map lowerC

/-! ### cookies.py: reading -/

/-- `_read_until(s, start, term)` on the suffix starting at `start`: (what was read, the suffix starting at the terminator) -/
def readUntil (term : Nat → Bool) : Str → Str × Str
  | [] => ([], [])
  | c :: r => if term c then ([], c :: r) else (c :: (readUntil term r).1, (readUntil term r).2)

/-- `_read_quoted_string`, entered after the opening quote; `esc` = the previous character was a backslash -/
def readQuoted : Bool → Str → Str × Str
  | _, [] => ([], [])
  | true, c :: r => (c :: (readQuoted false r).1, (readQuoted false r).2)
  | false, c :: r =>
    if c = 34 then ([], r)
    else if c = 92 then readQuoted true r
    else (c :: (readQuoted false r).1, (readQuoted false r).2)

/-- `_read_value(s, start, delims)` -/
def readValue (term : Nat → Bool) : Str → Str × Str
  | [] => ([], [])
  | c :: r => if c = 34 then readQuoted false r else readUntil term (c :: r)

def isSemiEq (c : Nat) : Bool := c = 59 || c = 61
def isSemi (c : Nat) : Bool := c = 59
def isSemiEqComma (c : Nat) : Bool := c = 59 || c = 61 || c = 44
def isSemiComma (c : Nat) : Bool := c = 59 || c = 44

/-- one round of the loop in `_read_cookie_pairs`: the pair it appends (if any) and the suffix after `off += 1` -/
def cookieStep (s : Str) : Option (Str × Str) × Str :=
  let lhs := lstrip (readUntil isSemiEq s).1
  let r1 := (readUntil isSemiEq s).2
  let vr : Str × Str := match r1 with
    | 61 :: r => readValue isSemi r
    | _ => ([], r1)
  (if vr.1 ≠ [] ∨ lhs ≠ [] then some (lhs, vr.1) else none, vr.2.drop 1)

def parseF : Nat → Str → List (Str × Str)
  | 0, _ => []
  | f + 1, s =>
    let st := cookieStep s
    let tail := if st.2 = [] then [] else parseF f st.2
    match st.1 with
    | some p => p :: tail
    | none => tail

/-- `parse_cookie_header` -/
def parseCookie (s : Str) : List (Str × Str) := parseF (s.length + 1) s

/-! ### cookies.py: formatting -/
def specialC (c : Nat) : Bool := c = 34 || c = 44 || c = 59 || c = 92 || c < 0x21 || c > 0x7e
def hasSpecial (s : Str) : Bool := s.any specialC
def escape (s : Str) : Str := s.flatMap (fun c => if c = 34 ∨ c = 92 then [92, c] else [c])

def fmtPair (specials : List Str) (k : Str) (v : Option Str) : Str :=
  match v with
  | none => k
  | some v => if !(specials.contains (lower k)) && hasSpecial v then k ++ 61 :: 34 :: (escape v ++ [34]) else k ++ 61 :: v

def joinSep : List Str → Str
  | [] => []
  | [x] => x
  | x :: r => x ++ 59 :: 32 :: joinSep r

/-- `format_cookie_header` -/
def formatCookie (ps : List (Str × Str)) : Str := joinSep (ps.map (fun p => fmtPair [] p.1 (some p.2)))

/-- `_format_set_cookie_pairs` -/
def formatSetCookie (ps : List (Str × Option Str)) : Str :=
  joinSep (ps.map (fun p => fmtPair [S "expires", S "path"] p.1 p.2))

/-! ### Set-Cookie reading -/
structure ScState where
  cookies : List (List (Str × Option Str))
  pairs : List (Str × Option Str)

/-- one round of `_read_set_cookie_pairs` (as of e0e81be4a / 8cc872297: an `expires` value is read on past a comma only when it
    stopped AT that comma and is, stripped, a purely alphabetic token — the weekday name) -/
def scStep (st : ScState) (s : Str) : ScState × Str :=
  let lhs := lstrip (readUntil isSemiEqComma s).1
  let r1 := (readUntil isSemiEqComma s).2
  let pr : List (Str × Option Str) × Str := match r1 with
    | 61 :: r =>
      let v := readValue isSemiComma r
      if lower lhs = S "expires" ∧ v.2.head? = some 44 ∧ isAlphaStr (strip v.1) = true then
        let t := readValue isSemiComma (v.2.drop 1)
        (st.pairs ++ [(lhs, some (v.1 ++ 44 :: t.1))], t.2)
      else (st.pairs ++ [(lhs, some v.1)], v.2)
    | _ => (if lhs ≠ [] then st.pairs ++ [(lhs, none)] else st.pairs, r1)
  let st' : ScState := match pr.2 with
    | 44 :: _ => { cookies := st.cookies ++ [pr.1], pairs := [] }
    | _ => { cookies := st.cookies, pairs := pr.1 }
  (st', pr.2.drop 1)

def scLoop : Nat → ScState → Str → ScState
  | 0, st, _ => st
  | f + 1, st, s =>
    let r := scStep st s
    if r.2 = [] then r.1 else scLoop f r.1 r.2

/-- `_read_set_cookie_pairs(s)[0]` -/
def parseSetCookie (s : Str) : List (List (Str × Option Str)) :=
  let st := scLoop (s.length + 1) { cookies := [], pairs := [] } s
  if st.pairs ≠ [] ∨ st.cookies = [] then st.cookies ++ [st.pairs] else st.cookies

/-! ### the cookie views -/

/-- `Request._get_cookies` over the values of the Cookie headers -/
def getCookies (hdrs : List Str) : List (Str × Str) := hdrs.flatMap parseCookie
/-- `Request._set_cookies`: one header replaces all -/
def setCookies (ps : List (Str × Str)) : List Str := [formatCookie ps]

/-- `Response._get_cookies` at the level of pair lists: every cookie found in every Set-Cookie header (empty ones skipped) -/
def getSetCookies (hdrs : List Str) : List (List (Str × Option Str)) := (hdrs.flatMap parseSetCookie).filter (· ≠ [])
/-- `Response._set_cookies`: one header per cookie -/
def setSetCookies (cs : List (List (Str × Option Str))) : List Str := cs.map formatSetCookie

/-! ### multipart.py -/
def B (s : String) : Bytes := s.toUTF8.toList

def joinCRLF : List Bytes → Bytes
  | [] => []
  | [x] => x
  | x :: r => x ++ 13 :: 10 :: joinCRLF r

def partLines (bq : Bytes) : List (Bytes × Bytes × Bytes) → List Bytes
  | [] => []
  | (k, v, ct) :: r =>
    (if k ≠ [] then
      [B "--" ++ bq, B "Content-Disposition: form-data; name=\"" ++ k ++ [34], B "Content-Type: " ++ ct, [], v]
     else []) ++ [[]] ++ partLines bq r

/-- `re.search(rb"^--B$", value)` -/
def valueIsDelim (bq v : Bytes) : Bool := v = B "--" ++ bq || v = B "--" ++ bq ++ [10]

/-- `encode_multipart` with the quoted boundary `bq`; parts carry the guessed content type; `none` = ValueError -/
def encodeMultipart (bq : Bytes) (parts : List (Bytes × Bytes × Bytes)) : Option Bytes :=
  if parts.any (fun p => valueIsDelim bq p.2.1) then none
  else some (joinCRLF (partLines bq parts ++ [B "--" ++ bq ++ B "--\r\n"]))

/-- `bytes.split(sep)` for a non-empty `sep` -/
def splitOnF : Nat → Bytes → Bytes → Bytes → List Bytes
  | 0, _, cur, _ => [cur]
  | _ + 1, _, cur, [] => [cur]
  | f + 1, sep, cur, c :: r =>
    if sep.isPrefixOf (c :: r) then cur :: splitOnF f sep [] ((c :: r).drop sep.length)
    else splitOnF f sep (cur ++ [c]) r

def splitOn (sep s : Bytes) : List Bytes := splitOnF (s.length + 1) sep [] s

/-- `bytes.splitlines()` (fuel ≥ length) -/
def splitLinesF : Nat → Bytes → Bytes → List Bytes
  | 0, cur, _ => if cur = [] then [] else [cur]
  | _ + 1, cur, [] => if cur = [] then [] else [cur]
  | f + 1, cur, c :: r =>
    if c = 10 then cur :: splitLinesF f [] r
    else if c = 13 then cur :: splitLinesF f [] (if r.head? = some 10 then r.drop 1 else r)
    else splitLinesF f (cur ++ [c]) r

def splitLines (s : Bytes) : List Bytes := splitLinesF (s.length + 1) [] s

def isWordB (b : UInt8) : Bool :=
  (48 ≤ b.toNat && b.toNat ≤ 57) || (65 ≤ b.toNat && b.toNat ≤ 90) || (97 ≤ b.toNat && b.toNat ≤ 122) || b = 95

/-- `re.search(rb'\bname="([^"]+)"', line)` → group 1 -/
def findNameGo : Option UInt8 → Bytes → Option Bytes
  | _, [] => none
  | prev, c :: r =>
    let here : Option Bytes :=
      if (match prev with | some p => !isWordB p | none => true) && (B "name=\"").isPrefixOf (c :: r) then
        let after := (c :: r).drop 6
        let g := after.takeWhile (fun b => b != 34)
        if g ≠ [] ∧ (after.drop g.length).head? = some 34 then some g else none
      else none
    match here with
    | some g => some g
    | none => findNameGo (some c) r

def indexOfEmpty : List Bytes → Option Nat
  | [] => none
  | x :: r => if x = [] then some 0 else (indexOfEmpty r).map (· + 1)

/-- one element of `content.split(b"--" + boundary)`: outer `none` = ValueError, `some none` = skipped -/
def decodePiece (i : Bytes) : Option (Option (Bytes × Bytes)) :=
  let parts := splitLines i
  if parts.length > 1 ∧ (parts.headD []).take 2 ≠ B "--" then
    match findNameGo none ((parts.drop 1).headD []) with
    | none => some none
    | some key =>
      match indexOfEmpty (parts.drop 2) with
      | none => none
      | some idx => some (some (key, (parts.drop (3 + idx)).flatten))
  else some none

def collect : List (Option (Option (Bytes × Bytes))) → Option (List (Bytes × Bytes))
  | [] => some []
  | none :: _ => none
  | some none :: r => collect r
  | some (some p) :: r => (collect r).map (p :: ·)

/-- `decode_multipart` with the raw boundary `b`; `none` = ValueError -/
def decodeMultipart (b content : Bytes) : Option (List (Bytes × Bytes)) :=
  collect ((splitOn (B "--" ++ b) content).map decodePiece)

/-! ### query / urlencoded form / path components: urllib as a parameter -/
structure UrlCodec where
  /-- `urllib.parse.urlencode(pairs, errors="surrogateescape")` -/
  urlencode : List (Str × Str) → Str
  /-- `urllib.parse.parse_qsl(s, keep_blank_values=True, errors="surrogateescape")` -/
  parseQsl : Str → List (Str × Str)
  /-- `urllib.parse.quote(c, safe="", errors="surrogateescape")` -/
  quote : Str → Str
  /-- `urllib.parse.unquote(s, errors="surrogateescape")` -/
  unquote : Str → Str

/-- the request target as urlparse splits it -/
structure Target where
  path : Str
  params : Str
  query : Str
  fragment : Str
  deriving DecidableEq

def getQuery (U : UrlCodec) (t : Target) : List (Str × Str) := U.parseQsl t.query
def setQuery (U : UrlCodec) (t : Target) (ps : List (Str × Str)) : Target := { t with query := U.urlencode ps }

def splitSlash : Str → List Str
  | [] => [[]]
  | c :: r => if c = 47 then [] :: splitSlash r else (c :: (splitSlash r).headD []) :: (splitSlash r).tail

def joinSlash : List Str → Str
  | [] => []
  | [x] => x
  | x :: r => x ++ 47 :: joinSlash r

/-- `Request.path_components` getter -/
def getComponents (U : UrlCodec) (t : Target) : List Str := ((splitSlash t.path).filter (· ≠ [])).map U.unquote
/-- `Request.path_components` setter -/
def setComponents (U : UrlCodec) (t : Target) (cs : List Str) : Target := { t with path := 47 :: joinSlash (cs.map U.quote) }

/-! ### the query and path_components views on the raw request target (urlparse's cutting: transcription in Model/C33) -/

/-- `urllib.parse.urlparse(request.url)[2:]` for the request target `p` (the asterisk form has an empty path in `request.url`) -/
def targetParts (scheme p : Str) : Target :=
  let rest := if p = [42] then [] else p
  let f := C33.partition 35 rest
  let q := C33.partition 63 f.1
  let ap := if C33.usesParams scheme then C33.splitParams q.1 else (q.1, [])
  { path := ap.1, params := ap.2, query := q.2.2, fragment := f.2.2 }

/-- `urllib.parse.urlunparse(["", "", path, params, query, fragment])` -/
def unparseTarget (t : Target) : Str := t.path ++ C33.sfx 59 t.params ++ C33.sfx 63 t.query ++ C33.sfx 35 t.fragment

/-- `Request.path_components` getter on the request target -/
def getPathComponents (U : UrlCodec) (scheme p : Str) : List Str := getComponents U (targetParts scheme p)
/-- `Request.path_components` setter: the new request target -/
def setPathComponents (U : UrlCodec) (scheme p : Str) (cs : List Str) : Str := unparseTarget (setComponents U (targetParts scheme p) cs)
/-- `Request._get_query` / `_set_query` on the request target -/
def getQueryOf (U : UrlCodec) (scheme p : Str) : List (Str × Str) := getQuery U (targetParts scheme p)
def setQueryOf (U : UrlCodec) (scheme p : Str) (ps : List (Str × Str)) : Str := unparseTarget (setQuery U (targetParts scheme p) ps)

/-! ### urlencoded form view -/

def splitAmp : Str → List Str
  | [] => [[]]
  | c :: r => if c = 38 then [] :: splitAmp r else (c :: (splitAmp r).headD []) :: (splitAmp r).tail

/-- `any("=" not in param for param in similar_to.split("&"))`, only asked for a non-empty `similar_to` -/
def bareStyle (similar : Str) : Bool := !similar.isEmpty && (splitAmp similar).any (fun p => !p.contains 61)

/-- `encoded.replace("=&", "&")` -/
def replEqAmp : Str → Str
  | [] => []
  | [c] => [c]
  | c :: d :: r => if c = 61 ∧ d = 38 then 38 :: replEqAmp r else c :: replEqAmp (d :: r)

def dropTrailingEq (s : Str) : Str := if s.getLast? = some 61 then s.dropLast else s

/-- `url.encode(pairs, similar_to)` -/
def encodeForm (U : UrlCodec) (ps : List (Str × Str)) (similar : Str) : Str :=
  if !(U.urlencode ps).isEmpty && bareStyle similar then dropTrailingEq (replEqAmp (U.urlencode ps)) else U.urlencode ps

def hasSub (n : Str) : Str → Bool
  | [] => n.isEmpty
  | x :: r => n.isPrefixOf (x :: r) || hasSub n r

def formCT : Str := S "application/x-www-form-urlencoded"

/-- a request as the form view sees it: the Content-Type header (if any) and the body -/
structure FormMsg where
  ct : Option Str
  body : Bytes
  deriving DecidableEq

structure FormLib where
  U : UrlCodec
  /-- `Message.get_text(strict=False)` of a body under a Content-Type header -/
  getText : Option Str → Bytes → Str
  /-- `str.encode()` of the (ASCII) urlencoded text -/
  encodeAscii : Str → Bytes

/-- `Request._get_urlencoded_form` -/
def getForm (L : FormLib) (m : FormMsg) : List (Str × Str) :=
  if hasSub formCT (lower (m.ct.getD [])) then L.U.parseQsl (L.getText m.ct m.body) else []

/-- `Request._set_urlencoded_form`: the content type is reset to the bare form type (any charset parameter is dropped) BEFORE the
    existing body is read for its style -/
def setForm (L : FormLib) (m : FormMsg) (ps : List (Str × Str)) : FormMsg :=
  { ct := some formCT, body := L.encodeAscii (encodeForm L.U ps (L.getText (some formCT) m.body)) }

end MitmVerif.C34
