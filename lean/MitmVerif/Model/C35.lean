/-
  C35 — header collections behave as a case-insensitive ordered multimap.

  Executable model of
    * `mitmproxy.coretypes.multidict._MultiDict` / `MultiDict` as specialised by `mitmproxy.http.Headers`
      (`_kconv = bytes.lower`, `_reduce_values = ", ".join`), including the `collections.abc.MutableMapping`
      mixins the class inherits (`__contains__`, `get`, `pop`, `popitem`, `setdefault`, `clear`, `update`,
      `keys/values/items`), and `Serializable.copy`;
    * `Headers.__bytes__`;
    * `mitmproxy.net.http.http1.read._read_headers` with its three outcomes (ok / ValueError / IndexError);
    * the split-on-LF / strip-one-CR step of `h11.ReceiveBuffer.maybe_extract_lines` (`splitLines`).
  The state of one object is `fields : List (Bytes × Bytes)`; a `Store` is the list of live objects
  (object identity = index), so that aliasing between a collection and its copy is expressible.
  str/bytes conversion (`_native`, `_always_bytes`) is outside the model: everything is bytes.
-/
import MitmVerif.Basic.Bytes
namespace MitmVerif.C35

abbrev Field := Bytes × Bytes
abbrev Fields := List Field

/-- `Headers._kconv`: `key.lower()` on bytes (ASCII only) -/
def kconv (k : Bytes) : Bytes := asciiLower k

/-- `sep.join(parts)` -/
def joinWith (sep : Bytes) : List Bytes → Bytes
  | [] => []
  | [v] => v
  | v :: w :: vs => v ++ sep ++ joinWith sep (w :: vs)

def commaSp : Bytes := [0x2c, 0x20]
def colonSp : Bytes := [0x3a, 0x20]
def crlf : Bytes := [0x0d, 0x0a]

/-- `Headers._reduce_values` -/
def reduceValues (vs : List Bytes) : Bytes := joinWith commaSp vs

/-- `_MultiDict.get_all`: `[value for k, value in self.fields if self._kconv(k) == key]` -/
def getAll (fs : Fields) (k : Bytes) : List Bytes :=
  fs.filterMap (fun f => if kconv f.1 == kconv k then some f.2 else none)

/-- `_MultiDict.__getitem__`; `none` = KeyError -/
def getItem (fs : Fields) (k : Bytes) : Option Bytes :=
  let vs := getAll fs k
  if vs.isEmpty then none else some (reduceValues vs)

/-- `Mapping.__contains__`: `try: self[key] except KeyError: False else True` -/
def contains (fs : Fields) (k : Bytes) : Bool := (getItem fs k).isSome

/-- the `for field in self.fields` loop of `set_all`; returns `new_fields` and what is left of `values` -/
def setAllLoop (kc : Bytes) : Fields → List Bytes → Fields × List Bytes
  | [], vs => ([], vs)
  | f :: fs, vs =>
    if kconv f.1 == kc then
      match vs with
      | [] => setAllLoop kc fs []
      | v :: vs' => let r := setAllLoop kc fs vs'; ((f.1, v) :: r.1, r.2)
    else
      let r := setAllLoop kc fs vs; (f :: r.1, r.2)

/-- `_MultiDict.set_all` -/
def setAll (fs : Fields) (k : Bytes) (vs : List Bytes) : Fields :=
  let r := setAllLoop (kconv k) fs vs
  r.1 ++ r.2.map (fun v => (k, v))            -- `while values: new_fields.append((key, values.pop(0)))`

/-- `_MultiDict.__setitem__` -/
def setItem (fs : Fields) (k v : Bytes) : Fields := setAll fs k [v]

/-- `_MultiDict.__delitem__`; `none` = KeyError -/
def delItem (fs : Fields) (k : Bytes) : Option Fields :=
  if !contains fs k then none
  else some (fs.filter (fun f => kconv k != kconv f.1))

/-- start/stop of a Python slice `t[:i]` / `t[i:]` on a sequence of length `n` -/
def pyIndex (n : Nat) (i : Int) : Nat :=
  if i < 0 then (if (n : Int) + i < 0 then 0 else ((n : Int) + i).toNat)
  else (if i.toNat ≤ n then i.toNat else n)

/-- `_MultiDict.insert`: `fields[:index] + (item,) + fields[index:]` -/
def insert (fs : Fields) (i : Int) (k v : Bytes) : Fields :=
  fs.take (pyIndex fs.length i) ++ (k, v) :: fs.drop (pyIndex fs.length i)

/-- `_MultiDict.add` -/
def add (fs : Fields) (k v : Bytes) : Fields := insert fs (fs.length : Int) k v

/-- `_MultiDict.__iter__` with its `seen` set -/
def iterLoop (seen : List Bytes) : Fields → List Bytes
  | [] => []
  | f :: fs =>
    if seen.contains (kconv f.1) then iterLoop seen fs
    else f.1 :: iterLoop (kconv f.1 :: seen) fs

def iter (fs : Fields) : List Bytes := iterLoop [] fs

/-- `set.add` on a duplicate-free list -/
def setAdd (s : List Bytes) (x : Bytes) : List Bytes := if s.contains x then s else x :: s

/-- `_MultiDict.__len__`: `len({self._kconv(key) for key, _ in self.fields})` -/
def len (fs : Fields) : Nat := (fs.foldl (fun s f => setAdd s (kconv f.1)) []).length

/-- `_MultiDict.__eq__` between two `MultiDict`s -/
def eq (a b : Fields) : Bool := a == b

/-- `Serializable.copy` = `from_state(get_state())` = `Headers(tuple(tuple(x) for x in fields))` -/
def copy (fs : Fields) : Fields := fs.map (fun f => (f.1, f.2))

/-- `items(multi=True)` -/
def itemsMulti (fs : Fields) : Fields := fs

/-- `items()` = `ItemsView`: `for key in self: yield (key, self[key])` -/
def items (fs : Fields) : Fields :=
  (iter fs).filterMap (fun k => (getItem fs k).map (fun v => (k, v)))

/-- `keys(multi)`: `(k for k, _ in self.items(multi))` -/
def keys (fs : Fields) (multi : Bool) : List Bytes :=
  if multi then (itemsMulti fs).map (·.1) else (items fs).map (·.1)

/-- `values(multi)` -/
def values (fs : Fields) (multi : Bool) : List Bytes :=
  if multi then (itemsMulti fs).map (·.2) else (items fs).map (·.2)

/-- `MutableMapping.pop(key)` without default: `value = self[key]; del self[key]; return value` -/
def pop (fs : Fields) (k : Bytes) : Option (Fields × Bytes) :=
  match getItem fs k with
  | none => none
  | some v => match delItem fs k with
    | none => none
    | some fs' => some (fs', v)

/-- `MutableMapping.popitem`: `key = next(iter(self)); value = self[key]; del self[key]` -/
def popitem (fs : Fields) : Option (Fields × Bytes × Bytes) :=
  match iter fs with
  | [] => none
  | k :: _ => match getItem fs k with
    | none => none
    | some v => match delItem fs k with
      | none => none
      | some fs' => some (fs', k, v)

/-- `MutableMapping.setdefault` -/
def setdefault (fs : Fields) (k d : Bytes) : Fields × Bytes :=
  match getItem fs k with
  | some v => (fs, v)
  | none => (setItem fs k d, d)

/-- `MutableMapping.clear`: `while True: self.popitem()` until KeyError; `n` bounds the number of rounds -/
def clearF : Nat → Fields → Fields
  | 0, fs => fs
  | n + 1, fs => match popitem fs with
    | none => fs
    | some r => clearF n r.1

def clear (fs : Fields) : Fields := clearF (fs.length + 1) fs

/-- `MutableMapping.update(pairs)`: `for key, value in other: self[key] = value` -/
def update (fs : Fields) (ps : Fields) : Fields := ps.foldl (fun s p => setItem s p.1 p.2) fs

/-- `Headers.__bytes__` -/
def fieldLine (f : Field) : Bytes := f.1 ++ colonSp ++ f.2      -- `b": ".join(field)`
def toBytes (fs : Fields) : Bytes :=
  if fs.isEmpty then [] else joinWith crlf (fs.map fieldLine) ++ crlf

/-! ### HTTP/1 parsing -/

/-- `bytes.split(b"\n")` -/
def splitLF : Bytes → List Bytes
  | [] => [[]]
  | c :: cs =>
    if c = 0x0a then [] :: splitLF cs
    else match splitLF cs with
      | [] => [[c]]
      | l :: ls => (c :: l) :: ls

/-- `if line.endswith(b"\r"): del line[-1]` -/
def stripCR (l : Bytes) : Bytes := if l.getLast? = some 0x0d then l.dropLast else l

/-- lines of a header block that ends with its own CRLF (h11: split on LF, strip one CR, drop the empty tail) -/
def splitLines (block : Bytes) : List Bytes := ((splitLF block).dropLast).map stripCR

/-- bytes removed by `bytes.strip(b" \t\r\n")` (as of /repo b15fb8eb3: VT and FF are no longer stripped) -/
def pyWs (b : UInt8) : Bool := b = 0x20 || b = 0x09 || b = 0x0d || b = 0x0a

def strip (b : Bytes) : Bytes := ((b.dropWhile pyWs).reverse.dropWhile pyWs).reverse

/-- `line.split(b":", 1)`: `none` when there is no colon (unpacking raises ValueError) -/
def splitColon : Bytes → Option (Bytes × Bytes)
  | [] => none
  | c :: cs =>
    if c = 0x3a then some ([], cs)
    else match splitColon cs with
      | none => none
      | some (n, v) => some (c :: n, v)

inductive RdErr where
  | value | index
  deriving DecidableEq, Repr

/-- the loop of `_read_headers`; `acc` is `ret` reversed (head = `ret[-1]`) -/
def readLoop (acc : Fields) : List Bytes → Except RdErr Fields
  | [] => .ok acc.reverse
  | line :: rest =>
    match line with
    | [] => .error .index                                        -- `line[0]` on an empty line
    | c :: _ =>
      if c = 0x20 || c = 0x09 then
        match acc with
        | [] => .error .value                                    -- "Invalid headers"
        | (n, v) :: acc' => readLoop ((n, v ++ [0x0d, 0x0a, 0x20] ++ strip line) :: acc') rest
      else
        match splitColon line with
        | none => .error .value
        | some (name, value) =>
          if name.isEmpty then .error .value
          else readLoop ((name, strip value) :: acc) rest

def readHeaders (lines : List Bytes) : Except RdErr Fields := readLoop [] lines

/-! ### Operation sequences on a store of objects -/

abbrev Store := List Fields

inductive Op where
  | getItem (t : Nat) (k : Bytes)
  | get (t : Nat) (k : Bytes)
  | getAll (t : Nat) (k : Bytes)
  | contains (t : Nat) (k : Bytes)
  | setItem (t : Nat) (k v : Bytes)
  | setAll (t : Nat) (k : Bytes) (vs : List Bytes)
  | delItem (t : Nat) (k : Bytes)
  | add (t : Nat) (k v : Bytes)
  | insert (t : Nat) (i : Int) (k v : Bytes)
  | iter (t : Nat)
  | len (t : Nat)
  | eq (t u : Nat)
  | copy (t : Nat)
  | itemsMulti (t : Nat)
  | items (t : Nat)
  | keys (t : Nat) (multi : Bool)
  | values (t : Nat) (multi : Bool)
  | pop (t : Nat) (k : Bytes)
  | popitem (t : Nat)
  | setdefault (t : Nat) (k d : Bytes)
  | clear (t : Nat)
  | update (t : Nat) (ps : Fields)
  | toBytes (t : Nat)

inductive Ret where
  | none | keyError | badObj
  | val (b : Bytes) | opt (o : Option Bytes) | list (l : List Bytes) | bool (b : Bool) | nat (n : Nat)
  | pairs (l : Fields) | pair (k v : Bytes) | obj (n : Nat) | bytes (b : Bytes)
  deriving DecidableEq

/-- the object an operation acts on -/
def Op.target : Op → Nat
  | .getItem t _ | .get t _ | .getAll t _ | .contains t _ | .setItem t _ _ | .setAll t _ _ | .delItem t _
  | .add t _ _ | .insert t _ _ _ | .iter t | .len t | .eq t _ | .copy t | .itemsMulti t | .items t | .keys t _
  | .values t _ | .pop t _ | .popitem t | .setdefault t _ _ | .clear t | .update t _ | .toBytes t => t

/-- effect of one operation on its target object: (new fields, return value, object created by `copy`) -/
def apply (st : Store) (fs : Fields) : Op → Fields × Ret × Option Fields
  | .getItem _ k => (fs, (match getItem fs k with | some v => .val v | none => .keyError), none)
  | .get _ k => (fs, .opt (getItem fs k), none)
  | .getAll _ k => (fs, .list (getAll fs k), none)
  | .contains _ k => (fs, .bool (contains fs k), none)
  | .setItem _ k v => (setItem fs k v, .none, none)
  | .setAll _ k vs => (setAll fs k vs, .none, none)
  | .delItem _ k => (match delItem fs k with | some fs' => (fs', .none, none) | none => (fs, .keyError, none))
  | .add _ k v => (add fs k v, .none, none)
  | .insert _ i k v => (insert fs i k v, .none, none)
  | .iter _ => (fs, .list (iter fs), none)
  | .len _ => (fs, .nat (len fs), none)
  | .eq _ u => (match st[u]? with | some g => (fs, .bool (eq fs g), none) | none => (fs, .badObj, none))
  | .copy _ => (fs, .obj st.length, some (copy fs))
  | .itemsMulti _ => (fs, .pairs (itemsMulti fs), none)
  | .items _ => (fs, .pairs (items fs), none)
  | .keys _ m => (fs, .list (keys fs m), none)
  | .values _ m => (fs, .list (values fs m), none)
  | .pop _ k => (match pop fs k with | some r => (r.1, .val r.2, none) | none => (fs, .keyError, none))
  | .popitem _ => (match popitem fs with | some r => (r.1, .pair r.2.1 r.2.2, none) | none => (fs, .keyError, none))
  | .setdefault _ k d => ((setdefault fs k d).1, .val (setdefault fs k d).2, none)
  | .clear _ => (clear fs, .none, none)
  | .update _ ps => (update fs ps, .none, none)
  | .toBytes _ => (fs, .bytes (toBytes fs), none)

/-- one step on the store; an operation addressed to a non-existent object changes nothing -/
def step (st : Store) (op : Op) : Store × Ret :=
  match st[op.target]? with
  | none => (st, .badObj)
  | some fs =>
    let r := apply st fs op
    let st' := st.set op.target r.1
    (match r.2.2 with | some o => st' ++ [o] | none => st', r.2.1)

/-- run an operation sequence; the trace records the return value and the whole store after every step -/
def run (st : Store) : List Op → List (Ret × Store)
  | [] => []
  | op :: ops => let r := step st op; (r.2, r.1) :: run r.1 ops

end MitmVerif.C35
