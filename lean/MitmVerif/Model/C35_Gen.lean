/-
  C35 — `mitmproxy.coretypes.multidict._MultiDict` as it is written: generic in the key type, the value type, the key
  canonicalisation `_kconv` and the value reduction `_reduce_values`.  The three concrete classes are instances:

    Headers        : keys/values bytes, `_kconv = bytes.lower`, `_reduce_values = ", ".join`   (= `Model/C35.lean`, proved)
    MultiDict      : `_kconv = id`,  `_reduce_values = values[0]`
    MultiDictView  : the same methods, but `fields` is a property: read through `getter()`, written through `setter()`
                     (request.query, request.cookies, request.urlencoded_form, …); `_kconv = id`, `_reduce_values = values[0]`

  `View` models the property indirection with an explicit getter/setter pair on the parent's state.
-/
import MitmVerif.Model.C35
namespace MitmVerif.C35.Gen

variable {α β γ : Type} [BEq γ]

/-- `get_all` -/
def getAll (kc : α → γ) (fs : List (α × β)) (k : α) : List β :=
  fs.filterMap (fun f => if kc f.1 == kc k then some f.2 else none)

/-- `__getitem__`; `none` = KeyError -/
def getItem (kc : α → γ) (red : List β → β) (fs : List (α × β)) (k : α) : Option β :=
  let vs := getAll kc fs k
  if vs.isEmpty then none else some (red vs)

def contains (kc : α → γ) (red : List β → β) (fs : List (α × β)) (k : α) : Bool := (getItem kc red fs k).isSome

def setAllLoop (kc : α → γ) (c : γ) : List (α × β) → List β → List (α × β) × List β
  | [], vs => ([], vs)
  | f :: fs, vs =>
    if kc f.1 == c then
      match vs with
      | [] => setAllLoop kc c fs []
      | v :: vs' => let r := setAllLoop kc c fs vs'; ((f.1, v) :: r.1, r.2)
    else
      let r := setAllLoop kc c fs vs; (f :: r.1, r.2)

/-- `set_all` -/
def setAll (kc : α → γ) (fs : List (α × β)) (k : α) (vs : List β) : List (α × β) :=
  let r := setAllLoop kc (kc k) fs vs
  r.1 ++ r.2.map (fun v => (k, v))

/-- `__setitem__` -/
def setItem (kc : α → γ) (fs : List (α × β)) (k : α) (v : β) : List (α × β) := setAll kc fs k [v]

/-- `__delitem__`; `none` = KeyError -/
def delItem (kc : α → γ) (red : List β → β) (fs : List (α × β)) (k : α) : Option (List (α × β)) :=
  if !contains kc red fs k then none
  else some (fs.filter (fun f => kc k != kc f.1))

/-- `insert` -/
def insert (fs : List (α × β)) (i : Int) (k : α) (v : β) : List (α × β) :=
  fs.take (pyIndex fs.length i) ++ (k, v) :: fs.drop (pyIndex fs.length i)

/-- `add` -/
def add (fs : List (α × β)) (k : α) (v : β) : List (α × β) := insert fs (fs.length : Int) k v

/-- `__iter__` -/
def iterLoop (kc : α → γ) (seen : List γ) : List (α × β) → List α
  | [] => []
  | f :: fs =>
    if seen.contains (kc f.1) then iterLoop kc seen fs
    else f.1 :: iterLoop kc (kc f.1 :: seen) fs

def iter (kc : α → γ) (fs : List (α × β)) : List α := iterLoop kc [] fs

def setAdd (s : List γ) (x : γ) : List γ := if s.contains x then s else x :: s

/-- `__len__` -/
def len (kc : α → γ) (fs : List (α × β)) : Nat := (fs.foldl (fun s f => setAdd s (kc f.1)) []).length

/-- `MultiDict._reduce_values` / `MultiDictView._reduce_values`: `values[0]` (only ever called on a non-empty list) -/
def first (dflt : β) (vs : List β) : β := vs.headD dflt

/-! ### operation sequences on one `_MultiDict` -/

inductive MOp (α β : Type) where
  | getAll (k : α) | getItem (k : α) | setAll (k : α) (vs : List β) | setItem (k : α) (v : β) | delItem (k : α)
  | insert (i : Int) (k : α) (v : β) | add (k : α) (v : β) | iter | len

inductive MRet (α β : Type) where
  | none | keyError | vals (l : List β) | val (v : β) | keys (l : List α) | nat (n : Nat)

/-- one method call: the value assigned to `self.fields` (`none`: the method does not assign) and the return value -/
def stepOp (kc : α → γ) (red : List β → β) (fs : List (α × β)) : MOp α β → Option (List (α × β)) × MRet α β
  | .getAll k => (none, .vals (getAll kc fs k))
  | .getItem k => (none, match getItem kc red fs k with | some v => .val v | none => .keyError)
  | .setAll k vs => (some (setAll kc fs k vs), .none)
  | .setItem k v => (some (setItem kc fs k v), .none)
  | .delItem k => (match delItem kc red fs k with | some fs' => (some fs', .none) | none => (none, .keyError))
  | .insert i k v => (some (insert fs i k v), .none)
  | .add k v => (some (add fs k v), .none)
  | .iter => (none, .keys (iter kc fs))
  | .len => (none, .nat (len kc fs))

/-- a concrete `MultiDict`: the trace of return values and fields -/
def runOps (kc : α → γ) (red : List β → β) (fs : List (α × β)) : List (MOp α β) → List (MRet α β × List (α × β))
  | [] => []
  | op :: ops =>
    let r := stepOp kc red fs op
    let fs' := r.1.getD fs
    (r.2, fs') :: runOps kc red fs' ops

/-! ### `MultiDictView`: `fields` is a property over the parent -/

/-- `MultiDictView(getter, setter)` over a parent of type `σ` -/
structure Lens (σ α β : Type) where
  get : σ → List (α × β)
  set : σ → List (α × β) → σ

namespace View
variable {σ : Type}

def getAll (kc : α → γ) (L : Lens σ α β) (p : σ) (k : α) : List β := Gen.getAll kc (L.get p) k
def getItem (kc : α → γ) (red : List β → β) (L : Lens σ α β) (p : σ) (k : α) : Option β := Gen.getItem kc red (L.get p) k
def setAll (kc : α → γ) (L : Lens σ α β) (p : σ) (k : α) (vs : List β) : σ := L.set p (Gen.setAll kc (L.get p) k vs)
def setItem (kc : α → γ) (L : Lens σ α β) (p : σ) (k : α) (v : β) : σ := setAll kc L p k [v]
def delItem (kc : α → γ) (red : List β → β) (L : Lens σ α β) (p : σ) (k : α) : Option σ :=
  (Gen.delItem kc red (L.get p) k).map (L.set p)
def insert (L : Lens σ α β) (p : σ) (i : Int) (k : α) (v : β) : σ := L.set p (Gen.insert (L.get p) i k v)
def add (L : Lens σ α β) (p : σ) (k : α) (v : β) : σ := L.set p (Gen.add (L.get p) k v)
def iter (kc : α → γ) (L : Lens σ α β) (p : σ) : List α := Gen.iter kc (L.get p)
def len (kc : α → γ) (L : Lens σ α β) (p : σ) : Nat := Gen.len kc (L.get p)
/-- `MultiDictView.copy()`: `MultiDict(self.fields)` — a free-standing MultiDict -/
def copy (L : Lens σ α β) (p : σ) : List (α × β) := L.get p

/-- one method call on a view: compute on `getter()`, write through `setter()` when the method assigns -/
def stepOp (kc : α → γ) (red : List β → β) (L : Lens σ α β) (p : σ) (op : MOp α β) : σ × MRet α β :=
  let r := Gen.stepOp kc red (L.get p) op
  (match r.1 with | some fs' => L.set p fs' | none => p, r.2)

/-- a view over a parent: the trace of return values and of what the getter shows afterwards -/
def runOps (kc : α → γ) (red : List β → β) (L : Lens σ α β) (p : σ) : List (MOp α β) → List (MRet α β × List (α × β))
  | [] => []
  | op :: ops =>
    let r := stepOp kc red L p op
    (r.2, L.get r.1) :: runOps kc red L r.1 ops

end View
end MitmVerif.C35.Gen
