/-
  C35 — the abstract specification the model is proved against: an ordered multimap whose keys are header
  names modulo ASCII case (`keq`), stored as an ordered association list that keeps every field's spelling.
  All operations are given declaratively (filters, positions, first occurrences); nothing here mirrors the
  control flow of the Python code.  Also: the validity predicates for the HTTP/1 round trip.
-/
import MitmVerif.Model.C35
namespace MitmVerif.C35.Spec
open MitmVerif MitmVerif.C35

/-- two names denote the same key -/
def keq (a b : Bytes) : Bool := asciiLower a == asciiLower b

/-- all values stored under `k`, in field order -/
def getAll (m : Fields) (k : Bytes) : List Bytes := (m.filter (fun e => keq e.1 k)).map (·.2)

/-- folded value: first value, every further one prefixed by ", " -/
def fold : List Bytes → Bytes
  | [] => []
  | v :: vs => v ++ vs.flatMap (fun w => commaSp ++ w)

def lookup (m : Fields) (k : Bytes) : Option Bytes :=
  match getAll m k with
  | [] => none
  | vs => some (fold vs)

def count (m : Fields) (k : Bytes) : Nat := (m.filter (fun e => keq e.1 k)).length

/-- the `i`-th, `i+1`-th, … field named `k` receives `vs[i]`, `vs[i+1]`, … keeping position and spelling;
    fields named `k` beyond the supply of values disappear; all other fields stay -/
def rewrite (k : Bytes) (vs : List Bytes) : Nat → Fields → Fields
  | _, [] => []
  | i, e :: m =>
    if keq e.1 k then
      match vs[i]? with
      | some v => (e.1, v) :: rewrite k vs (i + 1) m
      | none => rewrite k vs (i + 1) m
    else e :: rewrite k vs i m

def setAll (m : Fields) (k : Bytes) (vs : List Bytes) : Fields :=
  rewrite k vs 0 m ++ (vs.drop (count m k)).map (fun v => (k, v))

/-- all fields not named `k` -/
def remove (m : Fields) (k : Bytes) : Fields := m.filter (fun e => !keq e.1 k)

def del (m : Fields) (k : Bytes) : Option Fields := if count m k = 0 then none else some (remove m k)

/-- position denoted by a Python slice bound -/
def pos (n : Nat) (i : Int) : Nat := if 0 ≤ i then min i.toNat n else (max ((n : Int) + i) 0).toNat

def insertNth (e : Field) : Nat → Fields → Fields
  | 0, m => e :: m
  | _ + 1, [] => [e]
  | n + 1, x :: m => x :: insertNth e n m

def insertAt (m : Fields) (i : Int) (e : Field) : Fields := insertNth e (pos m.length i) m

/-- spelling of the first field of every distinct key, in order of first occurrence -/
def firsts : Fields → List Bytes
  | [] => []
  | e :: m => e.1 :: firsts (m.filter (fun x => !keq x.1 e.1))
termination_by m => m.length
decreasing_by
  simp only [List.length_cons, List.unattach_filter, List.unattach_attach]
  exact Nat.lt_succ_of_le (List.length_filter_le _ _)

def size (m : Fields) : Nat := (firsts m).length

def items (m : Fields) : Fields := (firsts m).map (fun k => (k, fold (getAll m k)))

def serialise (m : Fields) : Bytes := m.flatMap (fun e => e.1 ++ colonSp ++ e.2 ++ crlf)

def popFirst (m : Fields) : Option (Fields × Bytes × Bytes) :=
  match m with
  | [] => none
  | e :: _ => some (remove m e.1, e.1, fold (getAll m e.1))

/-- effect of one operation on its target, stated with the abstract operations only -/
def apply (st : Store) (m : Fields) : Op → Fields × Ret × Option Fields
  | .getItem _ k => (m, (match lookup m k with | some v => .val v | none => .keyError), none)
  | .get _ k => (m, .opt (lookup m k), none)
  | .getAll _ k => (m, .list (getAll m k), none)
  | .contains _ k => (m, .bool (count m k != 0), none)
  | .setItem _ k v => (setAll m k [v], .none, none)
  | .setAll _ k vs => (setAll m k vs, .none, none)
  | .delItem _ k => (match del m k with | some m' => (m', .none, none) | none => (m, .keyError, none))
  | .add _ k v => (m ++ [(k, v)], .none, none)
  | .insert _ i k v => (insertAt m i (k, v), .none, none)
  | .iter _ => (m, .list (firsts m), none)
  | .len _ => (m, .nat (size m), none)
  | .eq _ u => (match st[u]? with | some g => (m, .bool (decide (m = g)), none) | none => (m, .badObj, none))
  | .copy _ => (m, .obj st.length, some m)
  | .itemsMulti _ => (m, .pairs m, none)
  | .items _ => (m, .pairs (items m), none)
  | .keys _ multi => (m, .list (if multi then m.map (·.1) else firsts m), none)
  | .values _ multi => (m, .list (if multi then m.map (·.2) else (firsts m).map (fun k => fold (getAll m k))), none)
  | .pop _ k => (match lookup m k with | some v => (remove m k, .val v, none) | none => (m, .keyError, none))
  | .popitem _ => (match popFirst m with | some r => (r.1, .pair r.2.1 r.2.2, none) | none => (m, .keyError, none))
  | .setdefault _ k d => (match lookup m k with | some v => (m, .val v, none) | none => (setAll m k [d], .val d, none))
  | .clear _ => ([], .none, none)
  | .update _ ps => (ps.foldl (fun s p => setAll s p.1 [p.2]) m, .none, none)
  | .toBytes _ => (m, .bytes (serialise m), none)

def step (st : Store) (op : Op) : Store × Ret :=
  match st[op.target]? with
  | none => (st, .badObj)
  | some m =>
    let r := apply st m op
    let st' := st.set op.target r.1
    (match r.2.2 with | some o => st' ++ [o] | none => st', r.2.1)

def run (st : Store) : List Op → List (Ret × Store)
  | [] => []
  | op :: ops => let r := step st op; (r.2, r.1) :: run r.1 ops

/-! ### validity of header fields for HTTP/1 serialisation -/

/-- RFC 7230 `tchar` -/
def tchar (c : UInt8) : Bool :=
  (0x30 ≤ c.toNat && c.toNat ≤ 0x39) || (0x41 ≤ c.toNat && c.toNat ≤ 0x5a) || (0x61 ≤ c.toNat && c.toNat ≤ 0x7a)
  || c = 0x21 || c = 0x23 || c = 0x24 || c = 0x25 || c = 0x26 || c = 0x27 || c = 0x2a || c = 0x2b || c = 0x2d
  || c = 0x2e || c = 0x5e || c = 0x5f || c = 0x60 || c = 0x7c || c = 0x7e

/-- RFC 7230 `field-vchar / obs-text / SP / HTAB` -/
def fieldByte (c : UInt8) : Bool := c = 0x09 || (0x20 ≤ c.toNat && c.toNat ≤ 0x7e) || 0x80 ≤ c.toNat

def spht (c : UInt8) : Bool := c = 0x20 || c = 0x09

def headOk (p : UInt8 → Bool) (v : Bytes) : Bool := match v.head? with | none => true | some c => !p c
def lastOk (p : UInt8 → Bool) (v : Bytes) : Bool := match v.getLast? with | none => true | some c => !p c

def validName (n : Bytes) : Bool := !n.isEmpty && n.all tchar
def validValue (v : Bytes) : Bool := v.all fieldByte && headOk spht v && lastOk spht v

/-- RFC-valid header fields -/
def ValidFields (fs : Fields) : Prop := ∀ f ∈ fs, validName f.1 = true ∧ validValue f.2 = true

/-- what the round trip actually needs (weaker than RFC validity) -/
def okName (n : Bytes) : Bool := !n.isEmpty && n.all (fun c => c != 0x3a && c != 0x0a) && headOk spht n
def okValue (v : Bytes) : Bool := v.all (fun c => c != 0x0a) && headOk pyWs v && lastOk pyWs v
def RoundTrippable (fs : Fields) : Prop := ∀ f ∈ fs, okName f.1 = true ∧ okValue f.2 = true

end MitmVerif.C35.Spec
