/-
  C35 — the str/bytes boundary of `mitmproxy.http.Headers` and the API layer on top of the byte-level model.

  * `PyStr`  : a Python `str` as its list of code points.
  * `native` : `mitmproxy.http._native`        = `bytes.decode("utf-8", "surrogateescape")`
  * `encodeSE` / `alwaysBytes` : `mitmproxy.http._always_bytes` = `str.encode("utf-8", "surrogateescape")` for `str`,
    identity for `bytes`; `none` = UnicodeEncodeError.
  * `Api.*`  : the `Headers` methods as the user calls them — arguments are `str` or `bytes`, results are `str` —
    written in the order the Python code converts and delegates (`Headers.get_all`, `set_all`, `insert`,
    `__delitem__`, `__iter__`, `items`, and the MutableMapping mixins that go through them), and the constructor
    `Headers(fields, **kwargs)`.

  Decoder note.  CPython reports a malformed sequence as a range of 1–3 bytes and the surrogateescape handler
  escapes every byte of that range; all bytes of such a range after the first are continuation bytes (0x80–0xBF),
  which are malformed as lead bytes and would be escaped one by one anyway.  The model therefore escapes the lead
  byte and resumes at the next byte; the result is the same code point list (checked against CPython by the
  harness on every string of up to 3 bytes over the boundary alphabet, and random ones).
-/
import MitmVerif.Model.C35
namespace MitmVerif.C35

abbrev PyStr := List Nat

/-! ### `str.encode("utf-8", "surrogateescape")` -/

def enc1 (cp : Nat) : Option Bytes :=
  if cp < 0x80 then some [UInt8.ofNat cp]
  else if cp < 0x800 then some [UInt8.ofNat (0xC0 + cp / 64), UInt8.ofNat (0x80 + cp % 64)]
  else if 0xD800 ≤ cp ∧ cp ≤ 0xDFFF then
    (if 0xDC80 ≤ cp ∧ cp ≤ 0xDCFF then some [UInt8.ofNat (cp - 0xDC00)] else none)   -- escaped byte / lone surrogate
  else if cp < 0x10000 then
    some [UInt8.ofNat (0xE0 + cp / 4096), UInt8.ofNat (0x80 + cp / 64 % 64), UInt8.ofNat (0x80 + cp % 64)]
  else if cp < 0x110000 then
    some [UInt8.ofNat (0xF0 + cp / 262144), UInt8.ofNat (0x80 + cp / 4096 % 64), UInt8.ofNat (0x80 + cp / 64 % 64),
          UInt8.ofNat (0x80 + cp % 64)]
  else none

def encodeSE : PyStr → Option Bytes
  | [] => some []
  | c :: cs =>
    match enc1 c, encodeSE cs with
    | some a, some b => some (a ++ b)
    | _, _ => none

/-! ### `bytes.decode("utf-8", "surrogateescape")` -/

def isCont (n : Nat) : Bool := 0x80 ≤ n && n ≤ 0xBF

/-- second byte of a 3-byte sequence: excludes overlong forms (E0 80–9F) and encoded surrogates (ED A0–BF) -/
def ok3 (n0 n1 : Nat) : Bool := isCont n1 && (n0 != 0xE0 || 0xA0 ≤ n1) && (n0 != 0xED || n1 ≤ 0x9F)
/-- second byte of a 4-byte sequence: excludes overlong forms (F0 80–8F) and values above U+10FFFF (F4 90–BF) -/
def ok4 (n0 n1 : Nat) : Bool := isCont n1 && (n0 != 0xF0 || 0x90 ≤ n1) && (n0 != 0xF4 || n1 ≤ 0x8F)

/-- one decoding step: the code point produced and the number of bytes consumed -/
def decStep : Bytes → Nat × Nat
  | [] => (0, 0)
  | b0 :: t =>
    let n0 := b0.toNat
    let esc := (0xDC00 + n0, 1)
    if n0 < 0x80 then (n0, 1)
    else if 0xC2 ≤ n0 ∧ n0 ≤ 0xDF then
      match t with
      | b1 :: _ => if isCont b1.toNat then ((n0 - 0xC0) * 64 + (b1.toNat - 0x80), 2) else esc
      | _ => esc
    else if 0xE0 ≤ n0 ∧ n0 ≤ 0xEF then
      match t with
      | b1 :: b2 :: _ =>
        if ok3 n0 b1.toNat && isCont b2.toNat then
          ((n0 - 0xE0) * 4096 + (b1.toNat - 0x80) * 64 + (b2.toNat - 0x80), 3)
        else esc
      | _ => esc
    else if 0xF0 ≤ n0 ∧ n0 ≤ 0xF4 then
      match t with
      | b1 :: b2 :: b3 :: _ =>
        if ok4 n0 b1.toNat && isCont b2.toNat && isCont b3.toNat then
          ((n0 - 0xF0) * 262144 + (b1.toNat - 0x80) * 4096 + (b2.toNat - 0x80) * 64 + (b3.toNat - 0x80), 4)
        else esc
      | _ => esc
    else esc

def decF : Nat → Bytes → PyStr
  | _, [] => []
  | 0, _ :: _ => []
  | f + 1, b :: t => let r := decStep (b :: t); r.1 :: decF f ((b :: t).drop r.2)

/-- `_native` -/
def native (b : Bytes) : PyStr := decF b.length b

/-! ### CPython's decoder, control flow as in `stringlib/codecs.h: utf8_decode` + `unicode_decode_utf8`

`utf8_decode` stops at a malformed or truncated sequence and reports *how far* it got; `unicode_decode_utf8` turns that
into an error range `[start, end)` — 1 byte for "invalid start byte", `k` bytes for "invalid continuation byte" after
`k-1` good continuation bytes, everything up to the end for "unexpected end of data" — and its surrogateescape branch
writes `0xDC00 + byte` for EVERY byte of the range and resumes after it.  `decStepR` transcribes exactly that;
`Props.C35.nativeRange_eq_native` proves it yields the same `str` as the one-byte-at-a-time `decStep` above. -/

/-- `!IS_CONTINUATION_BYTE(ch2) || (ch2 < 0xA0 ? ch == 0xE0 : ch == 0xED)` -/
def bad3 (n0 n1 : Nat) : Bool := !isCont n1 || (if n1 < 0xA0 then n0 == 0xE0 else n0 == 0xED)
/-- `!IS_CONTINUATION_BYTE(ch2) || (ch2 < 0x90 ? ch == 0xF0 : ch == 0xF4)` -/
def bad4 (n0 n1 : Nat) : Bool := !isCont n1 || (if n1 < 0x90 then n0 == 0xF0 else n0 == 0xF4)

def escAll (bs : Bytes) : PyStr := bs.map (fun b => 0xDC00 + b.toNat)

/-- one round of the decoding loop: code points written, bytes consumed -/
def decStepR : Bytes → PyStr × Nat
  | [] => ([], 0)
  | b0 :: t =>
    let n0 := b0.toNat
    if n0 < 0x80 then ([n0], 1)
    else if n0 < 0xE0 then
      if n0 < 0xC2 then (escAll [b0], 1)                               -- InvalidStart
      else match t with
        | [] => (escAll [b0], 1)                                       -- unexpected end: [s, end)
        | b1 :: _ =>
          if !isCont b1.toNat then (escAll [b0], 1)                    -- InvalidContinuation1
          else ([(n0 - 0xC0) * 64 + (b1.toNat - 0x80)], 2)
    else if n0 < 0xF0 then
      match t with
      | [] => (escAll [b0], 1)                                         -- end - s < 2: unexpected end
      | [b1] =>
        if bad3 n0 b1.toNat then (escAll [b0], 1)                      -- InvalidContinuation1
        else (escAll [b0, b1], 2)                                      -- unexpected end: [s, end)
      | b1 :: b2 :: _ =>
        if !isCont b1.toNat then (escAll [b0], 1)
        else if n0 == 0xE0 && b1.toNat < 0xA0 then (escAll [b0], 1)
        else if n0 == 0xED && 0xA0 ≤ b1.toNat then (escAll [b0], 1)
        else if !isCont b2.toNat then (escAll [b0, b1], 2)             -- InvalidContinuation2
        else ([(n0 - 0xE0) * 4096 + (b1.toNat - 0x80) * 64 + (b2.toNat - 0x80)], 3)
    else if n0 < 0xF5 then
      match t with
      | [] => (escAll [b0], 1)
      | [b1] =>
        if bad4 n0 b1.toNat then (escAll [b0], 1) else (escAll [b0, b1], 2)
      | [b1, b2] =>
        if bad4 n0 b1.toNat then (escAll [b0], 1)
        else if !isCont b2.toNat then (escAll [b0, b1], 2)             -- InvalidContinuation2
        else (escAll [b0, b1, b2], 3)                                  -- unexpected end: [s, end)
      | b1 :: b2 :: b3 :: _ =>
        if !isCont b1.toNat then (escAll [b0], 1)
        else if n0 == 0xF0 && b1.toNat < 0x90 then (escAll [b0], 1)
        else if n0 == 0xF4 && 0x90 ≤ b1.toNat then (escAll [b0], 1)
        else if !isCont b2.toNat then (escAll [b0, b1], 2)
        else if !isCont b3.toNat then (escAll [b0, b1, b2], 3)         -- InvalidContinuation3
        else ([(n0 - 0xF0) * 262144 + (b1.toNat - 0x80) * 4096 + (b2.toNat - 0x80) * 64 + (b3.toNat - 0x80)], 4)
    else (escAll [b0], 1)                                              -- 0xF5..0xFF: InvalidStart

def decFR : Nat → Bytes → PyStr
  | _, [] => []
  | 0, _ :: _ => []
  | f + 1, b :: t => let r := decStepR (b :: t); r.1 ++ decFR f ((b :: t).drop r.2)

/-- `bytes.decode("utf-8", "surrogateescape")` with CPython's range-based error handling -/
def nativeRange (b : Bytes) : PyStr := decFR b.length b

/-! ### arguments and the API layer -/

/-- a `str | bytes` argument -/
inductive Arg where
  | b (x : Bytes)
  | s (x : PyStr)
  deriving DecidableEq

/-- `_always_bytes`; `none` = UnicodeEncodeError -/
def alwaysBytes : Arg → Option Bytes
  | .b x => some x
  | .s x => encodeSE x

/-- `", ".join(values)` on `str` -/
def strJoin (sep : PyStr) : List PyStr → PyStr
  | [] => []
  | [v] => v
  | v :: w :: vs => v ++ sep ++ strJoin sep (w :: vs)

def commaSpS : PyStr := [0x2c, 0x20]

namespace Api

/-- `", ".join(_native(v) for v in values)` — `Headers._reduce_values` works on the `str` list `Headers.get_all` returns -/
def fold (vs : List Bytes) : PyStr := strJoin commaSpS (vs.map native)

/-- results as the caller sees them -/
inductive ARet where
  | none | keyError | unicodeError | badObj
  | str (s : PyStr) | opt (o : Option PyStr) | strs (l : List PyStr) | bool (b : Bool) | nat (n : Nat)
  | pairs (l : List (PyStr × PyStr)) | pair (k v : PyStr) | obj (n : Nat) | bytes (b : Bytes) | arg (a : Arg)
  deriving DecidableEq

inductive K1 where | getItem | get | getAll | contains | delItem | pop
  deriving DecidableEq
inductive KV where | setItem | add | setdefault
  deriving DecidableEq

/-- the calls without `str | bytes` arguments -/
inductive POp where
  | iter (t : Nat) | len (t : Nat) | eq (t u : Nat) | copy (t : Nat) | itemsMulti (t : Nat) | items (t : Nat)
  | keys (t : Nat) (multi : Bool) | values (t : Nat) (multi : Bool) | popitem (t : Nat) | clear (t : Nat) | toBytes (t : Nat)

def POp.toOp : POp → Op
  | .iter t => .iter t | .len t => .len t | .eq t u => .eq t u | .copy t => .copy t | .itemsMulti t => .itemsMulti t
  | .items t => .items t | .keys t m => .keys t m | .values t m => .values t m | .popitem t => .popitem t
  | .clear t => .clear t | .toBytes t => .toBytes t

/-- a call as the user makes it: names and values are `str` or `bytes` -/
inductive AOp where
  | k1 (kind : K1) (t : Nat) (k : Arg)
  | kv (kind : KV) (t : Nat) (k v : Arg)
  | setAll (t : Nat) (k : Arg) (vs : List Arg)
  | insert (t : Nat) (i : Int) (k v : Arg)
  | update (t : Nat) (ps : List (Arg × Arg))
  | plain (p : POp)          -- no str/bytes arguments: iter, len, eq, copy, items…, keys, values, popitem, clear, bytes

def convList : List Arg → Option (List Bytes)
  | [] => some []
  | a :: as => match alwaysBytes a, convList as with
    | some x, some xs => some (x :: xs)
    | _, _ => none

/-- longest prefix of `(key, value)` pairs that converts, and whether that was all of them
    (`update` assigns pair by pair, so the pairs before a failing one have already been assigned) -/
def convPairs : List (Arg × Arg) → Fields × Bool
  | [] => ([], true)
  | (k, v) :: ps => match alwaysBytes k, alwaysBytes v with
    | some kb, some vb => let r := convPairs ps; ((kb, vb) :: r.1, r.2)
    | _, _ => ([], false)

/-- the byte-level operation a call delegates to after `_always_bytes`; `none` = UnicodeEncodeError before any change.
    (`setdefault` converts its default only when the key is absent; `update` is handled in `step`.) -/
def lower (fs : Fields) : AOp → Option Op
  | .k1 kind t k => (alwaysBytes k).map (fun kb => match kind with
      | .getItem => Op.getItem t kb | .get => Op.get t kb | .getAll => Op.getAll t kb
      | .contains => Op.contains t kb | .delItem => Op.delItem t kb | .pop => Op.pop t kb)
  | .kv kind t k v =>
    match alwaysBytes k with
    | none => none
    | some kb =>
      match kind with
      | .setdefault =>
        if C35.contains fs kb then some (Op.setdefault t kb [])          -- default never looked at
        else (alwaysBytes v).map (fun vb => Op.setdefault t kb vb)
      | .setItem => (alwaysBytes v).map (fun vb => Op.setItem t kb vb)
      | .add => (alwaysBytes v).map (fun vb => Op.add t kb vb)
  | .setAll t k vs => match alwaysBytes k, convList vs with
    | some kb, some vbs => some (Op.setAll t kb vbs)
    | _, _ => none
  | .insert t i k v => match alwaysBytes k, alwaysBytes v with
    | some kb, some vb => some (Op.insert t i kb vb)
    | _, _ => none
  | .update t ps => some (Op.update t (convPairs ps).1)
  | .plain p => some p.toOp

def AOp.target : AOp → Nat
  | .k1 _ t _ | .kv _ t _ _ | .setAll t _ _ | .insert t _ _ _ | .update t _ => t
  | .plain p => p.toOp.target

/-- keys of `ItemsView` / `popitem`: `_native` of the first spellings; looking one up goes through `_always_bytes` again -/
def items (fs : Fields) : List (PyStr × PyStr) :=
  ((C35.iter fs).map native).filterMap (fun k =>
    match encodeSE k with
    | none => none
    | some kb => if (C35.getAll fs kb).isEmpty then none else some (k, fold (C35.getAll fs kb)))

/-- what the call returns, computed from the fields BEFORE the call the way `Headers` computes it -/
def ret (st : Store) (fs : Fields) (a : AOp) (op : Op) : ARet :=
  match a, op with
  | .k1 .getItem _ _, .getItem _ kb => if (C35.getAll fs kb).isEmpty then .keyError else .str (fold (C35.getAll fs kb))
  | .k1 .get _ _, .get _ kb => .opt (if (C35.getAll fs kb).isEmpty then Option.none else some (fold (C35.getAll fs kb)))
  | .k1 .getAll _ _, .getAll _ kb => .strs ((C35.getAll fs kb).map native)
  | .k1 .contains _ _, .contains _ kb => .bool (!(C35.getAll fs kb).isEmpty)
  | .k1 .delItem _ _, .delItem _ kb => if (C35.getAll fs kb).isEmpty then .keyError else .none
  | .k1 .pop _ _, .pop _ kb => if (C35.getAll fs kb).isEmpty then .keyError else .str (fold (C35.getAll fs kb))
  | .kv .setdefault _ _ v, .setdefault _ kb _ =>
    if (C35.getAll fs kb).isEmpty then .arg v else .str (fold (C35.getAll fs kb))
  | .plain _, .iter _ => .strs ((C35.iter fs).map native)
  | .plain _, .len _ => .nat (C35.len fs)
  | .plain _, .eq _ u => (match st[u]? with | some g => .bool (C35.eq fs g) | Option.none => .badObj)
  | .plain _, .copy _ => .obj st.length
  | .plain _, .itemsMulti _ => .pairs (fs.map (fun f => (native f.1, native f.2)))
  | .plain _, .items _ => .pairs (items fs)
  | .plain _, .keys _ m => .strs (if m then fs.map (fun f => native f.1) else (items fs).map (·.1))
  | .plain _, .values _ m => .strs (if m then fs.map (fun f => native f.2) else (items fs).map (·.2))
  | .plain _, .popitem _ => (match items fs with | [] => .keyError | (k, v) :: _ => .pair k v)
  | .plain _, .toBytes _ => .bytes (C35.toBytes fs)
  | _, _ => .none

/-- one call on the store -/
def step (st : Store) (a : AOp) : Store × ARet :=
  match st[a.target]? with
  | Option.none => (st, .badObj)
  | some fs =>
    match lower fs a with
    | Option.none => (st, .unicodeError)
    | some op =>
      let st' := (C35.step st op).1
      match a with
      | .update _ ps => (st', if (convPairs ps).2 then .none else .unicodeError)
      | _ => (st', ret st fs a op)

def run (st : Store) : List AOp → List (ARet × Store)
  | [] => []
  | a :: as => let r := step st a; (r.2, r.1) :: run r.1 as

/-- operations without text arguments (what `AOp.plain` is meant to wrap) -/
def textFree : Op → Bool
  | .iter _ | .len _ | .eq _ _ | .copy _ | .itemsMulti _ | .items _ | .keys _ _ | .values _ _ | .popitem _ | .clear _
  | .toBytes _ => true
  | _ => false

def AOp.wf : AOp → Bool
  | .plain p => textFree p.toOp
  | _ => true

def encList : List PyStr → Option (List Bytes)
  | [] => some []
  | s :: ss => match encodeSE s, encList ss with
    | some b, some bs => some (b :: bs)
    | _, _ => Option.none

def encPairs : List (PyStr × PyStr) → Option Fields
  | [] => some []
  | (k, v) :: ps => match encodeSE k, encodeSE v, encPairs ps with
    | some kb, some vb, some r => some ((kb, vb) :: r)
    | _, _, _ => Option.none

/-- the byte-level result a `str`-level result stands for (every `str` taken back through `_always_bytes`) -/
def ARet.enc : ARet → Option Ret
  | .none => some .none
  | .keyError => some .keyError
  | .unicodeError => Option.none
  | .badObj => some .badObj
  | .str s => (encodeSE s).map Ret.val
  | .arg a => (alwaysBytes a).map Ret.val
  | .opt Option.none => some (.opt Option.none)
  | .opt (some s) => (encodeSE s).map (fun b => Ret.opt (some b))
  | .strs l => (encList l).map Ret.list
  | .bool b => some (.bool b)
  | .nat n => some (.nat n)
  | .pairs l => (encPairs l).map Ret.pairs
  | .pair k v => match encodeSE k, encodeSE v with
    | some kb, some vb => some (.pair kb vb)
    | _, _ => Option.none
  | .obj n => some (.obj n)
  | .bytes b => some (.bytes b)

/-- a call that is well-formed and, if it is an `update`, has only encodable pairs -/
def AOp.ok : AOp → Bool
  | .update _ ps => (convPairs ps).2
  | a => a.wf

/-- the byte-level operation sequence a call sequence lowers to (lowering `setdefault` looks at the current fields);
    `none`: some call addresses a missing object or raises UnicodeEncodeError -/
def lowerAll (st : Store) : List AOp → Option (List Op)
  | [] => some []
  | a :: as =>
    match st[a.target]? with
    | Option.none => Option.none
    | some fs =>
      match lower fs a with
      | Option.none => Option.none
      | some op => (lowerAll (C35.step st op).1 as).map (fun ops => op :: ops)

/-- a `str`-level trace taken back to bytes -/
def encTrace : List (ARet × Store) → Option (List (Ret × Store))
  | [] => some []
  | (r, st) :: tr => match r.enc, encTrace tr with
    | some r', some tr' => some ((r', st) :: tr')
    | _, _ => Option.none

/-- a Python `dict` literal built by successive insertion -/
def dictSet (d : Fields) (k v : Bytes) : Fields :=
  if d.any (fun e => e.1 == k) then d.map (fun e => if e.1 == k then (e.1, v) else e) else d ++ [(k, v)]

def convKw : List (PyStr × Arg) → Option Fields
  | [] => some []
  | (n, v) :: rest => match encodeSE n, alwaysBytes v, convKw rest with
    | some nb, some vb, some r => some ((nb.map (fun c => if c = 0x5f then 0x2d else c), vb) :: r)   -- `.replace(b"_", b"-")`
    | _, _, _ => none

/-- `Headers(fields, **kwargs)`: `self.update({_always_bytes(name).replace(b"_", b"-"): _always_bytes(value) …})`;
    `none` = UnicodeEncodeError while building the dict (nothing is constructed) -/
def construct (fields : Fields) (kwargs : List (PyStr × Arg)) : Option Fields :=
  (convKw kwargs).map (fun ps => C35.update fields (ps.foldl (fun d p => dictSet d p.1 p.2) []))

/-- `Headers.__init__`'s type check on `fields`: every name and value must be `bytes`; `none` = TypeError
    ("Header fields must be bytes.") -/
def typedFields : List (Arg × Arg) → Option Fields
  | [] => some []
  | (.b k, .b v) :: r => (typedFields r).map (fun fs => (k, v) :: fs)
  | _ => Option.none

inductive CtorErr where | typeError | unicodeError
  deriving DecidableEq

/-- `Headers(fields, **kwargs)` with untyped `fields`: the type check comes first, then the keyword update -/
def constructFull (fields : List (Arg × Arg)) (kwargs : List (PyStr × Arg)) : Except CtorErr Fields :=
  match typedFields fields with
  | Option.none => .error .typeError
  | some fs => match construct fs kwargs with
    | Option.none => .error .unicodeError
    | some r => .ok r

end Api
end MitmVerif.C35
