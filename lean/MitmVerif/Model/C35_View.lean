/-
  C35 — `request.cookies` as a `MultiDictView`: the generic `_MultiDict` model (Model/C35_Gen.lean) over the parent
  "values of the Cookie headers", with C34's transcription of `Request._get_cookies` / `_set_cookies`
  (`cookies.parse_cookie_headers`, `cookies.format_cookie_header`) as getter and setter.
-/
import MitmVerif.Model.C34
import MitmVerif.Model.C35_Gen
import MitmVerif.Model.C35_Str
namespace MitmVerif.C35

/-- the parent of `request.cookies`: `self.headers.get_all("Cookie")`; the setter replaces all of them by one header -/
def cookieLens : Gen.Lens (List C34.Str) PyStr PyStr := ⟨C34.getCookies, fun _ ps => C34.setCookies ps⟩

/-- a cookie name the header format can carry: no `;`/`=`, no leading white space, not empty -/
def CookieKeyOk (k : PyStr) : Prop := (∀ x ∈ k, C34.isSemiEq x = false) ∧ C34.lstrip k = k ∧ k ≠ []

/-- `request.cookies = init` on a request without Cookie header, then the calls: return value, the view's fields and
    the Cookie header values after every call -/
def cookieRun (init : List (PyStr × PyStr)) :
    List (Gen.MOp PyStr PyStr) → List C34.Str → List (Gen.MRet PyStr PyStr × List (PyStr × PyStr) × List C34.Str)
  | [], _ => []
  | op :: ops, p =>
    let r := Gen.View.stepOp (id : PyStr → PyStr) (Gen.first []) cookieLens p op
    (r.2, cookieLens.get r.1, r.1) :: cookieRun init ops r.1

end MitmVerif.C35
