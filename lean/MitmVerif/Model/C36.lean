/-
  C36 — flow files round-trip; reading never fails unexpectedly.

  Executable model of
    * `mitmproxy/io/tnetstring.py` : `dumps` (the reverse-deque construction `_rdumpq`, with its size
      accounting), `load` (file based length-prefix reader), `pop` / `split` / `parse` (memoryview based),
      including every error branch with the Python exception class it raises, Python's `int()` /
      `float()` literal grammars for bytes, strict UTF-8 decoding, Python slice semantics for negative
      length prefixes, the recursion limit and allocation failure as environment parameters;
    * `mitmproxy/io/io.py` : `FlowReader.stream` (BOM/HAR sniffing, record loop, exception mapping) with
      `Flow.from_state ∘ compat.migrate_flow` and the HAR importer as parameters.
  Core Lean only.
-/
import MitmVerif.Basic.Bytes
namespace MitmVerif.C36

/-- a tnetstring-serialisable Python value. `float` carries its literal, `str` its UTF-8 bytes,
    `dict` its items in iteration order (for a parsed dict: the insertions in file order). -/
inductive Value where
  | null
  | bool (b : Bool)
  | int (i : Int)
  | float (tok : Bytes)
  | bytes (b : Bytes)
  | str (utf8 : Bytes)
  | list (l : List Value)
  | dict (kvs : List (Value × Value))
  deriving Inhabited

/-- what `tnetstring.load` / `pop` can raise. `emptyFile` is the ValueError whose message
    `FlowReader.stream` recognises as a clean end; `fuel` is a model artefact, proved unreachable. -/
inductive Err where
  | emptyFile | value | type | index | recursion | memory | fuel
  deriving DecidableEq, Repr, Inhabited

-- ------------------------------------------------------------------------------------------------
-- decimal numbers
-- ------------------------------------------------------------------------------------------------
def digitB (n : Nat) : UInt8 := UInt8.ofNat (48 + n)

def natDecF : Nat → Nat → Bytes
  | 0, n => [digitB (n % 10)]
  | f + 1, n => if n < 10 then [digitB n] else natDecF f (n / 10) ++ [digitB (n % 10)]

/-- `str(n).encode()` for a natural number -/
def natDec (n : Nat) : Bytes := natDecF n n

/-- `str(i).encode()` -/
def intDec (i : Int) : Bytes := if i < 0 then 0x2d :: natDec i.natAbs else natDec i.natAbs

def isDigit (c : UInt8) : Bool := 0x30 ≤ c.toNat && c.toNat ≤ 0x39
/-- `Py_ISSPACE` -/
def isSpace (c : UInt8) : Bool := c.toNat = 0x20 || (0x09 ≤ c.toNat && c.toNat ≤ 0x0d)

def decStep (a : Nat) (c : UInt8) : Nat := a * 10 + (c.toNat - 48)
def decVal (s : Bytes) : Nat := s.foldl decStep 0

/-- the digit/underscore scanner of `long_from_string_base`: value, number of digits, unread rest;
    `none` = misplaced underscore -/
def scanDigits : Bytes → Bool → Nat → Nat → Option (Nat × Nat × Bytes)
  | [], pu, acc, nd => if pu then none else some (acc, nd, [])
  | c :: cs, pu, acc, nd =>
    if isDigit c then scanDigits cs false (decStep acc c) (nd + 1)
    else if c = 0x5f then (if pu then none else scanDigits cs true acc nd)
    else if pu then none else some (acc, nd, c :: cs)

def maxStrDigits : Nat := 4300

/-- Python `int(b)` for a bytes-like object, base 10: (is-negative, magnitude); `none` = ValueError -/
def pyIntSM (s : Bytes) : Option (Bool × Nat) :=
  let s1 := s.dropWhile isSpace
  let neg := s1.head? = some 0x2d
  let s2 := if s1.head? = some 0x2d || s1.head? = some 0x2b then s1.drop 1 else s1
  if s2.head? = some 0x5f then none else
  match scanDigits s2 false 0 0 with
  | none => none
  | some (v, nd, rest) =>
    if nd = 0 then none
    else if nd > maxStrDigits then none
    else if !(rest.dropWhile isSpace).isEmpty then none
    else some (neg, v)

def smToInt (p : Bool × Nat) : Int := if p.1 then -(p.2 : Int) else (p.2 : Int)

-- ------------------------------------------------------------------------------------------------
-- Python float(b) literal grammar (validity only; the value stays a token)
-- ------------------------------------------------------------------------------------------------
/-- `_Py_string_to_number_with_underscores`: underscores only between two digits -/
def stripUnderscores : Bytes → UInt8 → Option Bytes
  | [], prev => if prev = 0x5f then none else some []
  | c :: t, prev =>
    if c = 0x5f then (if isDigit prev then stripUnderscores t c else none)
    else if prev = 0x5f && !isDigit c then none
    else (stripUnderscores t c).map (c :: ·)

def trimSpace (s : Bytes) : Bytes := ((s.dropWhile isSpace).reverse.dropWhile isSpace).reverse

def dropSign (s : Bytes) : Bytes :=
  if s.head? = some 0x2d || s.head? = some 0x2b then s.drop 1 else s

def wInf : Bytes := [0x69, 0x6e, 0x66]
def wInfinity : Bytes := [0x69, 0x6e, 0x66, 0x69, 0x6e, 0x69, 0x74, 0x79]
def wNan : Bytes := [0x6e, 0x61, 0x6e]

/-- `_Py_dg_strtod` after the sign: digits [. digits] [e[+-]digits], at least one mantissa digit -/
def decimalBody (s : Bytes) : Bool :=
  let n1 := (s.takeWhile isDigit).length
  let r1 := s.dropWhile isDigit
  let hasDot := r1.head? = some 0x2e
  let r1' := if hasDot then r1.drop 1 else r1
  let n2 := if hasDot then (r1'.takeWhile isDigit).length else 0
  let r2 := if hasDot then r1'.dropWhile isDigit else r1'
  if n1 + n2 = 0 then false
  else if r2.isEmpty then true
  else if r2.head? = some 0x65 || r2.head? = some 0x45 then
    let e := dropSign (r2.drop 1)
    !(e.takeWhile isDigit).isEmpty && (e.dropWhile isDigit).isEmpty
  else false

def floatBody (s : Bytes) : Bool :=
  let w := asciiLower s
  if w = wInf || w = wInfinity || w = wNan then true else decimalBody s

/-- does Python `float(b)` accept the bytes-like `b`? -/
def isFloatTok (s : Bytes) : Bool :=
  match stripUnderscores s 0 with
  | none => false
  | some s' => floatBody (dropSign (trimSpace s'))

-- ------------------------------------------------------------------------------------------------
-- strict UTF-8 (`str(data, "utf8")`)
-- ------------------------------------------------------------------------------------------------
def inR (lo hi : Nat) (c : UInt8) : Bool := lo ≤ c.toNat && c.toNat ≤ hi

def utf8Valid : Bytes → Bool
  | [] => true
  | c :: t =>
    if c.toNat < 0x80 then utf8Valid t
    else if inR 0xc2 0xdf c then
      match t with
      | c1 :: t1 => inR 0x80 0xbf c1 && utf8Valid t1
      | _ => false
    else if inR 0xe0 0xef c then
      match t with
      | c1 :: c2 :: t2 =>
        (if c.toNat = 0xe0 then inR 0xa0 0xbf c1 else if c.toNat = 0xed then inR 0x80 0x9f c1 else inR 0x80 0xbf c1)
          && inR 0x80 0xbf c2 && utf8Valid t2
      | _ => false
    else if inR 0xf0 0xf4 c then
      match t with
      | c1 :: c2 :: c3 :: t3 =>
        (if c.toNat = 0xf0 then inR 0x90 0xbf c1 else if c.toNat = 0xf4 then inR 0x80 0x8f c1 else inR 0x80 0xbf c1)
          && inR 0x80 0xbf c2 && inR 0x80 0xbf c3 && utf8Valid t3
      | _ => false
    else false

-- ------------------------------------------------------------------------------------------------
-- dumps: specification encoding and the transcription of `_rdumpq`
-- ------------------------------------------------------------------------------------------------
def bTrue : Bytes := [0x74, 0x72, 0x75, 0x65]
def bFalse : Bytes := [0x66, 0x61, 0x6c, 0x73, 0x65]

/-- `<len>:<payload><tag>` -/
def frame (payload : Bytes) (tag : UInt8) : Bytes :=
  natDec payload.length ++ 0x3a :: (payload ++ [tag])

mutual
/-- what `tnetstring.dumps` emits, written as a plain recursive specification; a dict's items come out
    in *reverse* iteration order (consequence of the last-chunk-first construction) -/
def enc : Value → Bytes
  | .null => frame [] 0x7e
  | .bool b => frame (if b then bTrue else bFalse) 0x21
  | .int i => frame (intDec i) 0x23
  | .float t => frame t 0x5e
  | .bytes b => frame b 0x2c
  | .str b => frame b 0x3b
  | .list l => frame (encList l) 0x5d
  | .dict kvs => frame (encPairsRev kvs) 0x7d
def encList : List Value → Bytes
  | [] => []
  | v :: t => enc v ++ encList t
def encPairsRev : List (Value × Value) → Bytes
  | [] => []
  | (k, v) :: t => encPairsRev t ++ (enc k ++ enc v)
end

mutual
/-- `_rdumpq(q, size, value)`: `q` is the deque (already joined), chunks are pushed on the left;
    returns the new deque and the new size -/
def rdumpq (q : Bytes) (size : Nat) : Value → Bytes × Nat
  | .null => ([0x30, 0x3a, 0x7e] ++ q, size + 3)
  | .bool b =>
    if b then ([0x34, 0x3a] ++ bTrue ++ 0x21 :: q, size + 7)
    else ([0x35, 0x3a] ++ bFalse ++ 0x21 :: q, size + 8)
  | .int i =>
    let data := intDec i
    let span := natDec data.length
    (span ++ 0x3a :: (data ++ 0x23 :: q), size + 2 + span.length + data.length)
  | .float t =>
    let span := natDec t.length
    (span ++ 0x3a :: (t ++ 0x5e :: q), size + 2 + span.length + t.length)
  | .bytes b =>
    let span := natDec b.length
    (span ++ 0x3a :: (b ++ 0x2c :: q), size + 2 + span.length + b.length)
  | .str b =>
    let span := natDec b.length
    (span ++ 0x3a :: (b ++ 0x3b :: q), size + 2 + span.length + b.length)
  | .list l =>
    let r := rdumpItems (0x5d :: q) (size + 1) l
    let span := natDec (r.2 - (size + 1))
    (span ++ 0x3a :: r.1, r.2 + 1 + span.length)
  | .dict kvs =>
    let r := rdumpPairs (0x7d :: q) (size + 1) kvs
    let span := natDec (r.2 - (size + 1))
    (span ++ 0x3a :: r.1, r.2 + 1 + span.length)
/-- `for item in reversed(value): size = _rdumpq(q, size, item)` -/
def rdumpItems (q : Bytes) (size : Nat) : List Value → Bytes × Nat
  | [] => (q, size)
  | v :: t =>
    let r := rdumpItems q size t
    rdumpq r.1 r.2 v
/-- `for k, v in value.items(): size = _rdumpq(q, size, v); size = _rdumpq(q, size, k)` -/
def rdumpPairs (q : Bytes) (size : Nat) : List (Value × Value) → Bytes × Nat
  | [] => (q, size)
  | (k, v) :: t =>
    let r1 := rdumpq q size v
    let r2 := rdumpq r1.1 r1.2 k
    rdumpPairs r2.1 r2.2 t
end

/-- `tnetstring.dumps` -/
def dumps (v : Value) : Bytes := (rdumpq [] 0 v).1

-- ------------------------------------------------------------------------------------------------
-- pop / parse (memoryview based)
-- ------------------------------------------------------------------------------------------------
/-- position of the first `:`; `none` = IndexError (→ ValueError in `split`) -/
def splitColon : Bytes → Option (Bytes × Bytes)
  | [] => none
  | c :: t => if c = 0x3a then some ([], t) else (splitColon t).map (fun p => (c :: p.1, p.2))

/-- `split(data, b":")` : the length as (negative?, magnitude) and the data after the colon -/
def split (data : Bytes) : Except Err ((Bool × Nat) × Bytes) :=
  match splitColon data with
  | none => .error .value
  | some (pre, post) =>
    match pyIntSM pre with
    | none => .error .value
    | some sm => .ok (sm, post)

/-- `data[:length], data[length], data[length + 1:]` with Python slice/index semantics;
    `none` = IndexError from the middle component -/
def slice3 (body : Bytes) (sm : Bool × Nat) : Option (Bytes × UInt8 × Bytes) :=
  let n := body.length
  let k := sm.2
  if !sm.1 || k = 0 then
    match body[k]? with
    | none => none
    | some tag => some (body.take k, tag, body.drop (k + 1))
  else
    if k > n then none else
    match body[n - k]? with
    | none => none
    | some tag => some (body.take (n - k), tag, body.drop (if k = 1 then 0 else n + 1 - k))

def hashable : Value → Bool
  | .list _ => false
  | .dict _ => false
  | _ => true

/-- `parse` for the non-container type tags -/
def parseScalar (tag : UInt8) (data : Bytes) : Except Err Value :=
  if tag = 0x2c then .ok (.bytes data)
  else if tag = 0x3b then (if utf8Valid data then .ok (.str data) else .error .value)
  else if tag = 0x23 then
    match pyIntSM data with
    | some sm => .ok (.int (smToInt sm))
    | none => .error .value
  else if tag = 0x5e then (if isFloatTok data then .ok (.float data) else .error .value)
  else if tag = 0x21 then
    (if data = bTrue then .ok (.bool true) else if data = bFalse then .ok (.bool false) else .error .value)
  else if tag = 0x7e then (if data.isEmpty then .ok .null else .error .value)
  else .error .value

mutual
/-- `pop(data)` with `d` = how many more container levels the interpreter's recursion limit allows -/
def pop : Nat → Nat → Bytes → Except Err (Value × Bytes)
  | 0, _, _ => .error .fuel
  | f + 1, d, data =>
    match split data with
    | .error e => .error e
    | .ok (sm, body) =>
      match slice3 body sm with
      | none => .error .value
      | some (payload, tag, remain) =>
        if tag = 0x5d then
          match popList f d payload with
          | .ok l => .ok (.list l, remain)
          | .error e => .error e
        else if tag = 0x7d then
          match popDict f d payload with
          | .ok kvs => .ok (.dict kvs, remain)
          | .error e => .error e
        else
          match parseScalar tag payload with
          | .ok v => .ok (v, remain)
          | .error e => .error e
/-- `while data: item, data = pop(data); lst.append(item)` -/
def popList : Nat → Nat → Bytes → Except Err (List Value)
  | _, _, [] => .ok []
  | 0, _, _ :: _ => .error .fuel
  | f + 1, d, c :: cs =>
    if d = 0 then .error .recursion else
    match pop f (d - 1) (c :: cs) with
    | .error e => .error e
    | .ok (item, rest) =>
      match popList f d rest with
      | .ok l => .ok (item :: l)
      | .error e => .error e
/-- `while data: key, data = pop(data); val, data = pop(data); d[key] = val` (insertions in order) -/
def popDict : Nat → Nat → Bytes → Except Err (List (Value × Value))
  | _, _, [] => .ok []
  | 0, _, _ :: _ => .error .fuel
  | f + 1, d, c :: cs =>
    if d = 0 then .error .recursion else
    match pop f (d - 1) (c :: cs) with
    | .error e => .error e
    | .ok (key, rest) =>
      match pop f (d - 1) rest with
      | .error e => .error e
      | .ok (val, rest2) =>
        if !hashable key then .error .type else
        match popDict f d rest2 with
        | .ok l => .ok ((key, val) :: l)
        | .error e => .error e
end

/-- `parse(data_type, data)` as called from `load` -/
def parseTop (f d : Nat) (tag : UInt8) (data : Bytes) : Except Err Value :=
  if tag = 0x5d then
    match popList f d data with
    | .ok l => .ok (.list l)
    | .error e => .error e
  else if tag = 0x7d then
    match popDict f d data with
    | .ok kvs => .ok (.dict kvs)
    | .error e => .error e
  else parseScalar tag data

/-- `tnetstring.pop(memoryview(s))` -/
def popTop (d : Nat) (s : Bytes) : Except Err (Value × Bytes) := pop (s.length + 1) d s

/-- `tnetstring.load(file)` on a file whose unread content is `s`; returns the value and the unread
    rest. `memLimit`: the largest `read(n)` the allocator grants (environment). -/
def load (memLimit d : Nat) (s : Bytes) : Except Err (Value × Bytes) :=
  if s.isEmpty then .error .emptyFile else
  let ds := s.takeWhile isDigit
  if ds.length > 12 then .error .value else
  match s.dropWhile isDigit with
  | [] => .error .value
  | c :: body =>
    if c ≠ 0x3a then .error .value
    else if ds.isEmpty then .error .value
    else
      let n := decVal ds
      if n > memLimit then .error .memory else
      match body.drop n with
      | [] => .error .index
      | tag :: rest =>
        match parseTop (s.length + 2) d tag (body.take n) with
        | .ok v => .ok (v, rest)
        | .error e => .error e

-- ------------------------------------------------------------------------------------------------
-- FlowReader.stream
-- ------------------------------------------------------------------------------------------------
/-- outcome classes of `Flow.from_state(compat.migrate_flow(loaded))` when it raises -/
inductive StateExc where
  | valueError       -- ValueError (unknown type, unsupported version, bad field)
  | exception        -- any other subclass of Exception (KeyError, TypeError, AttributeError, …)
  | nonException     -- BaseException outside Exception (KeyboardInterrupt, SystemExit)
  deriving DecidableEq, Repr

/-- how `FlowReader.stream` ends -/
inductive End where
  | clean | flowRead | escapes
  deriving DecidableEq, Repr

structure Env (α : Type) where
  memLimit : Nat
  depth : Nat
  /-- `Flow.from_state(compat.migrate_flow(·))` for the i-th record of the file -/
  fromState : Nat → Value → Except StateExc α
  /-- the HAR importer on the file content: flows yielded, and whether it finished without raising -/
  har : Bytes → List α × Bool

def isDict : Value → Bool
  | .dict _ => true
  | _ => false

/-- the exception classes of the outer `except` clause -/
def caughtOuter : Err → Bool
  | .emptyFile => true | .value => true | .type => true | .index => true
  | .recursion => true | .memory => true
  | .fuel => false

def streamLoop {α : Type} (env : Env α) : Nat → Nat → Bytes → List α × End
  | 0, _, _ => ([], .escapes)
  | f + 1, i, s =>
    match load env.memLimit env.depth s with
    | .error e =>
      if e = .emptyFile then ([], .clean)
      else if caughtOuter e then ([], .flowRead)
      else ([], .escapes)
    | .ok (v, rest) =>
      if !isDict v then ([], .flowRead)            -- ValueError("Invalid flow") → FlowReadException
      else
        match env.fromState i v with
        | .error .valueError => ([], .flowRead)
        | .error .exception => ([], .flowRead)
        | .error .nonException => ([], .escapes)
        | .ok fl =>
          let r := streamLoop env f (i + 1) rest
          (fl :: r.1, r.2)

def bom : Bytes := [0xef, 0xbb, 0xbf]

/-- which branch `FlowReader.stream` takes, and on what content -/
def sniff (file : Bytes) : Bool × Bytes :=
  let s := if (file.take 4) = bom ++ [0x7b] then file.drop 3 else file
  (s.head? = some 0x7b, s)

/-- `list(FlowReader(file).stream())` : the flows yielded and how the generator ended -/
def readAll {α : Type} (env : Env α) (file : Bytes) : List α × End :=
  let p := sniff file
  if p.1 then
    let r := env.har p.2
    (r.1, if r.2 then .clean else .flowRead)
  else streamLoop env (p.2.length + 1) 0 p.2

-- ------------------------------------------------------------------------------------------------
-- specification vocabulary (used only in theorem statements)
-- ------------------------------------------------------------------------------------------------
mutual
/-- the value with the items of every dict in reverse order (what a dump/load cycle does to iteration order) -/
def mirror : Value → Value
  | .null => .null
  | .bool b => .bool b
  | .int i => .int i
  | .float t => .float t
  | .bytes b => .bytes b
  | .str b => .str b
  | .list l => .list (mirrorList l)
  | .dict kvs => .dict (mirrorPairsRev kvs)
def mirrorList : List Value → List Value
  | [] => []
  | v :: t => mirror v :: mirrorList t
def mirrorPairsRev : List (Value × Value) → List (Value × Value)
  | [] => []
  | (k, v) :: t => mirrorPairsRev t ++ [(mirror k, mirror v)]
end

mutual
/-- values that `dumps` accepts and `load` can read back: ints within CPython's 4300-digit limit for
    int(str), float tokens that float() accepts (repr output), str payloads valid UTF-8, hashable keys -/
def WF : Value → Prop
  | .null => True
  | .bool _ => True
  | .int i => (natDec i.natAbs).length ≤ maxStrDigits
  | .float t => isFloatTok t = true
  | .bytes _ => True
  | .str b => utf8Valid b = true
  | .list l => WFList l
  | .dict kvs => WFPairs kvs
def WFList : List Value → Prop
  | [] => True
  | v :: t => WF v ∧ WFList t
def WFPairs : List (Value × Value) → Prop
  | [] => True
  | (k, v) :: t => (WF k ∧ hashable k = true ∧ WF v) ∧ WFPairs t
end

mutual
/-- container nesting below the value itself -/
def depth : Value → Nat
  | .list l => depthList l
  | .dict kvs => depthPairs kvs
  | _ => 0
def depthList : List Value → Nat
  | [] => 0
  | v :: t => max (depth v + 1) (depthList t)
def depthPairs : List (Value × Value) → Nat
  | [] => 0
  | (k, v) :: t => max (max (depth k + 1) (depth v + 1)) (depthPairs t)
end

/-- equality of values with dicts compared as finite maps (item order is irrelevant) -/
inductive Equiv : Value → Value → Prop
  | refl (v : Value) : Equiv v v
  | trans {a b c : Value} : Equiv a b → Equiv b c → Equiv a c
  | listCons {v v' : Value} {t t' : List Value} :
      Equiv v v' → Equiv (.list t) (.list t') → Equiv (.list (v :: t)) (.list (v' :: t'))
  | dictPerm {kvs kvs' : List (Value × Value)} : kvs.Perm kvs' → Equiv (.dict kvs) (.dict kvs')
  | dictCons {k k' v v' : Value} {t t' : List (Value × Value)} :
      Equiv k k' → Equiv v v' → Equiv (.dict t) (.dict t') → Equiv (.dict ((k, v) :: t)) (.dict ((k', v') :: t'))

/-- size bound under which every length prefix inside `enc v` is within the 4300-digit int() limit -/
def sizeLimit : Nat := 10 ^ maxStrDigits

end MitmVerif.C36
