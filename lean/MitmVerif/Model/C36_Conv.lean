/-
  C36 — records of the two newest older formats (19, 20): `compat.migrate_flow`'s loop applied with the converters'
  field surgery of Model/C38_Conv (convert_19_20, convert_20_21), followed by the same type dispatch and shape
  requirements as for current-version records.  Older formats stay with the parameter (`defer`).

  The loop reads `flow_data.get(b"version", flow_data.get("version"))` on every iteration while the converters write the
  str key: a record whose version comes from the BYTES key is converted once and then refused
  ("conflicting version information", ValueError).
-/
import MitmVerif.Model.C36_Shape
import MitmVerif.Model.C38_Conv
namespace MitmVerif.C36
open MitmVerif.C38Conv

/-- the python dict built by inserting the pairs in order: a repeated key keeps its first position and takes the last value
    (`none`: a float key makes key equality undecided here) -/
def pyDict : List (Value × Value) → Option (List (Value × Value))
  | [] => some []
  | (k, v) :: t =>
    match pyDict t with
    | none => none
    | some d =>
      -- `d` is the dict of the later insertions; inserting (k, v) FIRST means: k goes to the front, and if a later
      -- insertion has an equal key, that later value wins and the later entry is dropped from its place
      match k with
      | .float _ => none
      | _ =>
        if d.any (fun p => match p.1 with | .float _ => true | _ => false) then none else
        match d.find? (fun p => keyEq k p.1 == some true) with
        | some later => some ((k, later.2) :: d.filter (fun p => keyEq k p.1 != some true))
        | none => some ((k, v) :: d)

inductive Conv where
  | refusedV        -- ValueError after a converter ran
  | refusedX        -- KeyError / TypeError / AttributeError inside a converter, or from the type dispatch afterwards
  | current (ty : Bytes) (d : List (Value × Value))   -- converted to the current format, registered type: set_state decides
  | notModelled

/-- the chain from format `n` (19 or 20) to the current one -/
def chainFrom (n : Int) (d : Dict) : Option Dict :=
  if n = 19 then chain19 d else if n = 20 then conv_20_21 d else none

def firstConv (n : Int) (d : Dict) : Option Dict :=
  if n = 19 then conv_19_20 d else if n = 20 then conv_20_21 d else none

/-- `Flow.from_state(migrate_flow(record))` for a record whose first-iteration version is the int 19 or 20 -/
def convert (kvs : List (Value × Value)) : Conv :=
  if Gen.C38.current ≠ .int 21 then .notModelled else
  match pyDict kvs with
  | none => .notModelled
  | some d =>
    let fromBytes := (dictGet kvs (isBytesKey bVersion)).isSome
    match rawVersion kvs with
    | some (.int n) =>
      if n = 19 ∨ n = 20 then
        if fromBytes then
          -- one converter runs, then the stale bytes key shows the same version again
          match firstConv n d with
          | none => .refusedX
          | some _ => .refusedV
        else
          match chainFrom n d with
          | none => .refusedX
          | some d' =>
            match typeGate d' with
            | .rejectV => .refusedV
            | .rejectX => .refusedX
            | .pass ty => .current ty d'
            | _ => .notModelled
      else .notModelled
    | _ => .notModelled

/-- the reader environment with the converter chain for formats 19 and 20 in front of the remaining parameter -/
def converted {α : Type} (env : Env α) : Env α :=
  { env with fromState := fun i v =>
      match gate v, v with
      | .defer, .dict kvs =>
        match convert kvs with
        | .refusedV => .error .valueError
        | .refusedX => .error .exception
        | .current ty d =>
          if shape ty d = .bad then
            match env.fromState i v with
            | .ok _ => .error .exception
            | .error e => .error e
          else env.fromState i v
        | .notModelled => env.fromState i v
      | _, _ => (shaped env).fromState i v }

end MitmVerif.C36
