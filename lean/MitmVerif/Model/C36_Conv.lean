/-
  C36 — records of the older integer formats 5 … 20: `compat.migrate_flow`'s loop applied with the converters' field
  surgery of Model/C38_Conv (convert_5_6 … convert_20_21), followed by the same type dispatch and shape requirements as for
  current-version records.  Format 4 (draws uuids) and the tuple-era formats stay with the parameter (`defer`).

  The loop reads `flow_data.get(b"version", flow_data.get("version"))` on every iteration while the converters write the
  str key: a record whose version comes from the BYTES key is converted once and then refused
  ("conflicting version information", ValueError).
-/
import MitmVerif.Model.C36_Shape
import MitmVerif.Model.C38_Conv
namespace MitmVerif.C36
open MitmVerif.C38Conv

/-- the python dict built by inserting the pairs in order: a repeated key keeps its first position and takes the last value
    (`none`: a float key makes key equality undecided here) -/
def pyDict : List (Value × Value) → Option (List (Value × Value))
  | [] => some []
  | (k, v) :: t =>
    match pyDict t with
    | none => none
    | some d =>
      -- `d` is the dict of the later insertions; inserting (k, v) FIRST means: k goes to the front, and if a later
      -- insertion has an equal key, that later value wins and the later entry is dropped from its place
      match k with
      | .float _ => none
      | _ =>
        if d.any (fun p => match p.1 with | .float _ => true | _ => false) then none else
        match d.find? (fun p => keyEq k p.1 == some true) with
        | some later => some ((k, later.2) :: d.filter (fun p => keyEq k p.1 != some true))
        | none => some ((k, v) :: d)

inductive Conv where
  | refusedV        -- ValueError after a converter ran
  | refusedX        -- KeyError / TypeError / AttributeError inside a converter, or from the type dispatch afterwards
  | current (ty : Bytes) (d : List (Value × Value))   -- converted to the current format, registered type: set_state decides
  | notModelled

/-- keys whose value the converters test for truthiness (`if x`, `x or []`, `c.get(name) and …`); the model's `truthy` does
    not know whether a float is zero, so a float there puts the record outside the transcription -/
def truthKeys : List Bytes :=
  [s "via", s "alpn_offers", s "cipher_list", s "marked", s "peername", s "sockname", s "address", s "is_replay",
   s "alpn_proto_negotiated", s "cipher_name", s "clientcert", s "cert"]

mutual
def floatAtTruthKey : Value → Bool
  | .list l => floatInList l
  | .dict kvs => floatInPairs kvs
  | _ => false
def floatInList : List Value → Bool
  | [] => false
  | v :: t => floatAtTruthKey v || floatInList t
def floatInPairs : List (Value × Value) → Bool
  | [] => false
  | (k, v) :: t =>
    (match k, v with
      | .str u, .float _ => truthKeys.contains u
      | _, _ => false) || floatAtTruthKey v || floatInPairs t
end

/-- the two converter branches C38_Conv leaves out: 11→12 with websocket metadata (process-global state) and 13→14 when it
    has to add 1 to a FLOAT request timestamp -/
def unmodelledBranch (n : Nat) (d : Dict) : Bool :=
  if n = 11 then
    match (dget d (s "metadata")).bind asDict with
    | some md => dhas md (s "websocket") || dhas md (s "websocket_handshake")
    | none => false
  else if n = 13 then
    match dget d (s "response") with
    | some (.dict resp) =>
      (match dget resp (s "timestamp_start") with
        | some .null =>
          (match (dget d (s "request")).bind asDict with
            | some req => (match dget req (s "timestamp_end") with | some (.float _) => true | _ => false)
            | none => false)
        | _ => false)
    | _ => false
  else false

/-- the converter that reads integer format `n` (5 … 20) -/
def stepConv (n : Nat) : Option (Dict → Option Dict) :=
  match convOld n with
  | some f => some f
  | none => conv n

inductive ChainRes where
  | done (d : Dict)          -- reached the current format
  | raised                   -- a converter raised (KeyError / TypeError / AttributeError)
  | outside                  -- a branch the transcription leaves out

/-- `converters[n]`, `converters[n+1]`, … up to the current format -/
def chainUp : Nat → Nat → Dict → ChainRes
  | 0, _, _ => .outside
  | f + 1, n, d =>
    if n = 21 then .done d
    else if unmodelledBranch n d then .outside
    else match stepConv n with
      | none => .outside
      | some c =>
        match c d with
        | none => .raised
        | some d' => chainUp f (n + 1) d'

/-- the first converter only (what runs before a stale bytes `version` key stops the loop) -/
def firstStep (n : Nat) (d : Dict) : ChainRes :=
  if unmodelledBranch n d then .outside
  else match stepConv n with
    | none => .outside
    | some c => match c d with | none => .raised | some d' => .done d'

/-- `Flow.from_state(migrate_flow(record))` for a record whose first-iteration version is an int 5 … 20 -/
def convert (kvs : List (Value × Value)) : Conv :=
  if Gen.C38.current ≠ .int 21 then .notModelled else
  match pyDict kvs with
  | none => .notModelled
  | some d =>
    if floatInPairs d then .notModelled else
    let fromBytes := (dictGet kvs (isBytesKey bVersion)).isSome
    match rawVersion kvs with
    | some (.int n) =>
      if 5 ≤ n ∧ n ≤ 20 then
        if fromBytes then
          -- one converter runs, then the stale bytes key shows the same version again
          match firstStep n.toNat d with
          | .outside => .notModelled
          | .raised => .refusedX
          | .done _ => .refusedV
        else
          match chainUp 17 n.toNat d with
          | .outside => .notModelled
          | .raised => .refusedX
          | .done d' =>
            match typeGate d' with
            | .rejectV => .refusedV
            | .rejectX => .refusedX
            | .pass ty => .current ty d'
            | _ => .notModelled
      else .notModelled
    | _ => .notModelled

/-- the reader environment with the converter chain for formats 19 and 20 in front of the remaining parameter -/
def converted {α : Type} (env : Env α) : Env α :=
  { env with fromState := fun i v =>
      match gate v, v with
      | .defer, .dict kvs =>
        match convert kvs with
        | .refusedV => .error .valueError
        | .refusedX => .error .exception
        | .current ty d =>
          if shape ty d = .bad then
            match env.fromState i v with
            | .ok _ => .error .exception
            | .error e => .error e
          else env.fromState i v
        | .notModelled => env.fromState i v
      | _, _ => (shaped env).fromState i v }

/-- what the transcription (dispatch, shape, converter chain 5 … 20) requires of a record that becomes a flow -/
def AcceptableC (v : Value) : Prop :=
  (gate v ≠ .defer → Acceptable v) ∧
  (gate v = .defer → ∀ kvs, v = .dict kvs →
    (match convert kvs with
      | .refusedV => False
      | .refusedX => False
      | .current ty d => shape ty d ≠ .bad
      | .notModelled => True))

end MitmVerif.C36
