/-
  C36 — which records `FlowReader.stream` accepts: the part of `Flow.from_state(compat.migrate_flow(loaded))` that
  decides before any field is touched, transcribed over the loaded value:

    * `compat.migrate_flow`, first iteration: `flow_data.get(b"version", flow_data.get("version"))`, the
      `isinstance(…, int)` / `tuple(…)[:2]` normalisation, `== FLOW_FORMAT_VERSION`, `in converters`, and the
      ValueError of the `else` branch (TypeError for `tuple(None)`, `tuple(1.5)` and unhashable components);
    * `Flow.from_state`: `Flow.__types[state["type"]]` with its `except KeyError → ValueError("Unknown flow type")`
      (a missing "type" key raises KeyError again inside the handler; an unhashable value raises TypeError).

  What is left as a parameter of the reader model is `set_state` of the selected flow class (records of the current
  version with a registered type) and the converter chain for older versions (`defer`).
  The converter graph / current version come from Gen/C38.lean, the registered flow types from Gen/C36.lean
  (both regenerated from /repo on every run).
-/
import MitmVerif.Model.C36
import MitmVerif.Gen.C38
import MitmVerif.Gen.C36
namespace MitmVerif.C36
open MitmVerif.C38

inductive Gate where
  | rejectV                  -- ValueError  → FlowReadException(str(e))
  | rejectX                  -- KeyError / TypeError → FlowReadException("Invalid flow: …")
  | pass (type : Bytes)      -- current version, registered type: the flow class' set_state decides
  | defer                    -- older version with a converter: the converter chain decides
  | deferShape               -- version given as float components / float dict keys (numeric equality with floats not transcribed)
  deriving DecidableEq, Repr

def bVersion : Bytes := [0x76, 0x65, 0x72, 0x73, 0x69, 0x6f, 0x6e]
def bType : Bytes := [0x74, 0x79, 0x70, 0x65]

def isStrKey (name : Bytes) : Value → Bool
  | .str u => u == name
  | _ => false
def isBytesKey (name : Bytes) : Value → Bool
  | .bytes b => b == name
  | _ => false

/-- `d.get(key)` on the dict built by inserting the pairs in order: the last insertion wins -/
def dictGet (kvs : List (Value × Value)) (isKey : Value → Bool) : Option Value :=
  (kvs.reverse.find? (fun p => isKey p.1)).map (·.2)

/-- `flow_data.get(b"version", flow_data.get("version"))` (`none` = Python None from the default) -/
def rawVersion (kvs : List (Value × Value)) : Option Value :=
  match dictGet kvs (isBytesKey bVersion) with
  | some v => some v
  | none => dictGet kvs (isStrKey bVersion)

/-- a component of `tuple(flow_version)[:2]` as far as `==` / `hash` against the converter keys see it -/
inductive Elem where
  | num (n : Int) | other | unhashable | float
  deriving DecidableEq, Repr

def elemOf : Value → Elem
  | .int n => .num n
  | .bool b => .num (if b then 1 else 0)
  | .float _ => .float
  | .list _ => .unhashable
  | .dict _ => .unhashable
  | _ => .other

inductive VerClass where
  | ver (v : Ver) | notKey | typeError | floaty
  deriving DecidableEq, Repr

/-- `tuple(xs)[:2]` looked up in `converters` -/
def tupleClass (es : List Elem) : VerClass :=
  let two := es.take 2
  if two.any (· == .unhashable) then .typeError          -- hash(tuple) fails
  else if two.any (· == .float) then .floaty
  else match two with
    | [.num a, .num b] => if 0 ≤ a ∧ 0 ≤ b then .ver (.tup a.toNat b.toNat) else .notKey
    | _ => .notKey

/-- python equality of two dict keys, `none` when a float is involved -/
def keyEq : Value → Value → Option Bool
  | .float _, _ => none
  | _, .float _ => none
  | .null, .null => some true
  | .str a, .str b => some (a == b)
  | .bytes a, .bytes b => some (a == b)
  | a, b => match elemOf a, elemOf b with
    | .num x, .num y => some (x == y)
    | _, _ => some false

/-- the first two distinct keys of the dict built by insertion (`tuple(d)[:2]`); `none` = float keys in the way -/
def firstTwoKeys : List (Value × Value) → Option (List Value)
  | [] => some []
  | (k, _) :: t =>
    match k with
    | .float _ => none
    | _ =>
      let rec second : List (Value × Value) → Option (List Value)
        | [] => some [k]
        | (k2, _) :: t2 =>
          match keyEq k k2 with
          | none => none
          | some true => second t2
          | some false => some [k, k2]
      second t

def utf8Chars (u : Bytes) : Nat := (u.filter (fun c => !(0x80 ≤ c.toNat && c.toNat ≤ 0xbf))).length

/-- the normalised version of the first loop iteration -/
def versionClass : Option Value → VerClass
  | none => .typeError                                  -- tuple(None)
  | some .null => .typeError
  | some (.int n) => .ver (.int n)
  | some (.bool b) => .ver (.int (if b then 1 else 0))  -- bool is an int
  | some (.float _) => .typeError                       -- tuple(1.5)
  | some (.bytes b) => tupleClass (b.map (fun c => .num c.toNat))
  | some (.str u) => tupleClass (List.replicate (utf8Chars u) .other)
  | some (.list l) => tupleClass (l.map elemOf)
  | some (.dict kvs) =>
    match firstTwoKeys kvs with
    | none => .floaty
    | some ks => tupleClass (ks.map elemOf)

/-- `Flow.__types[state["type"]]` -/
def typeGate (kvs : List (Value × Value)) : Gate :=
  match dictGet kvs (isStrKey bType) with
  | none => .rejectX                                    -- KeyError raised again inside the except handler
  | some (.list _) => .rejectX                          -- unhashable: TypeError
  | some (.dict _) => .rejectX
  | some (.str u) => if Gen.C36.flowTypes.contains u then .pass u else .rejectV
  | some _ => .rejectV                                  -- hashable, not registered: "Unknown flow type"

/-- what happens to a loaded dict record before any field of it is used -/
def gate (v : Value) : Gate :=
  match v with
  | .dict kvs =>
    match versionClass (rawVersion kvs) with
    | .typeError => .rejectX
    | .floaty => .deferShape
    | .notKey => .rejectV
    | .ver ver =>
      if ver = Gen.C38.current then typeGate kvs
      else match lookup Gen.C38.graph ver with
        | some _ => .defer
        | none => .rejectV
  | _ => .rejectV                                        -- not a dict: ValueError("Invalid flow")

/-- the reader environment with the transcribed gate in front of the remaining parameter -/
def gated {α : Type} (env : Env α) : Env α :=
  { env with fromState := fun i v =>
      match gate v with
      | .rejectV => .error .valueError
      | .rejectX => .error .exception
      | _ => env.fromState i v }

end MitmVerif.C36
