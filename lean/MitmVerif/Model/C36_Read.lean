/-
  C36 — `tnetstring.load` against a `read` environment.

  `load` consumes its file only through `file_handle.read(k)`.  Here the algorithm is written against an abstract
  handle (`rd h k` = the bytes returned and the handle afterwards), exactly as the Python does it: `read(1)` per
  prefix byte, `read(n)` for the payload, `read(1)` for the type tag.  Two handles are given: the flat one
  (remaining content as one byte string — the handle `Model/C36.load` works on) and a buffered reader over a raw
  stream that delivers its content in arbitrary segments (`readN`: `BufferedReader.read(k)` keeps reading raw
  segments until it has k bytes or the stream ends).  `peekSeg` is `BufferedReader.peek`: what is left of the
  current segment only — the primitive that is NOT independent of the segmentation.
-/
import MitmVerif.Model.C36
namespace MitmVerif.C36

/-- `read(k)` on a file whose unread content is `s` -/
def flatRd (s : Bytes) (k : Nat) : Bytes × Bytes := (s.take k, s.drop k)

/-- `BufferedReader.read(k)` over a raw stream that still has the segments `segs` to deliver -/
def readN : List Bytes → Nat → Bytes × List Bytes
  | [], _ => ([], [])
  | seg :: rest, k =>
    if k ≤ seg.length then (seg.take k, seg.drop k :: rest)
    else
      let r := readN rest (k - seg.length)
      (seg ++ r.1, r.2)

/-- `BufferedReader.peek(k)` right after the buffer was filled with the next segment: never looks past it -/
def peekSeg : List Bytes → Nat → Bytes
  | [], _ => []
  | seg :: rest, k => if seg.isEmpty then peekSeg rest k else seg.take k

/-- the `while c.isdigit()` loop of `load`; `c` is the byte just read (`none` = end of file) -/
def digitLoop {σ : Type} (rd : σ → Nat → Bytes × σ) : Nat → Bytes → Option UInt8 → σ → Except Err (Bytes × σ)
  | 0, _, _, _ => .error .value
  | f + 1, ds, c, h =>
    match c with
    | none => .error .value                                   -- c == b"" != b":"
    | some ch =>
      if isDigit ch then
        if (ds ++ [ch]).length > 12 then .error .value        -- absurdly large length prefix
        else
          let r := rd h 1
          digitLoop rd f (ds ++ [ch]) r.1.head? r.2
      else if ch = 0x3a then .ok (ds, h)
      else .error .value

/-- `tnetstring.load(file_handle)` through `read` only; `fuel` is the parser fuel of `Model/C36.load` -/
def loadVia {σ : Type} (rd : σ → Nat → Bytes × σ) (m d fuel : Nat) (h : σ) : Except Err (Value × σ) :=
  let r := rd h 1
  match r.1.head? with
  | none => .error .emptyFile
  | some c =>
    match digitLoop rd 14 [] (some c) r.2 with
    | .error e => .error e
    | .ok (ds, h1) =>
      if ds.isEmpty then .error .value                         -- int(b"")
      else
        let n := decVal ds
        if n > m then .error .memory else
        let r2 := rd h1 n
        let r3 := rd r2.2 1
        match r3.1.head? with
        | none => .error .index
        | some tag =>
          match parseTop fuel d tag r2.1 with
          | .ok v => .ok (v, r3.2)
          | .error e => .error e

end MitmVerif.C36
