/-
  C36 — `set_state` of the selected flow class, as far as it decides between "a flow" and FlowReadException by the SHAPE of
  the record alone.  Transcribed (key tables regenerated from the live classes into Gen/C36.lean):

    * `Flow.set_state` / `HTTPFlow` / `TCPFlow` / `UDPFlow` / `DNSFlow.set_state`: every `state.pop("k")` without default needs
      the key (KeyError otherwise); `assert state == {}` at the end admits no other key than the optional "backup";
    * `client_conn.set_state(...)`, `server_conn.set_state(...)` (`SerializableDataclass.set_state`): a dict with exactly
      the serialised field names (missing → KeyError, other → "Unexpected fields", not a dict → AttributeError/TypeError);
    * `if state["error"]: Error.from_state(...)`, `Response.from_state(r) if (r := …) else None`, the same for `websocket`
      and the DNS `response`: a falsy value is taken as it is, a truthy one has to be a dict with exactly the field /
      constructor-parameter names (`SerializableDataclass.from_state`, `Message.from_state = cls(**state)`);
    * `Request.from_state(state.pop("request"))`, `DNSMessage.from_state(...)`: a dict with exactly those names;
    * `[TCPMessage.from_state(m) for m in state.pop("messages")]`: the value has to be iterable.

  These are NECESSARY conditions for acceptance: a record that violates one is certainly refused (whichever exception comes
  first); a record that meets them is handed to the remaining parameter (field types, certificate PEMs, proxy-mode specs …).
  The truthiness of a float is not transcribed (`unknown`).
-/
import MitmVerif.Model.C36_Gate
namespace MitmVerif.C36

inductive Shape where
  | good | bad | unknown
  deriving DecidableEq, Repr

def Shape.and : Shape → Shape → Shape
  | .bad, _ => .bad
  | _, .bad => .bad
  | .unknown, _ => .unknown
  | _, .unknown => .unknown
  | .good, .good => .good

def sb (x : String) : Bytes := x.toUTF8.toList

def strKey? : Value → Option Bytes
  | .str u => some u
  | _ => none

/-- the dict has exactly the str keys `req` (each at least once) plus possibly some of `opt`, and no other key of any kind -/
def exactKeys (kvs : List (Value × Value)) (req opt : List Bytes) : Bool :=
  kvs.all (fun p => match strKey? p.1 with
    | some k => req.contains k || opt.contains k
    | none => false)
  && req.all (fun r => kvs.any (fun p => strKey? p.1 == some r))

/-- Python truthiness; `none` for floats -/
def falsy? : Value → Option Bool
  | .null => some true
  | .bool b => some (!b)
  | .int i => some (i == 0)
  | .float _ => none
  | .bytes b => some b.isEmpty
  | .str u => some u.isEmpty
  | .list l => some l.isEmpty
  | .dict kvs => some kvs.isEmpty

/-- a sub-state that has to be a dict with exactly these keys -/
def subDict (v : Option Value) (keys : List Bytes) : Shape :=
  match v with
  | some (.dict kvs) => if exactKeys kvs keys [] then .good else .bad
  | _ => .bad

/-- `X.from_state(s) if s else None` -/
def optSub (v : Option Value) (keys : List Bytes) : Shape :=
  match v with
  | none => .bad                                      -- the key itself is required
  | some x =>
    match falsy? x with
    | none => .unknown
    | some true => .good
    | some false => subDict (some x) keys

/-- `for m in state.pop("messages")` -/
def iterable (v : Option Value) : Shape :=
  match v with
  | some (.list _) => .good
  | some (.dict _) => .good
  | some (.str _) => .good
  | some (.bytes _) => .good
  | _ => .bad

def bBackup : Bytes := sb "backup"

/-- what the shape of a current-version record of registered type `ty` says about `set_state` -/
def shape (ty : Bytes) (kvs : List (Value × Value)) : Shape :=
  let get (k : String) := dictGet kvs (isStrKey (sb k))
  let top : Shape :=
    match Gen.C36.typeKeys.find? (·.1 == ty) with
    | some (_, req) => if exactKeys kvs req [bBackup] then .good else .bad
    | none => .unknown
  let common := (subDict (get "client_conn") Gen.C36.clientKeys).and
    ((subDict (get "server_conn") Gen.C36.serverKeys).and (optSub (get "error") Gen.C36.errorKeys))
  let own : Shape :=
    if ty == sb "http" then
      (subDict (get "request") Gen.C36.requestKeys).and
        ((optSub (get "response") Gen.C36.responseKeys).and (optSub (get "websocket") Gen.C36.websocketKeys))
    else if ty == sb "dns" then
      (subDict (get "request") Gen.C36.dnsKeys).and (optSub (get "response") Gen.C36.dnsKeys)
    else if ty == sb "tcp" || ty == sb "udp" then iterable (get "messages")
    else .good
  top.and (common.and own)

/-- the reader environment with version check, type dispatch and shape requirements in front of the remaining parameter:
    a record of bad shape is refused whatever the parameter says (it keeps the parameter's exception class) -/
def shaped {α : Type} (env : Env α) : Env α :=
  { env with fromState := fun i v =>
      match gate v, v with
      | .rejectV, _ => .error .valueError
      | .rejectX, _ => .error .exception
      | .pass ty, .dict kvs =>
        if shape ty kvs = .bad then
          match env.fromState i v with
          | .ok _ => .error .exception
          | .error e => .error e
        else env.fromState i v
      | _, _ => env.fromState i v }

/-- the loaded records from which the reader loop yields its flows, in order (specification vocabulary) -/
def yieldedFrom {α : Type} (env : Env α) : Nat → Nat → Bytes → List Value
  | 0, _, _ => []
  | f + 1, i, s =>
    match load env.memLimit env.depth s with
    | .error _ => []
    | .ok (v, rest) =>
      if !isDict v then [] else
      match env.fromState i v with
      | .ok _ => v :: yieldedFrom env f (i + 1) rest
      | .error _ => []

/-- what the transcribed part of `from_state ∘ migrate_flow` requires of a record that becomes a flow: an older version
    with a converter (left to the converter chain), or the current version, a registered type and a shape that
    `set_state` of that class does not refuse -/
def Acceptable (v : Value) : Prop :=
  gate v = .defer ∨ gate v = .deferShape ∨
    ∃ ty kvs, v = .dict kvs ∧ gate v = .pass ty ∧ shape ty kvs ≠ .bad

end MitmVerif.C36
