/-
  C37 — flow files are crash-consistent.

  Model of the writers on top of C36's codec and reader:
    * `FlowWriter.add` / `FilteredFlowWriter.add` (mitmproxy/io/io.py): append `tnetstring.dumps(state)` to the
      file (the filtered writer flushes after every flow);
    * the stream-saving addon (mitmproxy/addons/save.py) seen from the file: every hook either writes nothing
      (request, tcp_start, … only touch `active_flows`), writes one flow (`save_flow`: response, error, tcp_end,
      websocket_end, dns_response, …) or writes the remaining active flows (`done`);
    * a crash: what is on disk is a prefix of what the writes would have produced.
  The reader is C36's `readAll`.
-/
import MitmVerif.Model.C36
namespace MitmVerif.C37
open MitmVerif.C36

/-- `tnetstring.dump(f.get_state(), fo)` -/
def addFlow (file : Bytes) (state : Value) : Bytes := file ++ dumps state

def writeAll (file : Bytes) (states : List Value) : Bytes := states.foldl addFlow file

/-- what a save hook does to the stream file -/
inductive Event where
  | noop                          -- hooks that only record the flow as active
  | save (state : Value)          -- save_flow(flow)
  | done (states : List Value)    -- done(): every still-active flow, then close
  deriving Inhabited

def Event.writes : Event → List Value
  | .noop => []
  | .save s => [s]
  | .done l => l

def step (file : Bytes) (e : Event) : Bytes := writeAll file e.writes

/-- file content after a sequence of hooks, starting from an empty file -/
def run (evs : List Event) : Bytes := evs.foldl step []

/-- the states a sequence of hooks has written, in order -/
def written : List Event → List Value
  | [] => []
  | e :: t => e.writes ++ written t

-- ------------------------------------------------------------------------------------------------
-- buffering: what the operating system has vs. what still sits in the process
-- ------------------------------------------------------------------------------------------------
/-- a binary file opened for writing through a buffer: `disk` is what the OS has been handed (what survives a
    crash of the process), `buf` what is still in the process' write buffer -/
structure BFile where
  disk : Bytes
  buf : Bytes
  deriving Inhabited

/-- `write b spill`: `fo.write(b)` after which the buffering layer hands the first `spill` bytes of its buffer to
    the OS (any amount: this covers every buffering policy, and an OS write that is cut short by the crash);
    `flush`: `fo.flush()` / `close()` -/
inductive FOp where
  | write (b : Bytes) (spill : Nat)
  | flush

def BFile.apply (f : BFile) : FOp → BFile
  | .write b k => ⟨f.disk ++ (f.buf ++ b).take k, (f.buf ++ b).drop k⟩
  | .flush => ⟨f.disk ++ f.buf, []⟩

def BFile.runOps (f : BFile) (ops : List FOp) : BFile := ops.foldl BFile.apply f

def BFile.empty : BFile := ⟨[], []⟩

/-- everything the program has written, in order -/
def opsLog : List FOp → Bytes
  | [] => []
  | .write b _ :: t => b ++ opsLog t
  | .flush :: t => opsLog t

/-- `FilteredFlowWriter.add` per state: `tnetstring.dump(state, fo); fo.flush()`; `ks` = how much the buffering layer
    spills on each write -/
def streamOps : List Value → List Nat → List FOp
  | [], _ => []
  | v :: t, ks => .write (dumps v) (ks.headD 0) :: .flush :: streamOps t ks.tail

/-- `FlowWriter.add` per state inside `with open(path, mode) as f:` — no flush until the file is closed -/
def explicitOps : List Value → List Nat → List FOp
  | [], _ => [.flush]
  | v :: t, ks => .write (dumps v) (ks.headD 0) :: explicitOps t ks.tail

/-- the stream-saving addon over a hook sequence: every state a hook writes goes through `FilteredFlowWriter.add` -/
def hookOps (evs : List Event) (ks : List Nat) : List FOp := streamOps (written evs) ks

/-- CPython's `BufferedWriter.write` with buffer size `B` on a regular file (raw writes complete): buffer the data
    if it fits; otherwise flush the buffer, then write the data through if it is larger than the buffer, else buffer it -/
def pyWrite (B : Nat) (f : BFile) (b : Bytes) : BFile :=
  if b.length ≤ B - f.buf.length then ⟨f.disk, f.buf ++ b⟩
  else if b.length > B then ⟨f.disk ++ f.buf ++ b, []⟩
  else ⟨f.disk ++ f.buf, b⟩

/-- `FlowWriter` on a CPython buffered file: the file after each `add` (no flush), starting from `f` -/
def pyExplicit (B : Nat) : BFile → List Bytes → List BFile
  | _, [] => []
  | f, b :: t => let f' := pyWrite B f b; f' :: pyExplicit B f' t

end MitmVerif.C37
