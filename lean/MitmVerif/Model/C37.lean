/-
  C37 — flow files are crash-consistent.

  Model of the writers on top of C36's codec and reader:
    * `FlowWriter.add` / `FilteredFlowWriter.add` (mitmproxy/io/io.py): append `tnetstring.dumps(state)` to the
      file (the filtered writer flushes after every flow);
    * the stream-saving addon (mitmproxy/addons/save.py) seen from the file: every hook either writes nothing
      (request, tcp_start, … only touch `active_flows`), writes one flow (`save_flow`: response, error, tcp_end,
      websocket_end, dns_response, …) or writes the remaining active flows (`done`);
    * a crash: what is on disk is a prefix of what the writes would have produced.
  The reader is C36's `readAll`.
-/
import MitmVerif.Model.C36
namespace MitmVerif.C37
open MitmVerif.C36

/-- `tnetstring.dump(f.get_state(), fo)` -/
def addFlow (file : Bytes) (state : Value) : Bytes := file ++ dumps state

def writeAll (file : Bytes) (states : List Value) : Bytes := states.foldl addFlow file

/-- what a save hook does to the stream file -/
inductive Event where
  | noop                          -- hooks that only record the flow as active
  | save (state : Value)          -- save_flow(flow)
  | done (states : List Value)    -- done(): every still-active flow, then close
  deriving Inhabited

def Event.writes : Event → List Value
  | .noop => []
  | .save s => [s]
  | .done l => l

def step (file : Bytes) (e : Event) : Bytes := writeAll file e.writes

/-- file content after a sequence of hooks, starting from an empty file -/
def run (evs : List Event) : Bytes := evs.foldl step []

/-- the states a sequence of hooks has written, in order -/
def written : List Event → List Value
  | [] => []
  | e :: t => e.writes ++ written t

end MitmVerif.C37
