/-
  C37 — the stream-saving addon (mitmproxy/addons/save.py) as a state machine over its hooks: which hook writes which flow.

    * `request`, `tcp_start`, `udp_start`, `dns_request`: `if self.stream: self.active_flows.add(flow)`;
    * `response`, `error`: `save_flow(flow)` unless the flow carries websocket data (those are written by `websocket_end`);
    * `websocket_end`, `tcp_end`, `tcp_error`, `udp_end`, `udp_error`, `dns_response`, `dns_error`: `save_flow(flow)`;
    * `save_flow`: nothing without an open stream; otherwise `FilteredFlowWriter.add` (writes iff the filter matches — the
      match bit is an input, flowfilter is C39's) and `active_flows.discard(flow)`;
    * `done()` (stream switched off): every still-active flow goes through the filtered writer, the set is cleared, the
      stream closed;  `start`: `save_stream_file` set while no stream is open.
  Output: the `Event`s of Model/C37 (what is appended to the stream file).
-/
import MitmVerif.Model.C37
namespace MitmVerif.C37
open MitmVerif.C36

inductive Hook where
  | request | response | error | websocket_end
  | tcp_start | tcp_end | tcp_error | udp_start | udp_end | udp_error
  | dns_request | dns_response | dns_error
  deriving DecidableEq, Repr

def Hook.isStart : Hook → Bool
  | .request => true | .tcp_start => true | .udp_start => true | .dns_request => true
  | _ => false

/-- does this hook call `save_flow` for a flow that does / does not carry websocket data? -/
def Hook.callsSave (h : Hook) (ws : Bool) : Bool :=
  match h with
  | .response => !ws
  | .error => !ws
  | .websocket_end => true
  | .tcp_end => true | .tcp_error => true | .udp_end => true | .udp_error => true
  | .dns_response => true | .dns_error => true
  | _ => false

inductive AddonIn where
  /-- a hook for flow `fid`; `ws`: the flow has websocket data; `m`: the current filter matches it; `state`: its state now -/
  | hook (h : Hook) (fid : Nat) (ws m : Bool) (state : Value)
  /-- `save_stream_file` set while no stream is open -/
  | start
  /-- the stream is switched off: `cands` = every flow of the run with its match bit and current state, in the order in
      which `done()` happens to walk its set -/
  | done (cands : List (Nat × Bool × Value))

structure Save where
  streaming : Bool
  active : List Nat

def Save.init : Save := ⟨false, []⟩

def addonStep (sv : Save) : AddonIn → Save × Event
  | .hook h fid ws m state =>
    if h.isStart then
      (if sv.streaming && !sv.active.contains fid then { sv with active := fid :: sv.active } else sv, .noop)
    else if h.callsSave ws then
      if sv.streaming then ({ sv with active := sv.active.filter (· != fid) }, if m then .save state else .noop)
      else (sv, .noop)
    else (sv, .noop)
  | .start => ({ sv with streaming := true }, .noop)
  | .done cands =>
    if sv.streaming then
      (⟨false, []⟩, .done ((cands.filter (fun c => sv.active.contains c.1 && c.2.1)).map (·.2.2)))
    else (sv, .noop)

/-- the events a history of hooks and option changes produces -/
def addonEvents : Save → List AddonIn → List Event
  | _, [] => []
  | sv, i :: t => (addonStep sv i).2 :: addonEvents (addonStep sv i).1 t

def addonState : Save → List AddonIn → Save
  | sv, [] => sv
  | sv, i :: t => addonState (addonStep sv i).1 t

/-- specification: the states of the flows FINISHED while a stream was open and the filter matched, in hook order —
    computed from the inputs alone, without the addon's bookkeeping of active flows -/
def finishedStates : Bool → List AddonIn → List Value
  | _, [] => []
  | str, .hook h _ ws m state :: t =>
    if !h.isStart && h.callsSave ws && str && m then state :: finishedStates str t else finishedStates str t
  | _, .start :: t => finishedStates true t
  | str, .done _ :: t => finishedStates (if str then false else str) t

end MitmVerif.C37
