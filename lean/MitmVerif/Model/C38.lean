/-
  C38 — flow format migration loop (mitmproxy/io/compat.py `migrate_flow`).
  The converter *graph* (version key → version written by that converter) and the current format
  version are regenerated from /repo on every run into `Gen/C38.lean`; this file models the loop.
-/
namespace MitmVerif.C38

/-- a flow format version: historic `(major, minor)` tuples (already cut to two components, as
    `tuple(flow_version)[:2]` does) or the integer scheme -/
inductive Ver where
  | tup (a b : Nat)
  | int (n : Int)
  deriving DecidableEq, Repr

inductive Outcome where
  | ok                       -- reached the current version
  | errUpdate                -- ValueError "... please update mitmproxy"
  | errUnknown               -- ValueError without the hint
  | diverged                 -- fuel exhausted (the Python loop would not terminate)
  deriving DecidableEq, Repr

abbrev Graph := List (Ver × Ver)

def lookup (g : Graph) (v : Ver) : Option Ver := (g.find? (·.1 = v)).map (·.2)

/-- the `else` branch: ValueError, with ", please update mitmproxy" iff the version is an int greater than current -/
def reject (v cur : Ver) : Outcome :=
  match v, cur with
  | .int n, .int c => if n > c then .errUpdate else .errUnknown
  | _, _ => .errUnknown

/-- the `while True` loop of `migrate_flow`, with fuel -/
def migrate (g : Graph) (cur : Ver) : Nat → Ver → Outcome
  | 0, _ => .diverged
  | f + 1, v =>
    if v = cur then .ok
    else match lookup g v with
      | some v' => migrate g cur f v'
      | none => reject v cur

/-- chronological rank: tuples before integers -/
def rank : Ver → Int
  | .tup a b => (a : Int) * 1000 + b - 1000000
  | .int n => n

/-- number of converter applications needed from `v` (none if the chain does not reach `cur`) -/
def steps (g : Graph) (cur : Ver) : Nat → Ver → Option Nat
  | 0, _ => none
  | f + 1, v =>
    if v = cur then some 0
    else match lookup g v with
      | some v' => (steps g cur f v').map (· + 1)
      | none => none

end MitmVerif.C38
