/-
  C38 — the six oldest converters (formats 0.11 … 0.16): Python-2 era files, every dict key is `bytes`.
  Same dict surgery as `Model/C38_Conv.lean`, over bytes keys.
-/
import MitmVerif.Model.C38_Conv
namespace MitmVerif.C38Conv
open MitmVerif MitmVerif.C36

def bkeyIs (k : Value) (name : Bytes) : Bool :=
  match k with
  | .bytes u => u == name
  | _ => false

def bget (d : Dict) (name : Bytes) : Option Value := (d.find? (fun kv => bkeyIs kv.1 name)).map (·.2)
def bhas (d : Dict) (name : Bytes) : Bool := d.any (fun kv => bkeyIs kv.1 name)
def bset (d : Dict) (name : Bytes) (v : Value) : Dict :=
  if bhas d name then d.map (fun kv => if bkeyIs kv.1 name then (kv.1, v) else kv)
  else d ++ [(.bytes name, v)]
def bpop (d : Dict) (name : Bytes) : Dict := d.filter (fun kv => !bkeyIs kv.1 name)

/-- update the sub-dict stored under the bytes key `name` -/
def bupd (d : Dict) (name : Bytes) (f : Dict → Option Dict) : Option Dict := do
  let sub ← bget d name
  let sd ← asDict sub
  let sd' ← f sd
  pure (bset d name (.dict sd'))

/-- `c[new] = c.pop(old)` (KeyError if absent) -/
def brename (c : Dict) (old new : Bytes) : Option Dict := (bget c old).map (fun v => bset (bpop c old) new v)

def bsetVersion (d : Dict) (minor : Int) : Dict := bset d (s "version") (.list [.int 0, .int minor])

def conv_011_012 (d : Dict) : Option Dict := pure (bsetVersion d 12)
def conv_012_013 (d : Dict) : Option Dict := pure (bsetVersion d 13)
def conv_014_015 (d : Dict) : Option Dict := pure (bsetVersion d 15)

/-- `".".join(str(x) for x in v)` for a list of ints (what `httpversion` held) -/
def dotJoinInts : List Value → Option Bytes
  | [] => some []
  | [.int i] => some (intDec i)
  | .int i :: t => (dotJoinInts t).map (fun r => intDec i ++ [0x2e] ++ r)
  | _ => none                                                      -- str() of other types: not in any old file, not modelled

/-- `m[b"http_version"] = b"HTTP/" + ".".join(str(x) for x in m.pop(b"httpversion")).encode()` -/
def httpVersionOf (m : Dict) : Option Dict := do
  let hv ← bget m (s "httpversion")
  match hv with
  | .list xs => (dotJoinInts xs).map (fun t => bset (bpop m (s "httpversion")) (s "http_version") (.bytes (s "HTTP/" ++ t)))
  | _ => none

def conv_013_014 (d : Dict) : Option Dict := do
  let d ← bupd d (s "request") (fun r => (brename r (s "form_in") (s "first_line_format")).bind httpVersionOf)
  let d ← bupd d (s "response") (fun r => do
    let r ← httpVersionOf r
    let r ← brename r (s "code") (s "status_code")
    brename r (s "content") (s "body"))
  let d ← bupd d (s "server_conn") (fun c => if bhas c (s "state") then some (bset (bpop c (s "state")) (s "via") .null) else none)
  pure (bsetVersion d 14)

/-- `if b"body" in m: m[b"content"] = m.pop(b"body")` -/
def bodyToContent (m : Dict) : Dict :=
  match bget m (s "body") with
  | some v => bset (bpop m (s "body")) (s "content") v
  | none => m

def conv_015_016 (d : Dict) : Option Dict := do
  let d ← bupd d (s "request") (fun r => pure (bodyToContent r))
  let d ← bupd d (s "response") (fun r => pure (bodyToContent r))
  let d ← bupd d (s "response") (fun r => pure (match bget r (s "msg") with
    | some v => bset (bpop r (s "msg")) (s "reason") v
    | none => r))
  let d ← bupd d (s "request") (fun r => pure (bpop r (s "form_out")))
  pure (bsetVersion d 16)

def conv_016_017 (d : Dict) : Option Dict := do
  let d ← bupd d (s "server_conn") (fun c => pure (bset c (s "peer_address") .null))
  pure (bsetVersion d 17)

/-- the bytes-key converters, by the minor version they read -/
def convBytes (minor : Nat) : Option (Dict → Option Dict) :=
  match minor with
  | 11 => some conv_011_012 | 12 => some conv_012_013 | 13 => some conv_013_014 | 14 => some conv_014_015
  | 15 => some conv_015_016 | 16 => some conv_016_017
  | _ => none

end MitmVerif.C38Conv
