/-
  C38 — the converters' field surgery (mitmproxy/io/compat.py), integer format versions 10 … 21,
  over the tnetstring value type of Model/C36.  Python dict semantics: assignment to an existing key keeps
  its position, a new key is appended, `pop` removes.  A converter that meets a state whose shape the Python
  would reject with an exception returns `none`.
-/
import MitmVerif.Model.C36
import MitmVerif.Model.C35_Str
namespace MitmVerif.C38Conv
open MitmVerif MitmVerif.C36

abbrev Dict := List (Value × Value)

def keyIs (k : Value) (name : Bytes) : Bool :=
  match k with
  | .str u => u == name
  | _ => false

def dget (d : Dict) (name : Bytes) : Option Value := (d.find? (fun kv => keyIs kv.1 name)).map (·.2)

def dhas (d : Dict) (name : Bytes) : Bool := d.any (fun kv => keyIs kv.1 name)

def dset (d : Dict) (name : Bytes) (v : Value) : Dict :=
  if dhas d name then d.map (fun kv => if keyIs kv.1 name then (kv.1, v) else kv)
  else d ++ [(.str name, v)]

def dpop (d : Dict) (name : Bytes) : Dict := d.filter (fun kv => !keyIs kv.1 name)

def s (x : String) : Bytes := x.toUTF8.toList

def asDict : Value → Option Dict
  | .dict kvs => some kvs
  | _ => none

def truthy : Value → Bool
  | .null => false
  | .bool b => b
  | .int i => i != 0
  | .float _ => true          -- never used on floats by the converters
  | .bytes b => !b.isEmpty
  | .str u => !u.isEmpty
  | .list l => !l.isEmpty
  | .dict kvs => !kvs.isEmpty

/-- update the sub-dict stored under `name` (KeyError / TypeError ⇒ none) -/
def dupd (d : Dict) (name : Bytes) (f : Dict → Option Dict) : Option Dict := do
  let sub ← dget d name
  let sd ← asDict sub
  let sd' ← f sd
  pure (dset d name (.dict sd'))

def setVersion (d : Dict) (n : Int) : Dict := dset d (s "version") (.int n)

/-- hex digits of `\xNN` as produced by the `backslashreplace` error handler -/
def hexd (n : Nat) : UInt8 := if n < 10 then UInt8.ofNat (48 + n) else UInt8.ofNat (87 + n)

/-- `bytes.decode("ascii", "backslashreplace")` as the UTF-8 bytes of the resulting str -/
def asciiBackslash (b : Bytes) : Bytes :=
  b.flatMap (fun c => if c.toNat < 0x80 then [c] else [0x5c, 0x78, hexd (c.toNat / 16), hexd (c.toNat % 16)])

/-- `strutils.always_str(x, "ascii", "backslashreplace")` -/
def alwaysStr : Value → Option Value
  | .null => some .null
  | .str u => some (.str u)
  | .bytes b => some (.str (asciiBackslash b))
  | _ => none                                                   -- TypeError

-- ---------------------------------------------------------------------------------------------
def conv_10_11 (d : Dict) : Option Dict := do
  let conn (c : Dict) : Option Dict := do
    let sni ← dget c (s "sni")
    let sni' ← alwaysStr sni
    let c := dset c (s "sni") sni'
    let alpn ← dget c (s "alpn_proto_negotiated")
    let c := dset (dpop c (s "alpn_proto_negotiated")) (s "alpn") alpn
    let ao ← dget c (s "alpn_offers")
    let c := dset c (s "alpn_offers") (if truthy ao then ao else .list [])
    let cl ← dget c (s "cipher_list")
    pure (dset c (s "cipher_list") (if truthy cl then cl else .list []))
  let d := setVersion d 11
  let d ← dupd d (s "client_conn") conn
  let d ← dupd d (s "server_conn") conn
  let sc ← (dget d (s "server_conn")).bind asDict
  let via ← dget sc (s "via")
  if truthy via then
    dupd d (s "server_conn") (fun sc => dupd sc (s "via") conn)
  else pure d

/-- only the branch without websocket metadata (the other two use process-global state) -/
def conv_11_12 (d : Dict) : Option Dict := do
  let d := setVersion d 12
  let md ← (dget d (s "metadata")).bind asDict
  if dhas md (s "websocket") || dhas md (s "websocket_handshake") then none
  else pure (dset d (s "websocket") .null)

def conv_12_13 (d : Dict) : Option Dict := do
  let d := setVersion d 13
  let m ← dget d (s "marked")
  pure (dset d (s "marked") (.str (if truthy m then s ":default:" else [])))

/-- `x + 1` on a stored number; the float case is Python's double arithmetic + `repr`, a parameter: `fadd t` is the
    text of `float(t) + 1` -/
def numAdd1F (fadd : Bytes → Option Bytes) : Value → Option Value
  | .int i => some (.int (i + 1))
  | .float t => (fadd t).map .float
  | _ => none

def conv_13_14F (fadd : Bytes → Option Bytes) (d : Dict) : Option Dict := do
  let d := setVersion d 14
  let d := dset d (s "comment") (.str [])
  match dget d (s "response") with
  | some (.dict resp) =>
    if resp.isEmpty then pure d else
    match dget resp (s "timestamp_start") with
    | some .null => do
      let req ← (dget d (s "request")).bind asDict
      let te ← dget req (s "timestamp_end")
      let te1 ← numAdd1F fadd te
      pure (dset d (s "response") (.dict (dset (dset resp (s "timestamp_start") te) (s "timestamp_end") te1)))
    | some _ => pure d
    | none => none
  | _ => pure d

/-- without an answer for float timestamps (integer timestamps only) -/
def conv_13_14 (d : Dict) : Option Dict := conv_13_14F (fun _ => none) d

def conv_14_15 (d : Dict) : Option Dict := do
  let d := setVersion d 15
  match dget d (s "websocket") with
  | some (.dict ws) =>
    if ws.isEmpty then pure d else do
    let msgs ← dget ws (s "messages")
    match msgs with
    | .list l => do
      let l' ← l.mapM (fun m => match m with
        | .list xs => some (.list (xs ++ [.bool false]))
        | _ => none)
      pure (dset d (s "websocket") (.dict (dset ws (s "messages") (.list l'))))
    | _ => none
  | _ => pure d

def conv_15_16 (d : Dict) : Option Dict := do
  let d := setVersion d 16
  let src ← (match dget d (s "request") with
    | some r => some r
    | none => dget d (s "client_conn"))
  let sd ← asDict src
  let ts ← dget sd (s "timestamp_start")
  pure (dset d (s "timestamp_created") ts)

def conv_16_17 (d : Dict) : Option Dict := pure (dpop (setVersion d 17) (s "mode"))

def conv_17_18 (d : Dict) : Option Dict := do
  let d := setVersion d 18
  dupd d (s "client_conn") (fun c => pure (dset c (s "proxy_mode") (.str (s "regular"))))

/-- `bytes.decode(errors="backslashreplace")` (UTF-8) as the UTF-8 bytes of the resulting str: the C35 transcription of the
    UTF-8 decoder marks every undecodable byte `b` as U+DC00+b; backslashreplace writes `\xNN` for exactly those bytes. -/
def bsrUtf8 (b : Bytes) : Bytes :=
  (MitmVerif.C35.native b).flatMap (fun cp =>
    if 0xDC80 ≤ cp ∧ cp ≤ 0xDCFF then [0x5c, 0x78, hexd ((cp - 0xDC00) / 16), hexd ((cp - 0xDC00) % 16)]
    else (MitmVerif.C35.enc1 cp).getD [])

/-- `d.pop(name, None)` -/
def dpopD (d : Dict) (name : Bytes) : Value × Dict := ((dget d name).getD .null, dpop d name)

/-- `if c.get(name) and isinstance(c[name][0], bytes): c[name][0] = c[name][0].decode(errors="backslashreplace")` -/
def decodeHostIn (c : Dict) (name : Bytes) : Option Dict :=
  match dget c name with
  | none => some c
  | some v =>
    if !truthy v then some c else
    match v with
    | .list (.bytes h :: rest) => some (dset c name (.list (.str (bsrUtf8 h) :: rest)))
    | .list _ => some c
    | .str _ => some c                       -- "abc"[0] is a str
    | .bytes _ => some c                     -- b"abc"[0] is an int
    | _ => none                              -- int / float / bool [0]: TypeError; dict[0]: KeyError

/-- the renames of the per-connection loop body of 18→19 (after `tls_established` was found present) -/
def conn18fields (c : Dict) : Dict :=
  let c := dpop c (s "tls_established")
  let c := dset (dpop c (s "cipher_name")) (s "cipher") ((dget c (s "cipher_name")).getD .null)
  if dhas c (s "transport_protocol") then c else dset c (s "transport_protocol") (.str (s "tcp"))

/-- the per-connection loop body of 18→19 -/
def conn18 (c : Dict) : Option Dict :=
  if !dhas c (s "tls_established") then none else do
  let c ← decodeHostIn (conn18fields c) (s "peername")
  let c ← decodeHostIn c (s "sockname")
  decodeHostIn c (s "address")

/-- `if c.get("timestamp_start") is None: c["timestamp_start"] = 0.0` -/
def tsDefault (cc : Dict) : Dict :=
  match dget cc (s "timestamp_start") with
  | none => dset cc (s "timestamp_start") (.float (s "0.0"))
  | some .null => dset cc (s "timestamp_start") (.float (s "0.0"))
  | some _ => cc

/-- `c[new] = c.pop(old, None)` -/
def rename (c : Dict) (old new : Bytes) : Dict := dset (dpop c old) new ((dget c old).getD .null)

/-- the client record before the per-connection loop -/
def client18pre (cc : Dict) : Dict := tsDefault (rename cc (s "address") (s "peername"))

/-- what 18→19 does to `client_conn` -/
def client18 (cc : Dict) : Option Dict :=
  if dhas (client18pre cc) (s "tls_extensions") then conn18 (dpop (client18pre cc) (s "tls_extensions")) else none

/-- the server record before the per-connection loop -/
def server18pre (sc : Dict) : Dict :=
  rename (rename (rename sc (s "ip_address") (s "peername")) (s "source_address") (s "sockname")) (s "via2") (s "via")

/-- `address[0]` for a truthy address: a list's first item, a str's first character (UTF-8 lead byte + continuations), a
    bytes' first byte as an int; anything else raises -/
def firstOf : Value → Option Value
  | .list (h :: _) => some h
  | .str (b :: rest) => some (.str (b :: rest.takeWhile (fun c => 0x80 ≤ c.toNat ∧ c.toNat < 0xC0)))
  | .bytes (b :: _) => some (.int b.toNat)
  | _ => none

/-- `if sc["sni"] is True: address = sc["address"]; sc["sni"] = address[0] if address else None` -/
def sniFix (sc : Dict) : Option Dict := do
  let sni ← dget sc (s "sni")
  match sni with
  | .bool true =>
    match dget sc (s "address") with
    | none => none                                                       -- KeyError
    | some a =>
      if truthy a then (firstOf a).map (fun h => dset sc (s "sni") h)
      else some (dset sc (s "sni") .null)                                -- no destination on record: no server name
  | _ => some sc

/-- what 18→19 does to `server_conn` -/
def server18 (sc : Dict) : Option Dict := conn18 (server18pre sc) >>= sniFix

def conv_18_19 (d : Dict) : Option Dict := do
  let d := setVersion d 19
  let cc ← (dget d (s "client_conn")).bind asDict
  let sc ← (dget d (s "server_conn")).bind asDict
  let cc' ← client18 cc
  let sc' ← server18 sc
  pure (dset (dset d (s "client_conn") (.dict cc')) (s "server_conn") (.dict sc'))

def conv_19_20 (d : Dict) : Option Dict := do
  let d := setVersion d 20
  let d ← dupd d (s "client_conn") (fun c => pure (dpop c (s "state")))
  dupd d (s "server_conn") (fun c => pure (dpop c (s "state")))

def conv_20_21 (d : Dict) : Option Dict := do
  let d := setVersion d 21
  let fix (c : Dict) : Option Dict := do
    let tv ← dget c (s "tls_version")
    pure (match tv with
      | .str u => if u == s "QUIC" then dset c (s "tls_version") (.str (s "QUICv1")) else c
      | _ => c)
  let d ← dupd d (s "client_conn") fix
  dupd d (s "server_conn") fix

/-- the converters modelled here, by the version they read -/
def conv (v : Nat) : Option (Dict → Option Dict) :=
  match v with
  | 10 => some conv_10_11 | 11 => some conv_11_12 | 12 => some conv_12_13 | 13 => some conv_13_14
  | 14 => some conv_14_15 | 15 => some conv_15_16 | 16 => some conv_16_17 | 17 => some conv_17_18
  | 18 => some conv_18_19
  | 19 => some conv_19_20 | 20 => some conv_20_21
  | _ => none

/-- apply the chain from 19 upward -/
def chain19 (d : Dict) : Option Dict := conv_19_20 d >>= conv_20_21

/-- apply the chain from 12 up to 18 -/
def chain12_18 (d : Dict) : Option Dict :=
  conv_12_13 d >>= conv_13_14 >>= conv_14_15 >>= conv_15_16 >>= conv_16_17 >>= conv_17_18

/-! ### the older integer formats 5 … 9 (kept apart from `conv`: 7→8 and 8→9 do touch the request) -/

/-- `c[new] = c.pop(old)` (KeyError if absent) -/
def renameStrict (c : Dict) (old new : Bytes) : Option Dict :=
  (dget c old).map (fun v => dset (dpop c old) new v)

/-- apply `f` to `server_conn.via` when it is truthy -/
def viaUpd (d : Dict) (f : Dict → Option Dict) : Option Dict := do
  let sc ← (dget d (s "server_conn")).bind asDict
  let via ← dget sc (s "via")
  if truthy via then dupd d (s "server_conn") (fun sc => dupd sc (s "via") f) else pure d

def sslToTls (c : Dict) : Option Dict :=
  (renameStrict c (s "ssl_established") (s "tls_established")).bind
    (fun c => renameStrict c (s "timestamp_ssl_setup") (s "timestamp_tls_setup"))

def conv_5_6 (d : Dict) : Option Dict := do
  let d := setVersion d 6
  let d ← dupd d (s "client_conn") sslToTls
  let d ← dupd d (s "server_conn") sslToTls
  viaUpd d sslToTls

def conv_6_7 (d : Dict) : Option Dict :=
  dupd (setVersion d 7) (s "client_conn") (fun c => pure (dset c (s "tls_extensions") .null))

/-- `if name in d and d[name] is not None: d[name]["trailers"] = None` -/
def trailersNull (d : Dict) (name : Bytes) : Option Dict :=
  match dget d name with
  | none => some d
  | some .null => some d
  | some (.dict r) => some (dset d name (.dict (dset r (s "trailers") .null)))
  | some _ => none                                            -- item assignment on int/str/bytes/list: TypeError

def conv_7_8 (d : Dict) : Option Dict :=
  (trailersNull (setVersion d 8) (s "request")).bind (fun d => trailersNull d (s "response"))

/-- the request part of 8→9: the new top-level dict and the popped `is_replay` (default `False`) -/
def req89 (d : Dict) : Option (Dict × Value) :=
  match dget d (s "request") with
  | none => some (d, .bool false)
  | some (.dict r) =>
    if dhas r (s "first_line_format") then
      let r1 := dset (dpop r (s "first_line_format")) (s "authority") (.bytes [])
      some (dset d (s "request") (.dict (dpop r1 (s "is_replay"))), (dget r1 (s "is_replay")).getD (.bool false))
    else none                                                 -- KeyError
  | some _ => none                                            -- AttributeError: no .pop

def resp89 (d : Dict) : Option (Dict × Value) :=
  match dget d (s "response") with
  | none => some (d, .bool false)
  | some .null => some (d, .bool false)
  | some (.dict r) => some (dset d (s "response") (.dict (dpop r (s "is_replay"))), (dget r (s "is_replay")).getD (.bool false))
  | some _ => none

def conv_8_9 (d : Dict) : Option Dict := do
  let (d, rq) ← req89 (setVersion d 9)
  let (d, rs) ← resp89 d
  pure (dset d (s "is_replay") (if truthy rq then .str (s "request") else if truthy rs then .str (s "response") else .null))

def oneOrNull (v : Value) : Value := if truthy v then .list [v] else .null
def oneOrEmpty (v : Value) : Value := if truthy v then .list [v] else .list []

def convConn9 (c : Dict) : Option Dict := do
  let c := dset (dset c (s "state") (.int 0)) (s "error") .null
  let te ← dget c (s "tls_established")
  let c := dset c (s "tls") te
  let alpn ← dget c (s "alpn_proto_negotiated")
  let c := dset c (s "alpn_offers") (oneOrNull alpn)
  let cipher ← dget c (s "cipher_name")
  pure (dset c (s "cipher_list") (oneOrNull cipher))

def convCConn9 (c : Dict) : Option Dict :=
  let c1 := dset c (s "sockname") (.list [.str [], .int 0])
  convConn9 (dset (dpop c1 (s "clientcert")) (s "certificate_list") (oneOrEmpty ((dget c1 (s "clientcert")).getD .null)))

def convSConn9 (c : Dict) : Option Dict :=
  let c1 := dset (dpop c (s "cert")) (s "certificate_list") (oneOrEmpty ((dget c (s "cert")).getD .null))
  convConn9 (dset (dset c1 (s "cipher_name") .null) (s "via2") .null)

def conv_9_10 (d : Dict) : Option Dict := do
  let d := setVersion d 10
  let d ← dupd d (s "client_conn") convCConn9
  let d ← dupd d (s "server_conn") convSConn9
  viaUpd d convSConn9

/-- the older converters modelled here, by the version they read -/
def convOld (v : Nat) : Option (Dict → Option Dict) :=
  match v with
  | 5 => some conv_5_6 | 6 => some conv_6_7 | 7 => some conv_7_8 | 8 => some conv_8_9 | 9 => some conv_9_10
  | _ => none

end MitmVerif.C38Conv
