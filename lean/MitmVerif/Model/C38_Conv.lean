/-
  C38 — the converters' field surgery (mitmproxy/io/compat.py), integer format versions 10 … 21,
  over the tnetstring value type of Model/C36.  Python dict semantics: assignment to an existing key keeps
  its position, a new key is appended, `pop` removes.  A converter that meets a state whose shape the Python
  would reject with an exception returns `none`.
-/
import MitmVerif.Model.C36
namespace MitmVerif.C38Conv
open MitmVerif MitmVerif.C36

abbrev Dict := List (Value × Value)

def keyIs (k : Value) (name : Bytes) : Bool :=
  match k with
  | .str u => u == name
  | _ => false

def dget (d : Dict) (name : Bytes) : Option Value := (d.find? (fun kv => keyIs kv.1 name)).map (·.2)

def dhas (d : Dict) (name : Bytes) : Bool := d.any (fun kv => keyIs kv.1 name)

def dset (d : Dict) (name : Bytes) (v : Value) : Dict :=
  if dhas d name then d.map (fun kv => if keyIs kv.1 name then (kv.1, v) else kv)
  else d ++ [(.str name, v)]

def dpop (d : Dict) (name : Bytes) : Dict := d.filter (fun kv => !keyIs kv.1 name)

def s (x : String) : Bytes := x.toUTF8.toList

def asDict : Value → Option Dict
  | .dict kvs => some kvs
  | _ => none

def truthy : Value → Bool
  | .null => false
  | .bool b => b
  | .int i => i != 0
  | .float _ => true          -- never used on floats by the converters
  | .bytes b => !b.isEmpty
  | .str u => !u.isEmpty
  | .list l => !l.isEmpty
  | .dict kvs => !kvs.isEmpty

/-- update the sub-dict stored under `name` (KeyError / TypeError ⇒ none) -/
def dupd (d : Dict) (name : Bytes) (f : Dict → Option Dict) : Option Dict := do
  let sub ← dget d name
  let sd ← asDict sub
  let sd' ← f sd
  pure (dset d name (.dict sd'))

def setVersion (d : Dict) (n : Int) : Dict := dset d (s "version") (.int n)

/-- hex digits of `\xNN` as produced by the `backslashreplace` error handler -/
def hexd (n : Nat) : UInt8 := if n < 10 then UInt8.ofNat (48 + n) else UInt8.ofNat (87 + n)

/-- `bytes.decode("ascii", "backslashreplace")` as the UTF-8 bytes of the resulting str -/
def asciiBackslash (b : Bytes) : Bytes :=
  b.flatMap (fun c => if c.toNat < 0x80 then [c] else [0x5c, 0x78, hexd (c.toNat / 16), hexd (c.toNat % 16)])

/-- `strutils.always_str(x, "ascii", "backslashreplace")` -/
def alwaysStr : Value → Option Value
  | .null => some .null
  | .str u => some (.str u)
  | .bytes b => some (.str (asciiBackslash b))
  | _ => none                                                   -- TypeError

-- ---------------------------------------------------------------------------------------------
def conv_10_11 (d : Dict) : Option Dict := do
  let conn (c : Dict) : Option Dict := do
    let sni ← dget c (s "sni")
    let sni' ← alwaysStr sni
    let c := dset c (s "sni") sni'
    let alpn ← dget c (s "alpn_proto_negotiated")
    let c := dset (dpop c (s "alpn_proto_negotiated")) (s "alpn") alpn
    let ao ← dget c (s "alpn_offers")
    let c := dset c (s "alpn_offers") (if truthy ao then ao else .list [])
    let cl ← dget c (s "cipher_list")
    pure (dset c (s "cipher_list") (if truthy cl then cl else .list []))
  let d := setVersion d 11
  let d ← dupd d (s "client_conn") conn
  let d ← dupd d (s "server_conn") conn
  let sc ← (dget d (s "server_conn")).bind asDict
  let via ← dget sc (s "via")
  if truthy via then
    dupd d (s "server_conn") (fun sc => dupd sc (s "via") conn)
  else pure d

/-- only the branch without websocket metadata (the other two use process-global state) -/
def conv_11_12 (d : Dict) : Option Dict := do
  let d := setVersion d 12
  let md ← (dget d (s "metadata")).bind asDict
  if dhas md (s "websocket") || dhas md (s "websocket_handshake") then none
  else pure (dset d (s "websocket") .null)

def conv_12_13 (d : Dict) : Option Dict := do
  let d := setVersion d 13
  let m ← dget d (s "marked")
  pure (dset d (s "marked") (.str (if truthy m then s ":default:" else [])))

def numAdd1 : Value → Option Value
  | .int i => some (.int (i + 1))
  | _ => none                                                   -- floats are not modelled: the tie skips them

def conv_13_14 (d : Dict) : Option Dict := do
  let d := setVersion d 14
  let d := dset d (s "comment") (.str [])
  match dget d (s "response") with
  | some (.dict resp) =>
    if resp.isEmpty then pure d else
    match dget resp (s "timestamp_start") with
    | some .null => do
      let req ← (dget d (s "request")).bind asDict
      let te ← dget req (s "timestamp_end")
      let te1 ← numAdd1 te
      pure (dset d (s "response") (.dict (dset (dset resp (s "timestamp_start") te) (s "timestamp_end") te1)))
    | some _ => pure d
    | none => none
  | _ => pure d

def conv_14_15 (d : Dict) : Option Dict := do
  let d := setVersion d 15
  match dget d (s "websocket") with
  | some (.dict ws) =>
    if ws.isEmpty then pure d else do
    let msgs ← dget ws (s "messages")
    match msgs with
    | .list l => do
      let l' ← l.mapM (fun m => match m with
        | .list xs => some (.list (xs ++ [.bool false]))
        | _ => none)
      pure (dset d (s "websocket") (.dict (dset ws (s "messages") (.list l'))))
    | _ => none
  | _ => pure d

def conv_15_16 (d : Dict) : Option Dict := do
  let d := setVersion d 16
  let src ← (match dget d (s "request") with
    | some r => some r
    | none => dget d (s "client_conn"))
  let sd ← asDict src
  let ts ← dget sd (s "timestamp_start")
  pure (dset d (s "timestamp_created") ts)

def conv_16_17 (d : Dict) : Option Dict := pure (dpop (setVersion d 17) (s "mode"))

def conv_17_18 (d : Dict) : Option Dict := do
  let d := setVersion d 18
  dupd d (s "client_conn") (fun c => pure (dset c (s "proxy_mode") (.str (s "regular"))))

def conv_19_20 (d : Dict) : Option Dict := do
  let d := setVersion d 20
  let d ← dupd d (s "client_conn") (fun c => pure (dpop c (s "state")))
  dupd d (s "server_conn") (fun c => pure (dpop c (s "state")))

def conv_20_21 (d : Dict) : Option Dict := do
  let d := setVersion d 21
  let fix (c : Dict) : Option Dict := do
    let tv ← dget c (s "tls_version")
    pure (match tv with
      | .str u => if u == s "QUIC" then dset c (s "tls_version") (.str (s "QUICv1")) else c
      | _ => c)
  let d ← dupd d (s "client_conn") fix
  dupd d (s "server_conn") fix

/-- the converters modelled here, by the version they read -/
def conv (v : Nat) : Option (Dict → Option Dict) :=
  match v with
  | 10 => some conv_10_11 | 11 => some conv_11_12 | 12 => some conv_12_13 | 13 => some conv_13_14
  | 14 => some conv_14_15 | 15 => some conv_15_16 | 16 => some conv_16_17 | 17 => some conv_17_18
  | 19 => some conv_19_20 | 20 => some conv_20_21
  | _ => none

/-- apply the chain from 19 upward (18→19 is not modelled: it decodes host bytes with UTF-8/backslashreplace) -/
def chain19 (d : Dict) : Option Dict := conv_19_20 d >>= conv_20_21

/-- apply the chain from 12 up to 18 -/
def chain12_18 (d : Dict) : Option Dict :=
  conv_12_13 d >>= conv_13_14 >>= conv_14_15 >>= conv_15_16 >>= conv_16_17 >>= conv_17_18

end MitmVerif.C38Conv
