/-
  C38 — `compat.migrate_flow` as a whole: the loop over the version key with every converter of `compat.converters`
  dispatched to its Lean transcription (Model/C38_Bytes, C38_Tuple, C38_Conv, C38_State).  The state threaded through is
  what the two stateful converters keep at module level.
-/
import MitmVerif.Model.C38_State
import MitmVerif.Model.C38_Tuple
import MitmVerif.Model.C38_Bytes
namespace MitmVerif.C38Conv
open MitmVerif MitmVerif.C36

structure MigSt where
  ws  : Tbl Dict
  ids : Ids

/-- the key `migrate_flow` looks up: an int, or the first two items of a tuple -/
inductive VKey where
  | int (n : Int)
  | tup (a b : Int)
  | other                     -- a tuple of fewer than two ints, or anything `tuple()` accepts that is no known key
  deriving DecidableEq, Repr

/-- `flow_data.get(b"version", flow_data.get("version"))`, then `tuple(v)[:2]` unless it is an int; `none` = TypeError -/
def versionKey (d : Dict) : Option VKey :=
  match (bget d (s "version")).orElse (fun _ => dget d (s "version")) with
  | some (.int n) => some (.int n)
  | some (.list (.int a :: .int b :: _)) => some (.tup a b)
  | some (.list _) => some .other
  | some (.str _) => some .other
  | some (.bytes _) => some .other
  | some (.dict _) => some .other
  | _ => none                                                      -- None / bool / float: tuple() raises (bool: not generated)

/-- one converter step by key -/
def convAny (fresh : Nat → Value) (fadd : Bytes → Option Bytes) (st : MigSt) (k : VKey) (d : Dict) : Option (Option (MigSt × Dict)) :=
  match k with
  | .tup a b =>
    if a < 0 ∨ b < 0 then none else
    match (convTuple a.toNat b.toNat).orElse (fun _ => if a = 0 then convBytes b.toNat else none) with
    | some f => some ((f d).map (fun d' => (st, d')))
    | none => none
  | .int n =>
    if n = 4 then some ((conv_4_5_st fresh st.ids d).map (fun r => ({ st with ids := r.1 }, r.2)))
    else if n = 11 then some ((conv_11_12_st st.ws d).map (fun r => ({ st with ws := r.1 }, r.2)))
    else if n = 13 then some ((conv_13_14F fadd d).map (fun d' => (st, d')))
    else if n < 0 then none
    else match (conv n.toNat).orElse (fun _ => convOld n.toNat) with
      | some f => some ((f d).map (fun d' => (st, d')))
      | none => none
  | .other => none

/-- `migrate_flow`, three-valued: OUTER `none` = the model ran out of fuel (the Python loop would still be turning);
    `some none` = an exception (unknown or missing version, conflicting version information, or a converter raised);
    `some (some (st, d))` = returned `d` with the tables `st`. -/
def migrateFlowF (fresh : Nat → Value) (fadd : Bytes → Option Bytes) (cur : Int) :
    Nat → MigSt → Option VKey → Dict → Option (Option (MigSt × Dict))
  | 0, _, _, _ => none
  | f + 1, st, prev, d =>
    match versionKey d with
    | none => some none
    | some k =>
      if k = .int cur then some (some (st, d))
      else if some k = prev then some none                         -- "Flow has conflicting version information."
      else match convAny fresh fadd st k d with
        | none => some none                                        -- "cannot read files with flow format version …"
        | some none => some none                                   -- the converter raised
        | some (some (st', d')) => migrateFlowF fresh fadd cur f st' (some k) d'

/-- the two failure kinds merged (what a caller that supplies enough fuel sees) -/
def migrateFlow (fresh : Nat → Value) (fadd : Bytes → Option Bytes) (cur : Int) (f : Nat) (st : MigSt) (prev : Option VKey)
    (d : Dict) : Option (MigSt × Dict) := (migrateFlowF fresh fadd cur f st prev d).join

/-! ### executable form of the shape under which `Props.C38.format_12_records_load` proves that a format-12 record loads -/

/-- a value `decodeHostIn` accepts under a key: absent, falsy, or a list / str / bytes (same as `hostOkB` in Lemmas/C38_Succ) -/
def hostOkM (o : Option Value) : Bool :=
  match o with
  | none => true
  | some v => !truthy v || (match v with | .list _ => true | .str _ => true | .bytes _ => true | _ => false)

def isNull : Option Value → Bool
  | some .null => true
  | _ => false

def sniOkM (sc : Dict) : Bool :=
  match dget sc (s "sni") with
  | none => false
  | some (.bool true) =>
    (match dget sc (s "address") with
     | some .null => true
     | some (.list (_ :: _)) => true
     | _ => false)
  | some _ => true

def connShapeB (cc sc : Dict) : Bool :=
  (dget cc (s "tls_extensions")).isSome && (dget cc (s "tls_established")).isSome && hostOkM (dget cc (s "address")) &&
  hostOkM (dget cc (s "sockname")) && (dget cc (s "tls_version")).isSome && (dget sc (s "tls_established")).isSome &&
  hostOkM (dget sc (s "ip_address")) && hostOkM (dget sc (s "source_address")) && hostOkM (dget sc (s "address")) &&
  (dget sc (s "tls_version")).isSome && sniOkM sc

def respOkB (d : Dict) : Bool :=
  match dget d (s "response") with
  | some .null => true
  | some (.dict r) => (match dget r (s "timestamp_start") with | some .null => false | some _ => true | none => false)
  | _ => false

def reqOkB (d : Dict) : Bool :=
  match dget d (s "request") with
  | some (.dict rq) => (dget rq (s "timestamp_start")).isSome
  | _ => false

/-- `Shape12 d ∧ ConnShape cc sc` for the record's own connection records, as a Bool the driver can print -/
def shape12B (d : Dict) : Bool :=
  (dget d (s "marked")).isSome && respOkB d && isNull (dget d (s "websocket")) && reqOkB d &&
  (match dget d (s "client_conn"), dget d (s "server_conn") with
   | some (.dict cc), some (.dict sc) => connShapeB cc sc
   | _, _ => false)

end MitmVerif.C38Conv
