/-
  C38 — the two converters that keep PROCESS-GLOBAL state across the records of a run
  (mitmproxy/io/compat.py):

  * `convert_11_12` with `_websocket_handshakes`: a handshake flow (metadata has "websocket") is deep-copied into the
    table under its id; a later old-style websocket flow (metadata has "websocket_handshake") pops that copy and becomes
    the handshake flow carrying the messages; with no copy on record a dummy flow is made up.
  * `convert_4_5` with `client_connections` / `server_connections`: connection ids are drawn from uuid4 (a parameter:
    the supply of fresh ids) and remembered per (timestamp_start, *address) key, so that flows of one connection share
    the id.  `str(uuid.uuid4())` is an ARGUMENT of `setdefault`: an id is drawn on every call, used or not.

  Keys of the tables are compared through the tnetstring encoding (`C36.enc`) of the key value: equal encodings ⇔ equal
  values for the str / float-text / list-of-scalars keys old files contain (an int 1 and a float 1.0 are equal in Python
  and differ here: not generated, stated in the check's level note).
-/
import MitmVerif.Model.C38_Conv
namespace MitmVerif.C38Conv
open MitmVerif MitmVerif.C36

/-- an association table keyed by encoded values -/
abbrev Tbl (α : Type) := List (Bytes × α)

def tget {α : Type} (t : Tbl α) (k : Bytes) : Option α := (t.find? (fun e => e.1 == k)).map (·.2)
def tdel {α : Type} (t : Tbl α) (k : Bytes) : Tbl α := t.filter (fun e => !(e.1 == k))
/-- `t[k] = v` -/
def tset {α : Type} (t : Tbl α) (k : Bytes) (v : α) : Tbl α := (k, v) :: tdel t k

-- `C36.hashable`: usable as a dict key — scalars (lists and dicts raise TypeError)

def duplicatedNote : Bytes :=
  s "This WebSocket flow has been migrated from an old file format version and may appear duplicated."

/-- `{"authority": b"", …}` of the made-up flow -/
def dummyRequest : Value := .dict [
  (.str (s "authority"), .bytes []), (.str (s "content"), .null), (.str (s "headers"), .list []),
  (.str (s "host"), .bytes (s "unknown")), (.str (s "http_version"), .bytes (s "HTTP/1.1")),
  (.str (s "method"), .bytes (s "GET")), (.str (s "path"), .bytes (s "/")), (.str (s "port"), .int 80),
  (.str (s "scheme"), .bytes (s "http")), (.str (s "timestamp_end"), .int 0), (.str (s "timestamp_start"), .int 0),
  (.str (s "trailers"), .null)]

/-- the made-up handshake flow for a websocket flow whose handshake is not on record (KeyError if a field is missing) -/
def dummyFlow (d : Dict) : Option Dict := do
  let cc ← dget d (s "client_conn")
  let er ← dget d (s "error")
  let id ← dget d (s "id")
  let ic ← dget d (s "intercepted")
  let ir ← dget d (s "is_replay")
  let mk ← dget d (s "marked")
  let sc ← dget d (s "server_conn")
  pure [(.str (s "client_conn"), cc), (.str (s "error"), er), (.str (s "id"), id), (.str (s "intercepted"), ic),
        (.str (s "is_replay"), ir), (.str (s "marked"), mk), (.str (s "metadata"), .dict []),
        (.str (s "mode"), .str (s "transparent")), (.str (s "request"), dummyRequest), (.str (s "response"), .null),
        (.str (s "server_conn"), sc), (.str (s "type"), .str (s "http")), (.str (s "version"), .int 12)]

/-- `data.get("server_conn", {}).get("timestamp_end", None)` -/
def serverTsEnd (data : Dict) : Option Value :=
  match dget data (s "server_conn") with
  | none => some .null
  | some (.dict sc) => some ((dget sc (s "timestamp_end")).getD .null)
  | some _ => none                                              -- AttributeError

/-- the `websocket` record built from the old websocket flow `ws` for the handshake flow `data` -/
def wsRecord (ws data : Dict) : Option Value := do
  let msgs ← dget ws (s "messages")
  let cs ← dget ws (s "close_sender")
  let cc ← dget ws (s "close_code")
  let cr ← dget ws (s "close_reason")
  let te ← serverTsEnd data
  pure (.dict [(.str (s "messages"), msgs),
               (.str (s "closed_by_client"), .bool (match cs with | .str u => u == s "client" | _ => false)),
               (.str (s "close_code"), cc), (.str (s "close_reason"), cr), (.str (s "timestamp_end"), te)])

/-- `convert_11_12` with its table: the new table and the converted record (`none` = an exception; the table may then
    have been changed already — `conv1112Tbl` gives the table in every case) -/
def conv1112Store (g : Tbl Dict) (d12 : Dict) (md : Dict) : Option (Tbl Dict) :=
  if dhas md (s "websocket") then
    match dget d12 (s "id") with
    | some id => if hashable id then some (tset g (enc id) d12) else none
    | none => none
  else some g

def conv_11_12_st (g : Tbl Dict) (d : Dict) : Option (Tbl Dict × Dict) := do
  let d12 := setVersion d 12
  let md ← (dget d12 (s "metadata")).bind asDict
  let g1 ← conv1112Store g d12 md
  if dhas md (s "websocket_handshake") then
    let hid ← dget md (s "websocket_handshake")
    if !hashable hid then none else
    let (data, g2) ← (match tget g1 (enc hid) with
      | some h => some (h, tdel g1 (enc hid))
      | none => (dummyFlow d12).map (fun x => (x, g1)))
    let dmd ← (dget data (s "metadata")).bind asDict
    let data := dset data (s "metadata") (.dict (dset dmd (s "duplicated") (.str duplicatedNote)))
    let rec_ ← wsRecord d12 data
    pure (g2, dset data (s "websocket") rec_)
  else pure (g1, dset d12 (s "websocket") .null)

/-- the table after a run of records (a record that raises leaves what it had stored: the reader stops there anyway) -/
def run1112 (g : Tbl Dict) : List Dict → Tbl Dict × List (Option Dict)
  | [] => (g, [])
  | d :: ds =>
    match conv_11_12_st g d with
    | some (g', d') => let r := run1112 g' ds; (r.1, some d' :: r.2)
    | none => (g, [none])

-- ---------------------------------------------------------------------------------------------
/-- the tables and the id supply of `convert_4_5`: `fresh n` is the n-th value `str(uuid.uuid4())` returns -/
structure Ids where
  client : Tbl Value
  server : Tbl Value
  drawn  : Nat

/-- `(conn["timestamp_start"], *conn[addr])` as an encoded key; `none` = KeyError / TypeError -/
def connKey (c : Dict) (addr : Bytes) : Option Bytes := do
  let ts ← dget c (s "timestamp_start")
  let a ← dget c addr
  match a with
  | .list xs => if hashable ts && xs.all hashable then some (enc (.list (ts :: xs))) else none
  | _ => none

/-- `table.setdefault(key, fresh)` -/
def setdefault (t : Tbl Value) (k : Bytes) (v : Value) : Tbl Value × Value :=
  match tget t k with
  | some old => (t, old)
  | none => (t ++ [(k, v)], v)

def conv_4_5_st (fresh : Nat → Value) (g : Ids) (d : Dict) : Option (Ids × Dict) := do
  let d := setVersion d 5
  let cc ← (dget d (s "client_conn")).bind asDict
  let sc ← (dget d (s "server_conn")).bind asDict
  let ck ← connKey cc (s "address")
  let sk ← connKey sc (s "source_address")
  let (ct, cid) := setdefault g.client ck (fresh g.drawn)
  let (st, sid) := setdefault g.server sk (fresh (g.drawn + 1))
  let cc := dset cc (s "id") cid
  let sc := dset sc (s "id") sid
  let via ← dget sc (s "via")
  if truthy via then
    let vd ← asDict via
    let vk ← connKey vd (s "source_address")
    let (st2, vid) := setdefault st vk (fresh (g.drawn + 2))
    let sc := dset sc (s "via") (.dict (dset vd (s "id") vid))
    pure ({ client := ct, server := st2, drawn := g.drawn + 3 },
          dset (dset d (s "client_conn") (.dict cc)) (s "server_conn") (.dict sc))
  else
    pure ({ client := ct, server := st, drawn := g.drawn + 2 },
          dset (dset d (s "client_conn") (.dict cc)) (s "server_conn") (.dict sc))

end MitmVerif.C38Conv
