/-
  C38 — the converters of the release-numbered formats 0.17 … 3.0 (`convert_017_018` … `convert_300_4`), the ones that
  already work on `str` keys, and `convert_unicode` (py2/py3 dump files: bytes keys and four bytes values become str).
  The version written is a tuple, which tnetstring stores as a list.
-/
import MitmVerif.Model.C38_Conv
namespace MitmVerif.C38Conv
open MitmVerif MitmVerif.C36

/-- `strutils.always_str(x)` with the default codec: utf-8, strict -/
def alwaysStrU : Value → Option Value
  | .null => some .null
  | .str u => some (.str u)
  | .bytes b => if utf8Valid b then some (.str b) else none        -- UnicodeDecodeError
  | _ => none                                                      -- TypeError

mutual
/-- `_convert_dict_keys`: every dict key through `always_str`, recursively through dict VALUES (lists are left alone);
    a dict comprehension: a later equal key overwrites the value at the first one's position -/
def convKeys : Value → Option Value
  | .dict kvs => (convKeysPairs kvs).map (fun ps => .dict (ps.foldl (fun acc p => dset acc p.1 p.2) []))
  | v => some v
def convKeysPairs : List (Value × Value) → Option (List (Bytes × Value))
  | [] => some []
  | (k, v) :: t =>
    match alwaysStrU k, convKeys v, convKeysPairs t with
    | some (.str n), some v', some t' => some ((n, v') :: t')
    | _, _, _ => none                                              -- a None key stays None in Python: not a str key, not modelled
end

/-- `o[k] = always_str(o[k])` if `o` is truthy and has `k` -/
def strAt (o : Dict) (k : Bytes) : Option Dict :=
  if o.isEmpty then some o else
  match dget o k with
  | none => some o
  | some v => (alwaysStrU v).map (fun v' => dset o k v')

/-- `_convert_dict_vals(o[k], {k2: True})` if `o` has `k` -/
def strAtIn (o : Dict) (k k2 : Bytes) : Option Dict :=
  if o.isEmpty then some o else
  match dget o k with
  | none => some o
  | some .null => some o                                           -- `not o` one level down
  | some (.dict sub) => (strAt sub k2).map (fun sub' => dset o k (.dict sub'))
  | some _ => none                                                 -- lists/scalars under request/error: not in any old file

/-- `convert_unicode` -/
def convertUnicode (d : Dict) : Option Dict := do
  let d ← (convKeys (.dict d)).bind asDict
  let d ← strAt d (s "type")
  let d ← strAt d (s "id")
  let d ← strAtIn d (s "request") (s "first_line_format")
  strAtIn d (s "error") (s "msg")

def setVersionT (d : Dict) (v : List Int) : Dict := dset d (s "version") (.list (v.map .int))

def conv_017_018 (d : Dict) : Option Dict := do
  let d ← convertUnicode d
  let d ← dupd d (s "server_conn") (fun sc => pure (rename sc (s "peer_address") (s "ip_address")))
  pure (setVersionT (dset d (s "marked") (.bool false)) [0, 18])

def conv_018_019 (d : Dict) : Option Dict := do
  let d ← convertUnicode d
  let d ← dupd d (s "request") (fun r => pure (dpop (dpop r (s "stickyauth")) (s "stickycookie")))
  let d ← dupd d (s "client_conn") (fun c => pure
    (dset (dset (dset (dset c (s "sni") .null) (s "alpn_proto_negotiated") .null) (s "cipher_name") .null) (s "tls_version") .null))
  let d ← dupd d (s "server_conn") (fun c => pure (dset c (s "alpn_proto_negotiated") .null))
  let d ← viaUpd d (fun v => pure (dset v (s "alpn_proto_negotiated") .null))
  pure (setVersionT (dset (dset d (s "mode") (.str (s "regular"))) (s "metadata") (.dict [])) [0, 19])

def conv_019_100 (d : Dict) : Option Dict := do
  let d ← convertUnicode d
  pure (setVersionT d [1, 0, 0])

/-- `c[k] = c[k]["address"]` -/
def unwrapAddr (c : Dict) (k : Bytes) : Option Dict := do
  let a ← (dget c k).bind asDict
  let x ← dget a (s "address")
  pure (dset c k x)

/-- `if c[k]: c[k] = c[k]["address"]` -/
def unwrapAddrIf (c : Dict) (k : Bytes) : Option Dict := do
  let a ← dget c k
  if truthy a then unwrapAddr c k else pure c

def conv_100_200 (d : Dict) : Option Dict := do
  let d := setVersionT d [2, 0, 0]
  let d ← dupd d (s "client_conn") (fun c => unwrapAddr c (s "address"))
  let d ← dupd d (s "server_conn") (fun c => do
    let c ← unwrapAddr c (s "address")
    let c ← unwrapAddr c (s "source_address")
    unwrapAddrIf c (s "ip_address"))
  viaUpd d (fun v => do
    let v ← unwrapAddr v (s "address")
    let v ← unwrapAddr v (s "source_address")
    unwrapAddrIf v (s "ip_address"))

def conv_200_300 (d : Dict) : Option Dict := do
  let d := setVersionT d [3, 0, 0]
  let d ← dupd d (s "client_conn") (fun c => pure (dset c (s "mitmcert") .null))
  let d ← dupd d (s "server_conn") (fun c => pure (dset c (s "tls_version") .null))
  viaUpd d (fun v => pure (dset v (s "tls_version") .null))

def conv_300_4 (d : Dict) : Option Dict := pure (setVersion d 4)

/-- the release-numbered converters modelled here, by the (major, minor) they read -/
def convTuple (a b : Nat) : Option (Dict → Option Dict) :=
  match a, b with
  | 0, 17 => some conv_017_018 | 0, 18 => some conv_018_019 | 0, 19 => some conv_019_100
  | 1, 0 => some conv_100_200 | 2, 0 => some conv_200_300 | 3, 0 => some conv_300_4
  | _, _ => none

end MitmVerif.C38Conv
