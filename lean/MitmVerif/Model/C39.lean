/-
  C39 — the Save addon (mitmproxy/addons/save.py) streaming flows through FilteredFlowWriter (mitmproxy/io/io.py).

  The addon state is modelled exactly: options (save_stream_file / save_stream_filter), `stream` (open writer with
  its `flt`), `current_path`, `filt`, `active_flows`; every hook of every flow type, `save_flow`,
  `maybe_rotate_to_new_file`, `done`, `configure` (including its OptionsError branches and the option
  roll-back + second `configure` performed by OptManager.rollback) are transcribed.
  The environment is a parameter `Env`: the filter matcher (flowfilter.match), `flow.websocket is not None`,
  strftime of the path pattern, and which paths cannot be opened (OSError).
  Flows are mutable objects owned by the proxy: `world f` is the current content of flow f, changed by `edit`
  events; the addon only holds references (ids).  File-system effects are emitted as IO actions; `FS` replays them.

  The model follows save.py after the repair "open the new file before closing the old one" (fix commit in /repo).
-/
namespace MitmVerif.C39

abbrev FlowId := Nat
abbrev Path := Nat

inductive Hook where
  | request | response | error | websocketEnd
  | tcpStart | tcpEnd | tcpError
  | udpStart | udpEnd | udpError
  | dnsRequest | dnsResponse | dnsError
  deriving DecidableEq, Repr

/-- environment: everything the addon calls but does not implement -/
structure Env (F C : Type) where
  mt : F → FlowId → C → Bool          -- flowfilter.match(flt, flow)
  isWs : C → Bool                      -- flow.websocket is not None
  fmt : Nat → Nat → Path               -- datetime.today().strftime(_path(spec)) for pattern `pat` at time `now`
  openFails : Path → Bool              -- Path.open raises OSError

structure Rec (C : Type) where
  flow : FlowId
  content : C
  deriving DecidableEq, Repr

/-- value of the save_stream_filter option: unset/empty, unparsable, or a filter -/
inductive FiltOpt (F : Type) where
  | unset | bad | ok (f : F)

/-- value of save_stream_file: "+" prefix (append) and the path pattern -/
structure Spec where
  append : Bool
  pat : Nat
  deriving DecidableEq, Repr

/-- file-system actions.  `opn p a`: open p ("ab" if a else "wb") as the new stream file, closing the previous
    stream file if there is one; `wr r`: tnetstring.dump + flush on the stream file; `cls`: close it. -/
inductive Act (C : Type) where
  | opn (p : Path) (append : Bool)
  | wr (r : Rec C)
  | cls

structure St (F C : Type) where
  optFile : Option Spec            -- ctx.options.save_stream_file
  optFilt : FiltOpt F              -- ctx.options.save_stream_filter
  stream : Option (Option F)       -- self.stream (some flt = open FilteredFlowWriter with that flt)
  curPath : Option Path            -- self.current_path
  filt : Option F                  -- self.filt
  active : List FlowId             -- self.active_flows (a set: no duplicates)
  world : FlowId → C               -- current content of every flow object
  now : Nat                        -- the clock as seen by strftime
  exited : Bool                    -- sys.exit(1) was called

inductive Ev (F C : Type) where
  | hook (h : Hook) (f : FlowId)
  | edit (f : FlowId) (c : C)
  | tick (t : Nat)
  | update (file : Option (Option Spec)) (filt : Option (FiltOpt F))   -- options.update(**kwargs): keys present
  | done

variable {F C : Type}

def init (w : FlowId → C) : St F C :=
  { optFile := none, optFilt := .unset, stream := none, curPath := none, filt := none, active := [],
    world := w, now := 0, exited := false }

/-- FilteredFlowWriter.add: `if self.flt and not match(self.flt, f): return`; else dump + flush -/
def passes (env : Env F C) (flt : Option F) (f : FlowId) (c : C) : Bool :=
  match flt with
  | some g => env.mt g f c
  | none => true

def add (env : Env F C) (flt : Option F) (w : FlowId → C) (f : FlowId) : List (Act C) :=
  if passes env flt f (w f) then [.wr ⟨f, w f⟩] else []

/-- maybe_rotate_to_new_file (repaired order).  `none` = OSError. -/
def rotate (env : Env F C) (s : St F C) (spec : Spec) : Option (St F C × List (Act C)) :=
  let p := env.fmt spec.pat s.now
  if s.curPath = some p then some (s, [])
  else if env.openFails p then none
  else some ({ s with stream := some s.filt, curPath := some p }, [.opn p spec.append])

/-- save_flow -/
def saveFlow (env : Env F C) (s : St F C) (f : FlowId) : St F C × List (Act C) :=
  match s.stream with
  | none => (s, [])
  | some _ =>
    match s.optFile with
    | none => (s, [])               -- unreachable (see `Inv`): a stream is only open while the option is set
    | some spec =>
      match rotate env s spec with
      | none => ({ s with exited := true }, [])          -- except OSError: sys.exit(1)
      | some (s', io) =>
        match s'.stream with
        | some flt => ({ s' with active := s'.active.erase f }, io ++ add env flt s'.world f)
        | none => (s', io)          -- unreachable

/-- done -/
def doneOp (env : Env F C) (s : St F C) : St F C × List (Act C) :=
  match s.stream with
  | none => (s, [])
  | some flt =>
    ({ s with active := [], curPath := none, stream := none },
     s.active.flatMap (add env flt s.world) ++ [.cls])

inductive Res where
  | ok | optionsError | otherError
  deriving DecidableEq, Repr

/-- configure(updated) -/
def configure (env : Env F C) (s : St F C) (updFile updFilt : Bool) : St F C × List (Act C) × Res :=
  let r1 : Option (St F C) :=
    if updFilt then
      match s.optFilt with
      | .unset => some { s with filt := none }
      | .ok g => some { s with filt := some g }
      | .bad => none                                        -- flowfilter.parse raises ValueError
    else some s
  match r1 with
  | none => (s, [], .optionsError)
  | some s1 =>
    if updFile || updFilt then
      match s1.optFile with
      | some spec =>
        match rotate env s1 spec with
        | none => (s1, [], .optionsError)                   -- OSError → OptionsError
        | some (s2, io) =>
          match s2.stream with
          | some _ => ({ s2 with stream := some s2.filt }, io, .ok)     -- self.stream.flt = self.filt
          | none => (s2, io, .otherError)                   -- assert self.stream
      | none => let (s2, io) := doneOp env s1; (s2, io, .ok)
    else (s1, [], .ok)

/-- options.update(**kwargs) as seen by the addon: set the options, configure; on OptionsError restore the
    options and configure again (OptManager.rollback).  Returns whether OptionsError reaches the caller. -/
def update (env : Env F C) (s : St F C) (file : Option (Option Spec)) (filt : Option (FiltOpt F)) :
    St F C × List (Act C) × Bool :=
  let updFile := file.isSome
  let updFilt := filt.isSome
  if !(updFile || updFilt) then (s, [], false) else
  let s0 := { s with optFile := file.getD s.optFile, optFilt := filt.getD s.optFilt }
  match configure env s0 updFile updFilt with
  | (s1, io1, .ok) => (s1, io1, false)
  | (s1, io1, .otherError) => (s1, io1, false)              -- logged by addonmanager.safecall
  | (s1, io1, .optionsError) =>
    let s2 := { s1 with optFile := s.optFile, optFilt := s.optFilt }
    match configure env s2 updFile updFilt with
    | (s3, io3, _) => (s3, io1 ++ io3, true)

def Hook.isStart : Hook → Bool
  | .request | .tcpStart | .udpStart | .dnsRequest => true
  | _ => false

/-- hooks that call save_flow unless the flow is a WebSocket flow (response, error) -/
def Hook.isHttpEnd : Hook → Bool
  | .response | .error => true
  | _ => false

def hookOp (env : Env F C) (s : St F C) (h : Hook) (f : FlowId) : St F C × List (Act C) :=
  if h.isStart then
    (if s.stream.isSome then { s with active := if s.active.contains f then s.active else f :: s.active } else s, [])
  else if h.isHttpEnd then
    (if env.isWs (s.world f) then (s, []) else saveFlow env s f)
  else saveFlow env s f

def step (env : Env F C) (s : St F C) (e : Ev F C) : St F C × List (Act C) :=
  if s.exited then (s, []) else
  match e with
  | .hook h f => hookOp env s h f
  | .edit f c => ({ s with world := fun g => if g = f then c else s.world g }, [])
  | .tick t => ({ s with now := t }, [])
  | .update file filt => let r := update env s file filt; (r.1, r.2.1)
  | .done => doneOp env s

/-- run a history; returns the final state and all IO actions in order -/
def run (env : Env F C) : St F C → List (Ev F C) → St F C × List (Act C)
  | s, [] => (s, [])
  | s, e :: es =>
    let r := step env s e
    let r' := run env r.1 es
    (r'.1, r.2 ++ r'.2)

/-- the records written by a list of IO actions -/
def writes : List (Act C) → List (Rec C)
  | [] => []
  | .wr r :: l => r :: writes l
  | _ :: l => writes l

/-- file system: content of every path, the open stream file, and how often each path was truncated by an
    overwrite-mode open (so that "truncated and rewritten with the same content" remains observable) -/
structure FS (C : Type) where
  files : Path → List (Rec C)
  cur : Option Path
  trunc : Path → Nat

def fsStep (fs : FS C) : Act C → FS C
  | .opn p a => { files := fun q => if q = p then (if a then fs.files p else []) else fs.files q, cur := some p,
                  trunc := fun q => if q = p then (if a then fs.trunc p else fs.trunc p + 1) else fs.trunc q }
  | .wr r =>
    match fs.cur with
    | some p => { fs with files := fun q => if q = p then fs.files p ++ [r] else fs.files q }
    | none => fs
  | .cls => { fs with cur := none }

def fsRun (fs : FS C) (io : List (Act C)) : FS C := io.foldl fsStep fs

end MitmVerif.C39
