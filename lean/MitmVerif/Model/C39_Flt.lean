/-
  C39, filter and file-spec layer — the parts of the environment of Model/C39.lean that are mitmproxy's own code,
  transcribed:

  * `Flt` / `Flt.eval`: flowfilter.match for the filter atoms the check uses, on a content code
      c % 4          flow class (0 HTTPFlow, 1 TCPFlow, 2 UDPFlow, 3 DNSFlow)
      bit 4 / 8 / 16 / 32 / 64 / 128 / 256:  response present / error present / websocket present / marked /
                     is_replay not None / request method POST / response status 404 (else 200)
    ~all FAll, ~http FHTTP, ~tcp FTCP, ~udp FUDP, ~dns FDNS (the `@only(cls)` decorator: False for every other class),
    ~websocket FWebSocket (`@only(HTTPFlow)`, `f.websocket is not None`), ~s FResp (`bool(f.response)`, HTTP/DNS only),
    ~e FErr (`bool(f.error)`), ~marked FMarked, ~q FReq (`@only(HTTPFlow, DNSFlow)`, `not f.response`),
    ~replay FReplay, `~m POST` FMethod (`@only(HTTPFlow)`), `~c N` FCode (`@only(HTTPFlow)`, response and status == N),
    `!` FNot, `&` FAnd (all), `|` FOr (any).
  * `specMode` / `specPath`: save._mode / save._path — the "+" prefix of save_stream_file selects append mode and is
    stripped once (os.path.expanduser is the identity on the strings used: none starts with "~").
-/
import MitmVerif.Basic.Bytes
import MitmVerif.Model.C39
namespace MitmVerif.C39

inductive Flt where
  | all | http | tcp | udp | dns | ws | resp | err | marked
  | noresp | replay | post | c200 | c404
  | not (a : Flt) | and (a b : Flt) | or (a b : Flt)

def bit (c k : Nat) : Bool := (c / k) % 2 == 1

def Flt.eval : Flt → Nat → Bool
  | .all, _ => true
  | .http, c => c % 4 == 0
  | .tcp, c => c % 4 == 1
  | .udp, c => c % 4 == 2
  | .dns, c => c % 4 == 3
  | .ws, c => bit c 16
  | .resp, c => bit c 4
  | .err, c => bit c 8
  | .marked, c => bit c 32
  | .noresp, c => (c % 4 == 0 || c % 4 == 3) && !(bit c 4)            -- ~q: HTTP/DNS flow without response
  | .replay, c => bit c 64                                            -- ~replay
  | .post, c => c % 4 == 0 && bit c 128                               -- ~m POST (HTTP only)
  | .c200, c => c % 4 == 0 && bit c 4 && !(bit c 256)                 -- ~c 200
  | .c404, c => c % 4 == 0 && bit c 4 && bit c 256                    -- ~c 404
  | .not a, c => !(Flt.eval a c)
  | .and a b, c => Flt.eval a c && Flt.eval b c
  | .or a b, c => Flt.eval a c || Flt.eval b c

/-- the environment with the transcribed matcher; strftime and the set of unopenable paths stay parameters -/
def fltEnv (fmt : Nat → Nat → Path) (openFails : Path → Bool) : Env Flt Nat :=
  { mt := fun g _ c => g.eval c, isWs := fun c => bit c 16, fmt := fmt, openFails := openFails }

def driverFmt : Nat → Nat → Path :=
  fun pat now => if pat = 2 then 10 + now % 4 else if pat = 4 then 200 + now % 16
                          else if pat = 5 then 300 + (now / 4) % 4 else pat
def driverOpenFails : Path → Bool := fun p => p = 3 || p = 12 || p = 301

/-- save._mode(spec) == "ab" -/
def specMode (s : Bytes) : Bool := s.head? = some 0x2b
/-- save._path(spec) (before expanduser) -/
def specPath (s : Bytes) : Bytes := if s.head? = some 0x2b then s.tail else s

end MitmVerif.C39


