/-
  C40 — backup, revert, modified and copy of flows (mitmproxy/flow.py, http.py, coretypes/serializable.py).

  Flows are *objects*: a flow holds references to component objects (request, response, message
  list, metadata dict, connections, error, the immutable marked/comment/… values).  The model keeps a
  heap of component cells so that "editing one flow never changes another" is a statement about
  aliasing and not a triviality of value semantics.

    heap  : Addr → V            component objects, V = the (deep, immutable) state value of a component
    next  : Addr                allocation pointer (everything ≥ next is unallocated)
    flows : List FlowObj        flow handle = index

  `get_state()` of a flow  = (id, parts.map heap, backup)    (deep copy: a pure value)
  `_backup`                = the get_state() taken by backup(): (id, content); its own "backup"
                             sub-field is always None there and is therefore not represented.
  Edits are arbitrary: `mutate a j v` is an in-place edit of component j of flow a whose result is the
  component value v (f.request.path = …, f.messages.append(…), f.metadata[k] = …), `rebind a j v`
  assigns a new object (f.response = None, f.marked = "x", f.metadata = {...}).
  `modified` is Flow.modified() after the repair of F-C40a (state compared without the embedded backup).
-/
namespace MitmVerif.C40

abbrev Addr := Nat

structure FlowObj (V : Type) where
  id : Nat
  live : Bool
  parts : List Addr
  backup : Option (Nat × List V)

structure Store (V : Type) where
  heap : Addr → V
  next : Addr
  flows : List (FlowObj V)

variable {V : Type}

def upd (h : Addr → V) (a : Addr) (v : V) : Addr → V := fun x => if x = a then v else h x

/-- the content part of get_state(): every component serialised (a deep copy, i.e. a value) -/
def content (σ : Store V) (f : FlowObj V) : List V := f.parts.map σ.heap

/-- Flow.get_state(): id, content, embedded backup -/
def getState (σ : Store V) (f : FlowObj V) : Nat × List V × Option (Nat × List V) :=
  (f.id, content σ f, f.backup)

/-- Flow.modified() (repaired): a backup exists and differs from the current state (backup key excluded) -/
def modified [DecidableEq V] (σ : Store V) (f : FlowObj V) : Bool :=
  match f.backup with
  | some b => decide (b ≠ (f.id, content σ f))
  | none => false

/-- in-place edit of component j of flow a; the component's new state is v -/
def mutate (σ : Store V) (a j : Nat) (v : V) : Store V :=
  match σ.flows[a]? with
  | none => σ
  | some f =>
    match f.parts[j]? with
    | none => σ
    | some ad => { σ with heap := upd σ.heap ad v }

/-- assignment of a new component object with state v to component j of flow a -/
def rebind (σ : Store V) (a j : Nat) (v : V) : Store V :=
  match σ.flows[a]? with
  | none => σ
  | some f =>
    match f.parts[j]? with
    | none => σ
    | some _ =>
      { heap := upd σ.heap σ.next v, next := σ.next + 1,
        flows := σ.flows.set a { f with parts := f.parts.set j σ.next } }

/-- Flow.backup(): `if not self._backup: self._backup = self.get_state()` -/
def backupOp (σ : Store V) (a : Nat) : Store V :=
  match σ.flows[a]? with
  | none => σ
  | some f =>
    match f.backup with
    | some _ => σ
    | none => { σ with flows := σ.flows.set a { f with backup := some (f.id, content σ f) } }

/-- set_state(): the saved component states are written back one after the other; component j is
    restored in place (client_conn.set_state, error.set_state) when `ip j`, otherwise a new object
    is built from the state and assigned (Request.from_state, list/dict/str assignment). -/
def restore (ip : Nat → Bool) (σ : Store V) (a : Nat) : Nat → List V → Store V
  | _, [] => σ
  | j, v :: vs => restore ip (if ip j then mutate σ a j v else rebind σ a j v) a (j + 1) vs

def setMeta (σ : Store V) (a : Nat) (id : Nat) (b : Option (Nat × List V)) : Store V :=
  match σ.flows[a]? with
  | none => σ
  | some f => { σ with flows := σ.flows.set a { f with id := id, backup := b } }

/-- Flow.revert(): `if self._backup: self.set_state(self._backup); self._backup = None` -/
def revert (ip : Nat → Bool) (σ : Store V) (a : Nat) : Store V :=
  match σ.flows[a]? with
  | none => σ
  | some f =>
    match f.backup with
    | none => σ
    | some (i, vs) => setMeta (restore ip σ a 0 vs) a i none

/-- heap after allocating fresh cells next, next+1, … holding vs -/
def allocHeap (h : Addr → V) (next : Addr) (vs : List V) : Addr → V :=
  fun x => if next ≤ x then (vs[x - next]?).getD (h x) else h x

/-- Flow.copy(): state = get_state(); state["id"] = fresh uuid; from_state(state) builds new
    component objects; live = False.  The new flow gets the next handle. -/
def copy (σ : Store V) (a : Nat) (fresh : Nat) : Store V :=
  match σ.flows[a]? with
  | none => σ
  | some f =>
    let vs := content σ f
    { heap := allocHeap σ.heap σ.next vs, next := σ.next + vs.length,
      flows := σ.flows ++ [{ id := fresh, live := false,
                             parts := List.range' σ.next vs.length, backup := f.backup }] }

/-- a new flow object from a state (tflow / from_state), used by the driver for the first flow -/
def newFlow (σ : Store V) (id : Nat) (live : Bool) (vs : List V) : Store V :=
  { heap := allocHeap σ.heap σ.next vs, next := σ.next + vs.length,
    flows := σ.flows ++ [{ id := id, live := live,
                           parts := List.range' σ.next vs.length, backup := none }] }

inductive Op (V : Type) where
  | mutate (a j : Nat) (v : V)
  | rebind (a j : Nat) (v : V)
  | backup (a : Nat)
  | revert (a : Nat)
  | copy (a : Nat) (fresh : Nat)

def Op.target : Op V → Nat
  | .mutate a _ _ => a | .rebind a _ _ => a | .backup a => a | .revert a => a | .copy a _ => a

def step (ip : Nat → Bool) (σ : Store V) : Op V → Store V
  | .mutate a j v => mutate σ a j v
  | .rebind a j v => rebind σ a j v
  | .backup a => backupOp σ a
  | .revert a => revert ip σ a
  | .copy a n => copy σ a n

def run (ip : Nat → Bool) (σ : Store V) (ops : List (Op V)) : Store V := ops.foldl (step ip) σ

def empty (d : V) : Store V := { heap := fun _ => d, next := 0, flows := [] }

end MitmVerif.C40
