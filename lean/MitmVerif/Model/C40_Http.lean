/-
  C40, typed layer — the state of an HTTPFlow as nested records, and edits as CODE.

  Round 2 modelled component states as opaque values and took the result of every edit from the real flow.
  Here the twelve components of HTTPFlow.get_state() are typed (`Comp`): connection field lists, Error, Request and
  Response (with Headers as a case-insensitive multi-dict and trailers), WebSocketData with its message list,
  metadata dict, and the scalar attributes.  `Edit.apply` transcribes what the Python edit does to the component:
  attribute assignment, `Headers.__setitem__` (MultiDict.set_all), `del headers[k]`, `Headers.add`,
  `Message.content = …` (set_content: raw content + content-length unless transfer-encoding is present),
  list append/pop/item edits of WebSocket messages, dict set/del of metadata, `Error.msg = …`, intercept()/resume().
  A typed operation is compiled to an operation of the heap model (Model/C40.lean) on the component cell, so the
  component state after an edit is PREDICTED, and every theorem of the heap model applies to typed histories.
  Leaf values the model never computes on (timestamps, host, path, …) are atoms `A` (numbers interned by the
  harness); header names/values and bodies are byte strings.
-/
import MitmVerif.Basic.Bytes
import MitmVerif.Model.C40
namespace MitmVerif.C40

abbrev A := Nat
abbrev Fields := List (Bytes × Bytes)

structure Err where
  msg : A
  ts : A
  deriving DecidableEq

/-- http.Message data shared by Request and Response; `atoms` are the remaining scalar attributes in
    get_state() order (Request: host, port, method, scheme, authority, path, http_version, timestamp_start,
    timestamp_end; Response: http_version, status_code, reason, timestamp_start, timestamp_end) -/
structure Msg where
  atoms : List A
  headers : Fields
  content : Option Bytes
  trailers : Option Fields
  deriving DecidableEq

structure WsMsg where
  typ : A
  fromClient : Bool
  content : Bytes
  ts : A
  dropped : Bool
  injected : Bool
  deriving DecidableEq

structure Ws where
  messages : List WsMsg
  atoms : List A          -- closed_by_client, close_code, close_reason, timestamp_end
  deriving DecidableEq

/-- a TCPMessage / UDPMessage state: (from_client, content, timestamp) -/
structure TMsg where
  fromClient : Bool
  content : Bytes
  ts : A
  deriving DecidableEq

/-- a DNSMessage state: scalar fields (id, query, op_code, …, answers/authorities/additionals as interned wholes,
    timestamp) in get_state() order, and the question list, each question = [name, type, class] -/
structure DnsMsg where
  atoms : List A
  questions : List (List A)
  deriving DecidableEq

/-- the state of one component of get_state() of an HTTPFlow / TCPFlow / UDPFlow / DNSFlow -/
inductive Comp where
  | conn (fields : List A)             -- client_conn / server_conn: field values in get_state() order
  | err (e : Option Err)
  | flag (b : Bool)                    -- intercepted
  | atom (a : A)                       -- is_replay, marked, comment, timestamp_created
  | mdata (m : List (A × A))           -- metadata dict (insertion ordered)
  | req (r : Msg)
  | resp (r : Option Msg)
  | ws (w : Option Ws)
  | tmsgs (l : List TMsg)              -- TCPFlow / UDPFlow messages
  | dns (m : Option DnsMsg)            -- DNSFlow request / response
  deriving DecidableEq

-- ------------------------------------------------------------------------------------------ Headers (MultiDict)
def lowerByte (b : UInt8) : UInt8 := if 0x41 ≤ b.toNat ∧ b.toNat ≤ 0x5a then b + 0x20 else b
def kconv (k : Bytes) : Bytes := k.map lowerByte

/-- MultiDict.set_all(key, [value]): the first field with that key keeps its spelling and gets the value, further
    ones are dropped; appended at the end if absent -/
def setAllAux (key : Bytes) (value : Bytes) : Fields → Bool → Fields
  | [], used => if used then [] else [(key, value)]
  | (k, v) :: rest, used =>
    if kconv k = kconv key then
      if used then setAllAux key value rest true else (k, value) :: setAllAux key value rest true
    else (k, v) :: setAllAux key value rest used

def hdrSet (h : Fields) (key value : Bytes) : Fields := setAllAux key value h false
/-- `del headers[key]` / `headers.pop(key, None)` -/
def hdrDel (h : Fields) (key : Bytes) : Fields := h.filter fun kv => kconv kv.1 ≠ kconv key
def hdrAdd (h : Fields) (key value : Bytes) : Fields := h ++ [(key, value)]
def hdrHas (h : Fields) (key : Bytes) : Bool := h.any fun kv => kconv kv.1 = kconv key

def natDigits : Nat → Nat → List UInt8
  | 0, _ => []
  | fuel + 1, n => if n < 10 then [UInt8.ofNat (48 + n)] else natDigits fuel (n / 10) ++ [UInt8.ofNat (48 + n % 10)]
/-- str(n).encode() -/
def decimal (n : Nat) : Bytes := natDigits (n + 1) n

def contentLength : Bytes := [0x63,0x6f,0x6e,0x74,0x65,0x6e,0x74,0x2d,0x6c,0x65,0x6e,0x67,0x74,0x68]
def transferEncoding : Bytes :=
  [0x74,0x72,0x61,0x6e,0x73,0x66,0x65,0x72,0x2d,0x65,0x6e,0x63,0x6f,0x64,0x69,0x6e,0x67]

/-- Message.set_content for a message without content-encoding header -/
def setContent (m : Msg) (v : Option Bytes) : Msg :=
  match v with
  | none => { m with content := none }
  | some b =>
    if hdrHas m.headers transferEncoding then { m with content := some b }
    else { m with content := some b, headers := hdrSet m.headers contentLength (decimal b.length) }

/-- MultiDict.get_all -/
def hdrGetAll (h : Fields) (key : Bytes) : List Bytes :=
  h.filterMap fun kv => if kconv kv.1 = kconv key then some kv.2 else none

/-- `", ".join(values)` (Headers._reduce_values) -/
def joinComma : List Bytes → Bytes
  | [] => []
  | [v] => v
  | v :: rest => v ++ [0x2c, 0x20] ++ joinComma rest

/-- `headers.get(key)`: all values of the key folded with ", ", or None -/
def hdrGet (h : Fields) (key : Bytes) : Option Bytes :=
  match hdrGetAll h key with
  | [] => none
  | vs => some (joinComma vs)

def contentEncoding : Bytes :=
  [0x63,0x6f,0x6e,0x74,0x65,0x6e,0x74,0x2d,0x65,0x6e,0x63,0x6f,0x64,0x69,0x6e,0x67]

/-- outcome of `encoding.encode(value, ce or "identity")` for a bytes value: the encoded bytes or ValueError
    (the codec libraries themselves are C31's parameter; a TypeError escapes before anything is changed) -/
inductive EncRes where
  | ok (x : Bytes) | verr
  deriving DecidableEq

/-- Message.set_content in full (http.py), for a message with or without a Content-Encoding header:
      ce = headers.get("content-encoding")
      try: raw_content = encode(value, ce or "identity")
      except ValueError: del headers["content-encoding"]; raw_content = value
      if "transfer-encoding" not in headers: headers["content-length"] = str(len(raw_content)) -/
def setContentCE (m : Msg) (v : Option Bytes) (r : EncRes) : Msg :=
  match v with
  | none => { m with content := none }
  | some b =>
    let m1 : Msg := match r with
      | .ok x => { m with content := some x }
      | .verr => { m with content := some b, headers := hdrDel m.headers contentEncoding }
    if hdrHas m1.headers transferEncoding then m1
    else { m1 with headers := hdrSet m1.headers contentLength (decimal (m1.content.getD []).length) }

-- ------------------------------------------------------------------------------------------ edits
inductive MsgEdit where
  | atom (k : Nat) (a : A)                 -- request.path = …, response.status_code = …
  | hset (k v : Bytes) | hdel (k : Bytes) | hadd (k v : Bytes)
  | hrep (h : Fields)                      -- .headers = Headers(…) (a new, possibly EMPTY, header object)
  | content (v : Option Bytes)             -- .content = … (set_content) on a message without Content-Encoding
  | contentCE (v : Option Bytes) (r : EncRes)   -- .content = … in general; r = what encoding.encode answered
  | tset (t : Option Fields)               -- .trailers = …
  | thset (k v : Bytes)                    -- .trailers[k] = v (only if trailers exist)

def MsgEdit.apply : MsgEdit → Msg → Msg
  | .atom k a, m => { m with atoms := m.atoms.set k a }
  | .hset k v, m => { m with headers := hdrSet m.headers k v }
  | .hdel k, m => { m with headers := hdrDel m.headers k }
  | .hadd k v, m => { m with headers := hdrAdd m.headers k v }
  | .hrep h, m => { m with headers := h }
  | .content v, m => setContent m v
  | .contentCE v r, m => setContentCE m v r
  | .tset t, m => { m with trailers := t }
  | .thset k v, m => { m with trailers := m.trailers.map fun t => hdrSet t k v }

inductive WsEdit where
  | append (m : WsMsg) | pop | setContent (i : Nat) (c : Bytes) | drop (i : Nat) (b : Bool) | atom (k : Nat) (a : A)

def WsEdit.apply : WsEdit → Ws → Ws
  | .append m, w => { w with messages := w.messages ++ [m] }
  | .pop, w => { w with messages := w.messages.dropLast }
  | .setContent i c, w => { w with messages := w.messages.modify i fun m => { m with content := c } }
  | .drop i b, w => { w with messages := w.messages.modify i fun m => { m with dropped := b } }
  | .atom k a, w => { w with atoms := w.atoms.set k a }

inductive TMsgEdit where
  | append (m : TMsg) | pop | setContent (i : Nat) (c : Bytes) | setFc (i : Nat) (b : Bool)

def TMsgEdit.apply : TMsgEdit → List TMsg → List TMsg
  | .append m, l => l ++ [m]
  | .pop, l => l.dropLast
  | .setContent i c, l => l.modify i fun m => { m with content := c }
  | .setFc i b, l => l.modify i fun m => { m with fromClient := b }

inductive DnsEdit where
  | atom (k : Nat) (a : A)             -- f.request.id = …, f.response.response_code = …
  | qname (i : Nat) (a : A)            -- f.request.questions[i].name = …
  | qappend (q : List A)               -- f.request.questions.append(Question(…))   (in place on the list)
  | qclear                             -- f.request.questions = []  (empty but present)

def DnsEdit.apply : DnsEdit → DnsMsg → DnsMsg
  | .atom k a, m => { m with atoms := m.atoms.set k a }
  | .qname i a, m => { m with questions := m.questions.modify i fun q => q.set 0 a }
  | .qappend q, m => { m with questions := m.questions ++ [q] }
  | .qclear, m => { m with questions := [] }

def metaSet : List (A × A) → A → A → List (A × A)
  | [], k, v => [(k, v)]
  | (k', v') :: rest, k, v => if k' = k then (k', v) :: rest else (k', v') :: metaSet rest k v

/-- an edit of one component; `comp` is the component index in get_state() order as used by the harness
    (0 client_conn, 1 server_conn, 2 error, 3 intercepted, 4 is_replay, 5 marked, 6 metadata, 7 comment,
     8 timestamp_created, 9 request, 10 response, 11 websocket) -/
inductive Edit where
  | connField (j : Nat) (k : Nat) (a : A)        -- f.client_conn.sni = …      (in place)
  | errSet (e : Option Err)                       -- f.error = …                (assignment)
  | errMsg (a : A)                                -- f.error.msg = …            (in place, if an error exists)
  | flagSet (b : Bool)                            -- f.intercept() / f.resume()
  | atomSet (j : Nat) (a : A)                     -- f.marked = …, f.comment = …, f.is_replay = …, f.timestamp_created = …
  | metaSet (k v : A) | metaDel (k : A)           -- f.metadata[k] = v / pop       (in place)
  | metaReplace (m : List (A × A))                -- f.metadata = {...}            (assignment)
  | req (e : MsgEdit)                             -- edits of f.request           (in place)
  | reqReplace (r : Msg)                          -- f.request = …                (assignment)
  | resp (e : MsgEdit)                            -- edits of f.response, if any  (in place)
  | respReplace (r : Option Msg)                  -- f.response = …               (assignment)
  | ws (e : WsEdit)                               -- edits of f.websocket, if any (in place)
  | wsReplace (w : Option Ws)
  | msgs (e : TMsgEdit)                           -- edits of f.messages (TCP/UDP)  (in place)
  | msgsReplace (l : List TMsg)                   -- f.messages = […]
  | dreq (e : DnsEdit)                            -- edits of the DNS request       (in place)
  | dreqReplace (m : DnsMsg)
  | dresp (e : DnsEdit)                           -- edits of the DNS response, if any
  | drespReplace (m : Option DnsMsg)

def Edit.comp : Edit → Nat
  | .connField j _ _ => j | .errSet _ => 2 | .errMsg _ => 2 | .flagSet _ => 3 | .atomSet j _ => j
  | .metaSet _ _ => 6 | .metaDel _ => 6 | .metaReplace _ => 6
  | .req _ => 9 | .reqReplace _ => 9 | .resp _ => 10 | .respReplace _ => 10 | .ws _ => 11 | .wsReplace _ => 11
  | .msgs _ => 9 | .msgsReplace _ => 9 | .dreq _ => 9 | .dreqReplace _ => 9 | .dresp _ => 10 | .drespReplace _ => 10

/-- assignment of a new object (true) or mutation of the existing component object (false) -/
def Edit.rebinds : Edit → Bool
  | .errSet _ | .flagSet _ | .atomSet _ _ | .metaReplace _ | .reqReplace _ | .respReplace _ | .wsReplace _
  | .msgsReplace _ | .dreqReplace _ | .drespReplace _ => true
  | _ => false

def Edit.apply : Edit → Comp → Comp
  | .connField _ k a, .conn fs => .conn (fs.set k a)
  | .errSet e, .err _ => .err e
  | .errMsg a, .err (some e) => .err (some { e with msg := a })
  | .flagSet b, .flag _ => .flag b
  | .atomSet _ a, .atom _ => .atom a
  | .metaSet k v, .mdata m => .mdata (C40.metaSet m k v)
  | .metaDel k, .mdata m => .mdata (m.filter fun kv => kv.1 ≠ k)
  | .metaReplace m, .mdata _ => .mdata m
  | .req e, .req r => .req (e.apply r)
  | .reqReplace r, .req _ => .req r
  | .resp e, .resp (some r) => .resp (some (e.apply r))
  | .respReplace r, .resp _ => .resp r
  | .ws e, .ws (some w) => .ws (some (e.apply w))
  | .wsReplace w, .ws _ => .ws w
  | .msgs e, .tmsgs l => .tmsgs (e.apply l)
  | .msgsReplace l, .tmsgs _ => .tmsgs l
  | .dreq e, .dns (some m) => .dns (some (e.apply m))
  | .dreqReplace m, .dns _ => .dns (some m)
  | .dresp e, .dns (some m) => .dns (some (e.apply m))
  | .drespReplace m, .dns _ => .dns m
  | _, c => c

-- ------------------------------------------------------------------------------------------ typed histories
inductive TOp where
  | edit (a : Nat) (e : Edit)
  | backup (a : Nat)
  | revert (a : Nat)
  | copy (a : Nat) (fresh : Nat)

def TOp.target : TOp → Nat
  | .edit a _ => a | .backup a => a | .revert a => a | .copy a _ => a

/-- the heap operation a typed operation amounts to in store σ: the edit is evaluated on the current state of
    the component cell -/
def compile (σ : Store Comp) : TOp → Op Comp
  | .edit a e =>
    match σ.flows[a]? with
    | none => .mutate a e.comp (.flag false)          -- no such flow: a no-op
    | some f =>
      match f.parts[e.comp]? with
      | none => .mutate a e.comp (.flag false)      -- no such component: a no-op
      | some ad => if e.rebinds then .rebind a e.comp (e.apply (σ.heap ad)) else .mutate a e.comp (e.apply (σ.heap ad))
  | .backup a => .backup a
  | .revert a => .revert a
  | .copy a n => .copy a n

def stepT (ip : Nat → Bool) (σ : Store Comp) (t : TOp) : Store Comp := step ip σ (compile σ t)

def runT (ip : Nat → Bool) (σ : Store Comp) (ts : List TOp) : Store Comp := ts.foldl (stepT ip) σ

/-- the heap operations performed by a typed history (each compiled in the store it runs in) -/
def compileAll (ip : Nat → Bool) : Store Comp → List TOp → List (Op Comp)
  | _, [] => []
  | σ, t :: ts => compile σ t :: compileAll ip (stepT ip σ t) ts

end MitmVerif.C40
