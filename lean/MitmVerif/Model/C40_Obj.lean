/-
  C40, object layer — http.Message as an OBJECT GRAPH: a message object refers to a Headers object and, optionally,
  to a second Headers object for the trailers; the Headers objects live in a heap of cells.  This is the level at
  which "a backup / a copy shares nothing with the flow" can fail (e.g. a state that contains the live trailers
  object), so here get_state / from_state / copy are CODE and freshness of what from_state builds is derived:

    MessageData.get_state : vars(self).copy(); headers → headers.get_state(); trailers → get_state() if not None
    Message.from_state     : a new object with NEW Headers objects built from the state (Headers.from_state)
    Serializable.copy      : from_state(get_state())
    in-place edits         : headers[k] = v, del headers[k], headers.add, .content = …, trailers[k] = v mutate the
                             existing Headers objects; `.headers = Headers(…)`, `.trailers = …` bind new objects.
-/
import MitmVerif.Model.C40_Http
namespace MitmVerif.C40

structure OHeap where
  cells : Addr → Fields          -- Headers objects (their `fields`)
  next : Addr

structure MsgObj where
  atoms : List A
  headers : Addr
  content : Option Bytes
  trailers : Option Addr

def updF (h : Addr → Fields) (a : Addr) (v : Fields) : Addr → Fields := fun x => if x = a then v else h x

/-- MessageData.get_state(): a pure value, every Headers object serialised -/
def MsgObj.getState (h : OHeap) (o : MsgObj) : Msg :=
  { atoms := o.atoms, headers := h.cells o.headers, content := o.content, trailers := o.trailers.map h.cells }

/-- Message.from_state(state): new Headers objects for headers and (if present) trailers -/
def MsgObj.fromState (h : OHeap) (s : Msg) : OHeap × MsgObj :=
  match s.trailers with
  | none =>
    ({ cells := updF h.cells h.next s.headers, next := h.next + 1 },
     { atoms := s.atoms, headers := h.next, content := s.content, trailers := none })
  | some t =>
    ({ cells := updF (updF h.cells h.next s.headers) (h.next + 1) t, next := h.next + 2 },
     { atoms := s.atoms, headers := h.next, content := s.content, trailers := some (h.next + 1) })

/-- Serializable.copy() -/
def MsgObj.copy (h : OHeap) (o : MsgObj) : OHeap × MsgObj := MsgObj.fromState h (o.getState h)

/-- write a new value into the EXISTING objects of o (what in-place edits do) -/
def writeBack (h : OHeap) (o : MsgObj) (m : Msg) : OHeap × MsgObj :=
  let c1 := updF h.cells o.headers m.headers
  let c2 := match o.trailers, m.trailers with
    | some ad, some t => updF c1 ad t
    | _, _ => c1
  ({ h with cells := c2 }, { o with atoms := m.atoms, content := m.content })

/-- an edit of a message object -/
def applyObj (e : MsgEdit) (h : OHeap) (o : MsgObj) : OHeap × MsgObj :=
  match e with
  | .hrep f =>            -- .headers = Headers(f): a new object
    ({ cells := updF h.cells h.next f, next := h.next + 1 }, { o with headers := h.next })
  | .tset none => (h, { o with trailers := none })
  | .tset (some t) =>     -- .trailers = Headers(t): a new object
    ({ cells := updF h.cells h.next t, next := h.next + 1 }, { o with trailers := some h.next })
  | e => writeBack h o (e.apply (o.getState h))          -- in place

def applyObjs (es : List MsgEdit) (h : OHeap) (o : MsgObj) : OHeap × MsgObj :=
  es.foldl (fun p e => applyObj e p.1 p.2) (h, o)

def MsgObj.refs (o : MsgObj) : List Addr := o.headers :: o.trailers.toList

end MitmVerif.C40
