/-
  C40, generic object layer — every component class of a flow as an OBJECT GRAPH: an object has an immutable part
  and an ordered list of references to sub-objects living in a heap (WebSocketData → its WebSocketMessage objects,
  TCPFlow/UDPFlow.messages → the message objects, DNSMessage → its Question objects, the metadata dict → its value
  objects, a connection → its list-valued fields, Error → no sub-objects).

    get_state()   = (immutable part, [sub.get_state() for sub in subs])      a pure value
    from_state(s) = a new object whose sub-objects are all NEW objects built from s
    copy()        = from_state(get_state())
    edits         = change of the immutable part; in-place mutation of sub-object j; assignment of a new object to
                    slot j; append of a new object; pop; replacement of the whole list by new objects

  `GEdit.applyV` is the same edit on the state VALUE (what the typed model of Model/C40_Http.lean computes); the
  theorems in Props/C40.lean show that the object graph simulates it and that from_state/copy share nothing.
-/
import MitmVerif.Model.C40_Http
namespace MitmVerif.C40

structure GHeap (SV : Type) where
  cells : Addr → SV
  next : Addr

structure GObj (I : Type) where
  imm : I
  subs : List Addr

variable {I SV : Type}

def GObj.getState (h : GHeap SV) (o : GObj I) : I × List SV := (o.imm, o.subs.map h.cells)

def GObj.fromState (h : GHeap SV) (s : I × List SV) : GHeap SV × GObj I :=
  ({ cells := allocHeap h.cells h.next s.2, next := h.next + s.2.length },
   { imm := s.1, subs := List.range' h.next s.2.length })

def GObj.copy (h : GHeap SV) (o : GObj I) : GHeap SV × GObj I := GObj.fromState h (o.getState h)

inductive GEdit (I SV : Type) where
  | imm (g : I → I)
  | inPlace (j : Nat) (g : SV → SV)
  | rebind (j : Nat) (v : SV)
  | append (v : SV)
  | pop
  | replace (vs : List SV)

def applyG (e : GEdit I SV) (h : GHeap SV) (o : GObj I) : GHeap SV × GObj I :=
  match e with
  | .imm g => (h, { o with imm := g o.imm })
  | .inPlace j g =>
    match o.subs[j]? with
    | some ad => ({ h with cells := upd h.cells ad (g (h.cells ad)) }, o)
    | none => (h, o)
  | .rebind j v =>
    match o.subs[j]? with
    | some _ => ({ cells := upd h.cells h.next v, next := h.next + 1 }, { o with subs := o.subs.set j h.next })
    | none => (h, o)
  | .append v => ({ cells := upd h.cells h.next v, next := h.next + 1 }, { o with subs := o.subs ++ [h.next] })
  | .pop => (h, { o with subs := o.subs.dropLast })
  | .replace vs => GObj.fromState h (o.imm, vs)

def applyGs (es : List (GEdit I SV)) (h : GHeap SV) (o : GObj I) : GHeap SV × GObj I :=
  es.foldl (fun p e => applyG e p.1 p.2) (h, o)

/-- the edit on the state value -/
def GEdit.applyV : GEdit I SV → I × List SV → I × List SV
  | .imm g, (i, l) => (g i, l)
  | .inPlace j g, (i, l) => (i, match l[j]? with | some x => l.set j (g x) | none => l)
  | .rebind j v, (i, l) => (i, l.set j v)
  | .append v, (i, l) => (i, l ++ [v])
  | .pop, (i, l) => (i, l.dropLast)
  | .replace vs, (i, _) => (i, vs)

-- ------------------------------------------------------------------------------------------ the component classes
/-- WebSocketData: immutable part = its scalar attributes, sub-objects = the WebSocketMessage objects -/
def wsOfState (s : List A × List WsMsg) : Ws := { messages := s.2, atoms := s.1 }
def WsEdit.toG : WsEdit → GEdit (List A) WsMsg
  | .append m => .append m
  | .pop => .pop
  | .setContent i c => .inPlace i fun m => { m with content := c }
  | .drop i b => .inPlace i fun m => { m with dropped := b }
  | .atom k a => .imm fun l => l.set k a

/-- TCPFlow / UDPFlow messages: a list object of message objects -/
def TMsgEdit.toG : TMsgEdit → GEdit Unit TMsg
  | .append m => .append m
  | .pop => .pop
  | .setContent i c => .inPlace i fun m => { m with content := c }
  | .setFc i b => .inPlace i fun m => { m with fromClient := b }

/-- DNSMessage: scalar fields + Question objects -/
def dnsOfState (s : List A × List (List A)) : DnsMsg := { atoms := s.1, questions := s.2 }
def DnsEdit.toG : DnsEdit → GEdit (List A) (List A)
  | .atom k a => .imm fun l => l.set k a
  | .qname i a => .inPlace i fun q => q.set 0 a
  | .qappend q => .append q
  | .qclear => .replace []

end MitmVerif.C40
