/-
  C41 — HAR export followed by HAR import.

  Model of the field mapping in `mitmproxy/addons/savehar.py` (`SaveHar.flow_entry`, `make_har`,
  `format_multidict`) and `mitmproxy/io/har.py` (`fix_headers`, `request_to_flow`), together with the
  `mitmproxy.http.Message` methods they call (`get_content`, `get_text`, `set_content`, `set_text`,
  `decode`, `Headers.get / __setitem__ / __delitem__ / __contains__`, `Request.make`'s Host update).

  A Python `str` is represented by its UTF-8 (surrogatepass) bytes (`Text`); the model only compares
  texts with ASCII literals, concatenates them and hands them to the library.  Every library function
  (text codecs, base64, content codings, charset inference, URL parsing/printing, JSON) is a field of
  `Lib` / `Json`; the laws the theorems need are stated in `Props/C41.lean`.
-/
import MitmVerif.Basic.Bytes
namespace MitmVerif.C41

abbrev Text := Bytes
abbrev Hdrs := List (Bytes × Bytes)

structure Lib where
  /-- `b.decode("utf-8", "surrogateescape")` -/
  sdec : Bytes → Text
  /-- `s.encode("utf-8", "surrogateescape")`; `none` = UnicodeEncodeError -/
  senc : Text → Option Bytes
  /-- `str.upper()` -/
  upper : Text → Text
  b64enc : Bytes → Text
  /-- `base64.b64decode`; `none` = binascii.Error -/
  b64dec : Text → Option Bytes
  /-- `strutils.is_mostly_bin` -/
  mostlyBin : Bytes → Bool
  /-- `encoding.decode(raw, content_encoding)` when it yields bytes; `none` = ValueError or a str result -/
  ceDec : Text → Bytes → Option Bytes
  /-- `encoding.encode(content, content_encoding)`; `none` = ValueError -/
  ceEnc : Text → Bytes → Option Bytes
  /-- `infer_content_encoding(content_type, content)` -/
  infer : Text → Bytes → Text
  /-- `encoding.decode(content, charset)`; `none` = ValueError -/
  csDec : Text → Bytes → Option Text
  /-- `encoding.encode(text, charset)`; `none` = ValueError -/
  csEnc : Text → Text → Option Bytes
  /-- header value written by `set_text`'s fall-back: the content type with `charset=utf-8` -/
  ctUtf8 : Text → Bytes
  /-- `url.parse(u)` then `url.hostport(scheme, host, port)`; `none` = ValueError -/
  urlHostport : Text → Option Text
  /-- `pretty_url` of the request whose scheme/host/port/path were parsed from `u` and whose Host header reads `h` -/
  urlPretty : Text → Option Text → Text

structure Msg where
  ver : Bytes
  hdrs : Hdrs
  body : Bytes
deriving DecidableEq, Repr

/-- the part of an `HTTPFlow` the property talks about (request and response both present, bodies present) -/
structure Flow where
  method : Bytes
  /-- `request.pretty_url` -/
  purl : Text
  req : Msg
  status : Nat
  resp : Msg
deriving DecidableEq, Repr

structure HarReq where
  method : Text
  url : Text
  httpVersion : Text
  headers : List (Text × Text)
  postData : Option Text
deriving DecidableEq, Repr

structure HarResp where
  status : Nat
  httpVersion : Text
  headers : List (Text × Text)
  text : Text
  encoding : Option Text
deriving DecidableEq, Repr

structure Entry where
  request : HarReq
  response : HarResp
deriving DecidableEq, Repr

/-- `json.dumps` / `json.loads` on the HAR document -/
structure Json (J : Type) where
  dump : List Entry → J
  load : J → Option (List Entry)

/-! ### literals -/
/-- an ASCII literal -/
def L (s : String) : Bytes := s.toList.map (fun c => UInt8.ofNat c.toNat)
def kCE : Bytes := L "content-encoding"
def kCT : Bytes := L "content-type"
def kCL : Bytes := L "content-length"
def kTE : Bytes := L "transfer-encoding"
def kHost : Bytes := L "host"
def v11 : Bytes := L "HTTP/1.1"
def v2 : Bytes := L "HTTP/2"
def v20 : Bytes := L "HTTP/2.0"
def v3 : Bytes := L "HTTP/3"

/-! ### Headers (multidict with case-insensitive names) -/
def nameIs (k : Bytes) (f : Bytes × Bytes) : Bool := asciiLower f.1 == k

/-- raw values of the fields named `k` (`k` lower-case) -/
def fieldsOf (h : Hdrs) (k : Bytes) : List Bytes := (h.filter (nameIs k)).map (·.2)

/-- `name in headers` -/
def hcontains (h : Hdrs) (k : Bytes) : Bool := !(fieldsOf h k).isEmpty

def joinCS : List Text → Text
  | [] => []
  | [x] => x
  | x :: y :: r => x ++ [0x2c, 0x20] ++ joinCS (y :: r)

/-- `headers.get(name)`: values decoded and folded with ", " -/
def hget (lib : Lib) (h : Hdrs) (k : Bytes) : Option Text :=
  match fieldsOf h k with
  | [] => none
  | vs => some (joinCS (vs.map lib.sdec))

/-- `MultiDict.set_all(key, [v])` on an existing key: first field replaced (spelling kept), later ones dropped -/
def hsetGo (k v : Bytes) : Hdrs → Bool → Hdrs
  | [], _ => []
  | f :: rest, done =>
    if nameIs k f then (if done then hsetGo k v rest true else (f.1, v) :: hsetGo k v rest true)
    else f :: hsetGo k v rest done

/-- `headers[name] = v` -/
def hset (h : Hdrs) (name v : Bytes) : Hdrs :=
  if hcontains h (asciiLower name) then hsetGo (asciiLower name) v h false else h ++ [(name, v)]

/-- `del headers[name]` / `headers.pop(name, None)` -/
def hdel (h : Hdrs) (k : Bytes) : Hdrs := h.filter (fun f => !nameIs k f)

/-- `str(n)` -/
def natDec (n : Nat) : Bytes := L (toString n)

/-! ### Message -/
def ctOf (lib : Lib) (m : Msg) : Text := (hget lib m.hdrs kCT).getD []

/-- `get_content(strict=True)`; `none` = ValueError -/
def getContentStrict (lib : Lib) (m : Msg) : Option Bytes :=
  match hget lib m.hdrs kCE with
  | some ce => if ce = [] then some m.body else lib.ceDec ce m.body
  | none => some m.body

/-- `get_content(strict=False)` -/
def getContent (lib : Lib) (m : Msg) : Bytes := (getContentStrict lib m).getD m.body

/-- `get_text(strict=False)` -/
def getText (lib : Lib) (m : Msg) : Text :=
  let c := getContent lib m
  match lib.csDec (lib.infer (ctOf lib m) c) c with
  | some t => t
  | none => lib.sdec c

/-- `set_content(value)` -/
def setContent (lib : Lib) (m : Msg) (value : Bytes) : Msg :=
  let enc : Option Bytes := match hget lib m.hdrs kCE with
    | some ce => if ce = [] then some value else lib.ceEnc ce value
    | none => some value
  let (h1, raw) := match enc with
    | some r => (m.hdrs, r)
    | none => (hdel m.hdrs kCE, value)
  let h2 := if hcontains h1 kTE then h1 else hset h1 kCL (natDec raw.length)
  { m with hdrs := h2, body := raw }

/-- `set_text(text)`; `none` = the UTF-8 fall-back raised -/
def setText (lib : Lib) (m : Msg) (text : Text) : Option Msg :=
  match lib.csEnc (lib.infer (ctOf lib m) []) text with
  | some b => some (setContent lib m b)
  | none =>
    match lib.senc text with
    | some b => some (setContent lib { m with hdrs := hset m.hdrs kCT (lib.ctUtf8 (ctOf lib m)) } b)
    | none => none

/-- `decode(strict)`; `none` = ValueError -/
def decodeMsg (lib : Lib) (m : Msg) (strict : Bool) : Option Msg :=
  if m.body = [] then some m
  else match (if strict then getContentStrict lib m else some (getContent lib m)) with
    | some d => some (setContent lib { m with hdrs := hdel m.hdrs kCE } d)
    | none => none

/-! ### export: `SaveHar.flow_entry` -/
def isBodyMethod (m : Text) : Bool := m = L "POST" || m = L "PUT" || m = L "PATCH"

/-- `format_multidict(headers)` -/
def fmtHeaders (lib : Lib) (h : Hdrs) : List (Text × Text) := h.map (fun f => (lib.sdec f.1, lib.sdec f.2))

def methodOf (lib : Lib) (m : Bytes) : Text := lib.upper (lib.sdec m)

/-- the `url` written to the entry -/
def exportUrl (lib : Lib) (f : Flow) : Text :=
  if methodOf lib f.method = L "CONNECT" then L "https://" ++ f.purl ++ L "/" else f.purl

def exportReq (lib : Lib) (f : Flow) : HarReq :=
  let m := methodOf lib f.method
  { method := m
    url := exportUrl lib f
    httpVersion := lib.sdec f.req.ver
    headers := fmtHeaders lib f.req.hdrs
    postData := if isBodyMethod m then some (getText lib f.req) else none }

def exportResp (lib : Lib) (f : Flow) : HarResp :=
  let content := getContent lib f.resp
  let bin := content ≠ [] ∧ lib.mostlyBin content = true
  { status := f.status
    httpVersion := lib.sdec f.resp.ver
    headers := fmtHeaders lib f.resp.hdrs
    text := if bin then lib.b64enc content else getText lib f.resp
    encoding := if bin then some (L "base64") else none }

def exportEntry (lib : Lib) (f : Flow) : Entry := ⟨exportReq lib f, exportResp lib f⟩

/-! ### import: `har.request_to_flow` -/
/-- `fix_headers` -/
def fixHeaders (lib : Lib) : List (Text × Text) → Option Hdrs
  | [] => some []
  | (k, v) :: r =>
    match lib.senc k, lib.senc v, fixHeaders lib r with
    | some k', some v', some r' => some ((k', v') :: r')
    | _, _, _ => none

/-- the version `match` of `request_to_flow` -/
def mapVer (v : Text) : Bytes :=
  if v = L "http/2.0" then v2 else if v = v2 then v2 else if v = v3 then v3 else v11

/-- `Request.make(method, url, content, headers)` as far as headers, body and version go; also returns the method bytes -/
def makeReq (lib : Lib) (r : HarReq) : Option (Bytes × Msg) :=
  match fixHeaders lib r.headers, lib.senc r.method, lib.urlHostport r.url with
  | some h, some mb, some hp =>
    -- `req.url = url`: `_update_host_and_authority` rewrites an existing Host header
    let h1 : Option Hdrs := if hcontains h kHost then (lib.senc hp).map (hset h (L "Host")) else some h
    match h1 with
    | some h1 => (setText lib { ver := v11, hdrs := h1, body := [] } (r.postData.getD [])).map (fun m => (mb, m))
    | none => none
  | _, _, _ => none

/-- text → bytes "as in `Response.set_text`", with the UTF-8 fall-back -/
def importText (lib : Lib) (cs : Text) (t : Text) : Option Bytes :=
  match lib.csEnc cs t with
  | some b => some b
  | none => lib.senc t

def makeResp (lib : Lib) (r : HarResp) : Option Msg :=
  match fixHeaders lib r.headers with
  | none => none
  | some h =>
    let infer0 := lib.infer ((hget lib h kCT).getD []) []
    let rc : Option Bytes := match r.encoding with
      | some e => if e = L "base64" then lib.b64dec r.text
                  else importText lib (if e = [] then infer0 else e) r.text
      | none => importText lib infer0 r.text
    match rc with
    | none => none
    | some rc =>
      -- "Then encode the content, as in `Response.set_content`" (a failing coding keeps the content)
      let rc2 := match hget lib h kCE with
        | some ce => if ce = [] then rc else (lib.ceEnc ce rc).getD rc
        | none => rc
      some { ver := v11, hdrs := h, body := rc2 }

def importEntry (lib : Lib) (e : Entry) : Option Flow :=
  match makeReq lib e.request, makeResp lib e.response with
  | some (mb, rq), some rs =>
    match decodeMsg lib { rq with ver := mapVer e.request.httpVersion } true,
          decodeMsg lib { rs with ver := mapVer e.response.httpVersion } false with
    | some rq', some rs' =>
      some { method := mb
             purl := if methodOf lib mb = L "CONNECT" then [] else lib.urlPretty e.request.url (hget lib rq'.hdrs kHost)
             req := rq', status := e.response.status, resp := rs' }
    | _, _ => none
  | _, _ => none

def importAll (lib : Lib) : List Entry → Option (List Flow)
  | [] => some []
  | e :: r =>
    match importEntry lib e, importAll lib r with
    | some f, some fs => some (f :: fs)
    | _, _ => none

/-- `SaveHar.make_har` → `json.dumps` → `json.loads` → `request_to_flow` per entry (FlowReader HAR path) -/
def roundtrip {J : Type} (lib : Lib) (js : Json J) (fs : List Flow) : Option (List Flow) :=
  match js.load (js.dump (fs.map (exportEntry lib))) with
  | some es => importAll lib es
  | none => none

end MitmVerif.C41
