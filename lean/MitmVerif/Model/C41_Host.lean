/-
  C41 — the three CPython answers that `Model/C41_Url.lean` still took as parameters, transcribed with models
  that already exist:

    * `check.is_valid_host`            → `C13.validHostT` (DNS-label regex, 255-byte rule, `ipaddress` via `C22.parseIp`)
    * `urllib.parse._check_bracketed_host` → the IPvFuture regex by hand, `ipaddress.ip_address` via `C22.parseIp`
    * `str.encode("idna")` / `bytes.decode("idna")` → the ASCII fast paths of `encodings/idna.py`

  What remains a parameter (`HostPrim`) is the slow path of the IDNA codec only: decoding a name that contains
  `xn--` (punycode + nameprep; `C13.Idna.idnaOf` transcribes that down to the nameprep tables) and encoding a
  non-ASCII name.
-/
import MitmVerif.Model.C41_Url
import MitmVerif.Model.C13
namespace MitmVerif.C41
open MitmVerif.C33 (Str)

structure HostPrim where
  /-- `raw.decode("idna")` as UTF-8 for a `raw` containing `b"xn--"`; `none` = UnicodeError -/
  idnaDecode : Bytes → Option Bytes
  /-- `text.encode("idna")` for a non-ASCII `text`; `none` = UnicodeError -/
  idnaEncode : Str → Option Bytes

def idnaLibOf (H : HostPrim) : C13.IdnaLib := ⟨H.idnaDecode⟩

/-- the label-length check of the ASCII fast path of `encodings.idna.Codec.encode` -/
def labelsLenOk (b : Bytes) : Bool :=
  let ls := C13.splitDot b
  ls.dropLast.all (fun l => decide (0 < l.length) && decide (l.length < 64)) && decide ((ls.getLast?.getD []).length < 64)

def isAsciiStr (s : Str) : Bool := s.all (fun c => decide (c < 128))

/-- `text.encode("idna")` -/
def idnaEncodeT (H : HostPrim) (s : Str) : Option Bytes :=
  if s = [] then some []
  else if isAsciiStr s then (if labelsLenOk (toText s) then some (toText s) else none)
  else H.idnaEncode s

/-- `hostname.encode("idna")` decoded again by the host setter (`always_str(val, "idna")`) -/
def idnaRtT (H : HostPrim) (hn : Str) : Option Str :=
  match idnaEncodeT H hn with
  | some b => (C13.idnaText (idnaLibOf H) b).map toStr
  | none => none

/-- `check.is_valid_host(text.encode("idna"))`, also `check.is_valid_host(text)` for a `str` -/
def validHostU (H : HostPrim) (hn : Str) : Bool :=
  match idnaEncodeT H hn with
  | some b => C13.validHostT (idnaLibOf H) b
  | none => false

def isHexC (c : Nat) : Bool := (48 ≤ c && c ≤ 57) || (97 ≤ c && c ≤ 102) || (65 ≤ c && c ≤ 70)

/-- `urllib.parse._check_bracketed_host(x)` does not raise -/
def validBracketedT (x : Str) : Bool :=
  match x with
  | 118 :: r =>
    -- re.match(r"\Av[a-fA-F0-9]+\..+\Z", x)
    let hx := r.takeWhile isHexC
    match r.dropWhile isHexC with
    | 46 :: t => !hx.isEmpty && !t.isEmpty && !t.contains 10
    | _ => false
  | _ =>
    match C22.parseIp (toText x) with
    | some (C22.Addr.v6 _ _) => true
    | _ => false

/-- the URL primitives of `C41_Url`, computed -/
def urlPrimOf (H : HostPrim) : UrlPrim where
  validBracketed := validBracketedT
  idnaRt := idnaRtT H
  validHost := validHostU H
  validAuthHost := validHostU H

/-- the model's library with the URL functions and their host checks transcribed -/
def mkLibH (p : Prim) (H : HostPrim) : Lib := mkLibU p (urlPrimOf H)

end MitmVerif.C41
