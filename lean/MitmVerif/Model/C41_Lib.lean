/-
  C41 — the mitmproxy-side helper functions the HAR exporter/importer call, transcribed, so that they are no
  longer parameters of the model:

    * `strutils.is_mostly_bin`                      (text vs base64 decision of `SaveHar.flow_entry`)
    * `net.http.headers.parse_content_type`, `assemble_content_type`
    * `net.http.headers.infer_content_encoding`     (charset inference used by get_text / set_text / har.py)
    * the Content-Type rewrite in `Message.set_text`'s fall-back

  What remains a parameter (`Prim`) is CPython / third-party library behaviour only: the text codecs, base64,
  the content codings, `str.upper/lower/strip`, UTF-8 validity, the three `re.search` calls of
  `infer_content_encoding`, and the URL library (urllib-based `url.parse` / `pretty_url`).
  `mkLib : Prim → Lib` plugs the transcriptions into the model of `Model/C41.lean`.
-/
import MitmVerif.Model.C41
namespace MitmVerif.C41

structure Prim where
  sdec : Bytes → Text
  senc : Text → Option Bytes
  upper : Text → Text
  /-- `str.lower()` -/
  lower : Text → Text
  /-- `str.strip()` -/
  strip : Text → Text
  b64enc : Bytes → Text
  b64dec : Text → Option Bytes
  /-- `bytes.decode()` (strict UTF-8) succeeds -/
  utf8Valid : Bytes → Bool
  ceDec : Text → Bytes → Option Bytes
  ceEnc : Text → Bytes → Option Bytes
  csDec : Text → Bytes → Option Text
  csEnc : Text → Text → Option Bytes
  /-- `re.search(rb"<meta[^>]+charset=['"]?([^'">]+)", content, re.I)` → group 1 -/
  reMeta : Bytes → Option Bytes
  /-- `re.search(rb"<\?xml[^\?>]+encoding=['"]([^'"\?>]+)", content, re.I)` → group 1 -/
  reXml : Bytes → Option Bytes
  /-- `re.match(rb'@charset "([^"]+)";', content, re.I)` → group 1 -/
  reCss : Bytes → Option Bytes
  urlHostport : Text → Option Text
  urlPretty : Text → Option Text → Text

/-! ### strutils.is_mostly_bin -/

/-- the "cut off at ~100 chars, but not inside a UTF-8 sequence" step -/
def cutText (s : Bytes) : Bytes :=
  if s.length > 100 then
    match (List.range' 100 (min 104 s.length - 100)).find? (fun cut => (s.getD cut 0).toNat / 64 != 2) with
    | some cut => s.take cut
    | none => s.take 100
  else s

def isLow (i : UInt8) : Bool := i.toNat < 9 || (13 < i.toNat && i.toNat < 32)
def isHigh (i : UInt8) : Bool := i.toNat > 126

/-- `is_mostly_bin(s)`; the float comparisons `a/len > 0.7`, `b/len > 0.95` are exact as `10a > 7len`, `20b > 19len`
for `len ≤ 103` -/
def mostlyBinT (p : Prim) (s0 : Bytes) : Bool :=
  if s0 = [] then false else
  let s := cutText s0
  let low := s.countP isLow
  let high := s.countP isHigh
  let ascii := s.length - low - high
  if 10 * ascii > 7 * s.length then false
  else if 20 * (ascii + high) > 19 * s.length && p.utf8Valid s then false
  else true

/-! ### parse_content_type / assemble_content_type -/

/-- `s.split(sep, 1)` -/
def split1 (sep : UInt8) : Bytes → Bytes × Option Bytes
  | [] => ([], none)
  | c :: r =>
    if c = sep then ([], some r)
    else let (a, b) := split1 sep r; (c :: a, b)

/-- `s.split(sep)` -/
def splitAll (sep : UInt8) : Bytes → List Bytes
  | [] => [[]]
  | c :: r =>
    if c = sep then [] :: splitAll sep r
    else match splitAll sep r with
      | [] => [[c]]
      | x :: xs => (c :: x) :: xs

/-- `d[k] = v` on an insertion-ordered dict -/
def dictSet (d : List (Text × Text)) (k v : Text) : List (Text × Text) :=
  if d.any (fun e => e.1 == k) then d.map (fun e => if e.1 == k then (k, v) else e) else d ++ [(k, v)]

def dictGet (d : List (Text × Text)) (k : Text) : Option Text := (d.find? (fun e => e.1 == k)).map (·.2)

def parseCT (p : Prim) (c : Text) : Option (Text × Text × List (Text × Text)) :=
  let (p0, rest) := split1 0x3b c
  match split1 0x2f p0 with
  | (_, none) => none
  | (t, some sub) =>
    let d := match rest with
      | none => []
      | some r => (splitAll 0x3b r).foldl (fun d i => match split1 0x3d i with
          | (k, some v) => dictSet d (p.strip k) (p.strip v)
          | (_, none) => d) []
    some (p.lower t, p.lower sub, d)

def joinWith (sep : Bytes) : List Bytes → Bytes
  | [] => []
  | [x] => x
  | x :: y :: r => x ++ sep ++ joinWith sep (y :: r)

def assembleCT (t sub : Text) (d : List (Text × Text)) : Text :=
  if d.isEmpty then t ++ [0x2f] ++ sub
  else t ++ [0x2f] ++ sub ++ [0x3b, 0x20] ++ joinWith [0x3b, 0x20] (d.map (fun e => e.1 ++ [0x3d] ++ e.2))

/-- the header value `set_text` writes when the declared charset cannot encode the text -/
def ctUtf8T (p : Prim) (ct : Text) : Bytes :=
  let (t, sub, d) := (parseCT p ct).getD (L "text", L "plain", [])
  (p.senc (assembleCT t sub (dictSet d (L "charset") (L "utf-8")))).getD []

/-! ### infer_content_encoding -/

def startsWith (s pre : Bytes) : Bool := pre.isPrefixOf s

def isInfix (needle : Bytes) : Bytes → Bool
  | [] => needle.isEmpty
  | c :: r => needle.isPrefixOf (c :: r) || isInfix needle r

/-- `.decode("ascii", "ignore")` -/
def asciiIgnore (b : Bytes) : Text := b.filter (fun x => x.toNat < 128)

/-- `if not enc and <cond>: enc = <value>` -/
def orElse (enc : Text) (cond : Bool) (value : Unit → Text) : Text := if enc = [] && cond then value () else enc

/-- the charset taken from a BOM or from the header (empty = none) -/
def declaredCharset (p : Prim) (ct : Text) (content : Bytes) : Text :=
  if startsWith content [0x00, 0x00, 0xfe, 0xff] then L "utf-32be"
  else if startsWith content [0xff, 0xfe, 0x00, 0x00] then L "utf-32le"
  else if startsWith content [0xfe, 0xff] then L "utf-16be"
  else if startsWith content [0xff, 0xfe] then L "utf-16le"
  else if startsWith content [0xef, 0xbb, 0xbf] then L "utf-8-sig"
  else match parseCT p ct with
    | some (_, _, d) => (dictGet d (L "charset")).getD []
    | none => []

def inferT (p : Prim) (ct : Text) (content : Bytes) : Text :=
  let e0 := declaredCharset p ct content
  let e1 := orElse e0 (isInfix (L "json") ct) (fun _ => L "utf8")
  let e2 := orElse e1 (isInfix (L "html") ct) (fun _ => match p.reMeta content with
    | some g => asciiIgnore g
    | none => L "utf8")
  let e3 := orElse e2 (isInfix (L "xml") ct) (fun _ => match p.reXml content with
    | some g => asciiIgnore g
    | none => L "utf8")
  let e4 := orElse e3 (isInfix (L "javascript") ct || isInfix (L "ecmascript") ct) (fun _ => L "utf8")
  let e5 := orElse e4 (isInfix (L "text/css") ct) (fun _ => match p.reCss content with
    | some g => asciiIgnore g
    | none => L "utf8")
  let e6 := if e5 = [] then L "latin-1" else e5
  if p.lower e6 = L "gb2312" || p.lower e6 = L "gbk" then L "gb18030" else e6

/-! ### the model's library, built from primitives and the transcriptions -/

def mkLib (p : Prim) : Lib where
  sdec := p.sdec
  senc := p.senc
  upper := p.upper
  b64enc := p.b64enc
  b64dec := p.b64dec
  mostlyBin := mostlyBinT p
  ceDec := p.ceDec
  ceEnc := p.ceEnc
  infer := inferT p
  csDec := p.csDec
  csEnc := p.csEnc
  ctUtf8 := ctUtf8T p
  urlHostport := p.urlHostport
  urlPretty := p.urlPretty

end MitmVerif.C41
