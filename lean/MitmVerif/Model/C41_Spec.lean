/-
  C41 — the comparison the property makes between an exported flow and the imported one, and the decidable
  guard (one conjunct per recorded finding F-C41a … F-C41h) under which `Props/C41.lean` proves it.
  Executable: the driver prints the guard bits so that the harness' classification of known findings is
  checked against these definitions.
-/
import MitmVerif.Model.C41
namespace MitmVerif.C41

/-! ### the comparison the property makes, and the guard -/

/-- header fields apart from Content-Length -/
def dropCL (h : Hdrs) : Hdrs := hdel h kCL

/-- the statement's comparison without the HTTP version: method, URL, request header fields apart from
Content-Length, request body for POST/PUT/PATCH, status, response header fields, decoded response body.
(Field names are compared exactly, which is stronger than HTTP's case-insensitive reading.) -/
def sameButVer (lib : Lib) (f f' : Flow) : Bool :=
  methodOf lib f'.method == methodOf lib f.method
  && f'.purl == f.purl
  && dropCL f'.req.hdrs == dropCL f.req.hdrs
  && (!isBodyMethod (methodOf lib f.method) || getContent lib f'.req == getContent lib f.req)
  && f'.status == f.status
  && f'.resp.hdrs == f.resp.hdrs
  && getContent lib f'.resp == getContent lib f.resp

def same (lib : Lib) (f f' : Flow) : Bool := sameButVer lib f f' && f'.req.ver == f.req.ver

/-- the text written to `postData.text` (none for other methods: the importer then uses "") -/
def postText (lib : Lib) (f : Flow) : Text :=
  if isBodyMethod (methodOf lib f.method) then getText lib f.req else []

/-- F-C41a: the importer maps only "http/2.0", "HTTP/2" and "HTTP/3"; mitmproxy's own "HTTP/2.0" becomes HTTP/1.1 -/
def gVer (f : Flow) : Bool := f.req.ver == v11 || f.req.ver == v3
/-- F-C41b: CONNECT flows are exported as https://authority/ and re-imported with an empty authority -/
def gMethod (lib : Lib) (f : Flow) : Bool := methodOf lib f.method != L "CONNECT"
/-- F-C41c: the exported URL is re-parsed … -/
def gUrlParse (lib : Lib) (f : Flow) : Bool := (lib.urlHostport (exportUrl lib f)).isSome
/-- … and must print back as itself -/
def gUrl (lib : Lib) (f : Flow) : Bool := lib.urlPretty (exportUrl lib f) (hget lib f.req.hdrs kHost) == f.purl
/-- F-C41d: an existing Host header is overwritten with host[:port] of the URL -/
def gHost (lib : Lib) (f : Flow) : Bool :=
  match lib.urlHostport (exportUrl lib f) with
  | none => true
  | some hp =>
    if hcontains f.req.hdrs kHost then
      (match lib.senc hp with
       | some hpB => fieldsOf f.req.hdrs kHost == [hpB]
       | none => false)
    else true
/-- F-C41e: the importer stores bodies decoded and drops Content-Encoding -/
def gNoCE (f : Flow) : Bool := !hcontains f.req.hdrs kCE && !hcontains f.resp.hdrs kCE
/-- F-C41f: the request text must re-encode, under the charset inferred without the content, to the same bytes -/
def gReqText (lib : Lib) (f : Flow) : Bool :=
  match lib.csEnc (lib.infer (ctOf lib f.req) []) (postText lib f) with
  | some b => !isBodyMethod (methodOf lib f.method) || b == f.req.body
  | none => false
/-- F-C41g: `decode()` rewrites the response's Content-Length -/
def gRespCL (f : Flow) : Bool :=
  f.resp.body == [] || hcontains f.resp.hdrs kTE || fieldsOf f.resp.hdrs kCL == [natDec f.resp.body.length]
/-- F-C41h: a response body exported as text must re-encode to the same bytes -/
def gRespText (lib : Lib) (f : Flow) : Bool :=
  (f.resp.body != [] && lib.mostlyBin f.resp.body)
  || importText lib (lib.infer (ctOf lib f.resp) []) (getText lib f.resp) == some f.resp.body

def guardButVer (lib : Lib) (f : Flow) : Bool :=
  gMethod lib f && gUrlParse lib f && gUrl lib f && gHost lib f && gNoCE f && gReqText lib f && gRespCL f && gRespText lib f

def guardAll (lib : Lib) (f : Flow) : Bool := gVer f && guardButVer lib f

/-- the guard conjuncts in a fixed order: ver method urlParse url host noCE reqText respCL respText -/
def guardBits (lib : Lib) (f : Flow) : List Bool :=
  [gVer f, gMethod lib f, gUrlParse lib f, gUrl lib f, gHost lib f, gNoCE f, gReqText lib f, gRespCL f, gRespText lib f]

end MitmVerif.C41
