/-
  C41 — the URL side of the HAR importer, transcribed with the C33 model of `mitmproxy.net.http.url`
  (`url.parse` over urlsplit's scheme/netloc reading `pySplit`, `hostport`, `unparse`, `parse_authority`)
  and of `Request.url` / `pretty_url`:

    * `urlHostportT u`  = what `Request.make(url=u)` writes into an existing Host header:
                          `url.hostport(scheme, host, port)` of `url.parse(u)`
    * `urlPrettyT u h`  = `pretty_url` of the request made from `u` whose Host header reads `h`
                          (its authority is empty, so `host_header` is the Host header for every HTTP version)

  C33 works on code points, C41 on UTF-8 (surrogatepass) bytes: `toStr` / `toText` convert.
  What remains a parameter (`UrlPrim`) is CPython only: `_check_bracketed_host` (ipaddress), the IDNA codec round
  trip of the host name, and `is_valid_host` (on the A-label bytes in `url.parse`, on the text in `parse_authority`).
-/
import MitmVerif.Model.C41_Lib
import MitmVerif.Model.C33
namespace MitmVerif.C41
open MitmVerif.C33 (Str)

/-- UTF-8 of one code point (surrogates pass) -/
def utf8Enc1 (c : Nat) : Bytes :=
  if c < 0x80 then [UInt8.ofNat c]
  else if c < 0x800 then [UInt8.ofNat (0xC0 + c / 64), UInt8.ofNat (0x80 + c % 64)]
  else if c < 0x10000 then [UInt8.ofNat (0xE0 + c / 4096), UInt8.ofNat (0x80 + c / 64 % 64), UInt8.ofNat (0x80 + c % 64)]
  else [UInt8.ofNat (0xF0 + c / 262144), UInt8.ofNat (0x80 + c / 4096 % 64), UInt8.ofNat (0x80 + c / 64 % 64),
        UInt8.ofNat (0x80 + c % 64)]

def toText (s : Str) : Text := s.flatMap utf8Enc1

/-- code points of a well-formed UTF-8 (surrogatepass) text -/
def toStrF : Nat → Bytes → Str
  | 0, _ => []
  | _ + 1, [] => []
  | f + 1, b :: r =>
    let n := b.toNat
    if n < 0x80 then n :: toStrF f r
    else if n < 0xE0 then
      match r with
      | b1 :: r' => ((n % 32) * 64 + b1.toNat % 64) :: toStrF f r'
      | [] => [n]
    else if n < 0xF0 then
      match r with
      | b1 :: b2 :: r' => ((n % 16) * 4096 + (b1.toNat % 64) * 64 + b2.toNat % 64) :: toStrF f r'
      | _ => [n]
    else
      match r with
      | b1 :: b2 :: b3 :: r' =>
        ((n % 8) * 262144 + (b1.toNat % 64) * 4096 + (b2.toNat % 64) * 64 + b3.toNat % 64) :: toStrF f r'
      | _ => [n]

def toStr (t : Text) : Str := toStrF t.length t

structure UrlPrim where
  /-- `urllib.parse._check_bracketed_host` does not raise -/
  validBracketed : Str → Bool
  /-- `hostname.encode("idna")` decoded again by the host setter; `none` = UnicodeError -/
  idnaRt : Str → Option Str
  /-- `check.is_valid_host(hostname.encode("idna"))` in `url.parse` -/
  validHost : Str → Bool
  /-- `check.is_valid_host(host)` on the text of a Host header in `parse_authority` -/
  validAuthHost : Str → Bool

/-- C33's library with everything of mitmproxy/urllib's own logic transcribed -/
def pyOf (U : UrlPrim) : C33.PyLib where
  validBracketed := U.validBracketed
  normRest := C33.normRestPy
  idnaRt := U.idnaRt
  validHost := U.validHost
  normAuth := id

def parseUrl (U : UrlPrim) (u : Text) : Option (Str × Str × Nat × Str) :=
  C33.urlParse (C33.pyLib (pyOf U)) (toStr u)

def urlHostportT (U : UrlPrim) (u : Text) : Option Text :=
  (parseUrl U u).map (fun q => toText (C33.hostport q.1 q.2.1 q.2.2.1))

/-- `pretty_port or url.default_port(self.scheme) or 443` -/
def prettyPort (scheme : Str) (p : Option Nat) : Nat :=
  match p with
  | some n => if n = 0 then (C33.defaultPort scheme).getD 443 else n
  | none => (C33.defaultPort scheme).getD 443

def urlPrettyT (U : UrlPrim) (u : Text) (h : Option Text) : Text :=
  match parseUrl U u with
  | none => []
  | some (s, host, port, path) =>
    let path' := if path = [42] then [] else path
    match h with
    | none => toText (C33.unparse s host port path')
    | some hh =>
      if hh = [] then toText (C33.unparse s host port path')
      else
        let pa := C33.parseAuthorityLoose U.validAuthHost (toStr hh)
        toText (C33.unparse s pa.1 (prettyPort s pa.2) path')

/-- the model's library with the URL functions transcribed as well -/
def mkLibU (p : Prim) (U : UrlPrim) : Lib :=
  { mkLib p with urlHostport := urlHostportT U, urlPretty := urlPrettyT U }

end MitmVerif.C41
