/-
  C42 — filter expressions mean what the documented grammar says (mitmproxy/flowfilter.py).

  Model of the pyparsing grammar built by `flowfilter._make` and of the evaluation of the resulting tree:

    atom  := MatchFirst( ~code WordEnd(alphanums)                    for code in filter_unary
                       | ~code WordEnd(alphanums) regex              for code in filter_rex
                       | ~code WordEnd(alphanums) Word(nums)         for code in filter_int
                       | regex )                                     -- a naked regex is a URL regex
    regex := CharsNotIn("()~'\"" + " \n\t\r") | QuotedString('"', esc_char='\\') | QuotedString("'", esc_char='\\')
    expr  := OneOrMore(infix_notation(atom | "(" expr ")", [("!",1,RIGHT), ("&",2,LEFT), ("|",2,LEFT)]))
             with  FAnd(list) when more than one term was read

  as a scannerless deterministic (PEG) parser over the code points of the expression: every token skips leading
  white space (" \n\t\r"; tabs are kept: `parse_with_tabs`), unquoted words and digit runs are maximal, the
  alternatives are tried in pyparsing's order and a failed alternative backs up to where it started.  The operator
  code tables come from `Gen/C42.lean` (regenerated from flowfilter.py on every run).  The regular-expression engine
  is a parameter: `compiles` (an argument that does not compile makes `parse` raise ValueError) and the per-atom
  verdicts `Sem`.  Core Lean only.
-/
import MitmVerif.Gen.C42
namespace MitmVerif.C42

abbrev Str := List Char

/-- the tree `flowfilter.parse` builds: `_Action` leaves, `FNot`, n-ary `FAnd` / `FOr` -/
inductive Ast where
  | unary (code : Str)
  | rex (code : Str) (arg : Str)
  | int (code : Str) (n : Nat)
  | not (t : Ast)
  | and (l : List Ast)
  | or (l : List Ast)
deriving Repr, Inhabited

abbrev P := Str → Option (Ast × Str)

/-! ### characters -/

/-- `pp.ParserElement.DEFAULT_WHITE_CHARS` -/
def isWs (c : Char) : Bool := c == ' ' || c == '\n' || c == '\t' || c == '\r'
def isDigit (c : Char) : Bool := 48 ≤ c.toNat && c.toNat ≤ 57
/-- `pp.alphanums` -/
def isAlnum (c : Char) : Bool :=
  isDigit c || (65 ≤ c.toNat && c.toNat ≤ 90) || (97 ≤ c.toNat && c.toNat ≤ 122)
/-- `CharsNotIn("()~'\"" + DEFAULT_WHITE_CHARS)` -/
def isWordCh (c : Char) : Bool :=
  !(isWs c || c == '(' || c == ')' || c == '~' || c == '\'' || c == '"')

def skipWs : Str → Str
  | [] => []
  | c :: s => if isWs c then skipWs s else c :: s

/-- longest prefix of characters satisfying `p`, and what follows -/
def takeW (p : Char → Bool) : Str → Str × Str
  | [] => ([], [])
  | c :: s => if p c then ((c :: (takeW p s).1), (takeW p s).2) else ([], c :: s)

def stripPrefix : Str → Str → Option Str
  | [], s => some s
  | _ :: _, [] => none
  | p :: ps, c :: s => if p = c then stripPrefix ps s else none

/-- `WordEnd(alphanums)` right after an operator code: end of input, or a non-alphanumeric character -/
def wordEnd : Str → Bool
  | [] => true
  | c :: _ => !isAlnum c

/-- a one-character `Literal` (skips white space first) -/
def lit (c : Char) (s : Str) : Option Str :=
  match skipWs s with
  | d :: r => if d = c then some r else none
  | [] => none

/-! ### quoted strings (pyparsing 3.3.2 `QuotedString(q, esc_char="\\")`, not multiline) -/

/-- the text between the quotes: `(?:\\.|[^q\n\r\\])*` then the closing quote. Returns (raw content, rest). -/
def pQuoted (q : Char) : Str → Option (Str × Str)
  | [] => none
  | c :: s =>
    if c = q then some ([], s)
    else if c = '\\' then
      match s with
      | [] => none
      | d :: s' =>
        if d = '\n' then none
        else match pQuoted q s' with
          | some (a, r) => some (c :: d :: a, r)
          | none => none
    else if c = '\n' || c = '\r' then none
    else match pQuoted q s with
      | some (a, r) => some (c :: a, r)
      | none => none

def hexVal (c : Char) : Option Nat :=
  let n := c.toNat
  if 48 ≤ n ∧ n ≤ 57 then some (n - 48)
  else if 97 ≤ n ∧ n ≤ 102 then some (n - 87)
  else if 65 ≤ n ∧ n ≤ 70 then some (n - 55)
  else none

/-- the character an escape `\d` stands for when no numeric rule applies: `\t \n \f \r` are white space,
every other character stands for itself -/
def escChar (d : Char) : Char :=
  if d = 't' then '\t' else if d = 'n' then '\n' else if d = 'f' then '\x0c' else if d = 'r' then '\r' else d

/-- `unquote_results` as the installed pyparsing does it, i.e. with the scan pattern
`(\\t|\\n|\\f|\\r)|(\\[0-7]3|\\0|\\x[0-9a-fA-F]2|\\u[0-9a-fA-F]4)|(\\.)|(\n|.)` (the `{3}`, `{2}`, `{4}` of the source sit
in an f-string and come out as the literal digits 3, 2, 4):  `\0` not followed by `3` is NUL, `\xh2` is chr(16h+2),
`\uh4` is chr(16h+4); every other `\c` is `c`.  Fuel = length of the raw text. -/
def unqF : Nat → Str → Str
  | 0, _ => []
  | _, [] => []
  | n + 1, c :: s =>
    if c ≠ '\\' then c :: unqF n s
    else match s with
      | [] => [c]
      | d :: r =>
        if d = 'x' ∨ d = 'u' then
          match r with
          | h :: k :: r' =>
            match hexVal h with
            | some v =>
              if k = (if d = 'x' then '2' else '4')
              then Char.ofNat (16 * v + (if d = 'x' then 2 else 4)) :: unqF n r'
              else d :: unqF n r
            | none => d :: unqF n r
          | _ => d :: unqF n r
        else if d = '0' then
          match r with
          | k :: _ => if k = '3' then '0' :: unqF n r else Char.ofNat 0 :: unqF n r
          | [] => [Char.ofNat 0]
        else escChar d :: unqF n r

def unq (s : Str) : Str := unqF s.length s

/-! ### tokens -/

/-- the `regex` element: an unquoted word or a quoted string; returns (argument, rest) -/
def pRegex (s : Str) : Option (Str × Str) :=
  match skipWs s with
  | [] => none
  | c :: r =>
    if isWordCh c then some (takeW isWordCh (c :: r))
    else if c = '"' ∨ c = '\'' then
      match pQuoted c r with
      | some (raw, rest) => some (unq raw, rest)
      | none => none
    else none

def digitsVal (d : Str) : Nat := d.foldl (fun acc c => 10 * acc + (c.toNat - 48)) 0

/-- `Word(nums)` and `int(...)` -/
def pInt (s : Str) : Option (Nat × Str) :=
  match takeW isDigit (skipWs s) with
  | ([], _) => none
  | (d, r) => some (digitsVal d, r)

/-- `Literal("~code") + WordEnd(alphanums)` at the current position (white space already skipped) -/
def wordEndO : Option Str → Option Str
  | some r => if wordEnd r then some r else none
  | none => none

def tryCode (code : Str) (s : Str) : Option Str := wordEndO (stripPrefix ('~' :: code) s)

def firstSome {α β : Type} (f : α → Option β) : List α → Option β
  | [] => none
  | a :: l => match f a with
    | some b => some b
    | none => firstSome f l

def tryUnary (s : Str) (c : Str) : Option (Ast × Str) :=
  match tryCode c s with
  | some r => some (Ast.unary c, r)
  | none => none

def tryRex (s : Str) (c : Str) : Option (Ast × Str) :=
  match tryCode c s with
  | some r => match pRegex r with
    | some (a, r') => some (Ast.rex c a, r')
    | none => none
  | none => none

def tryInt (s : Str) (c : Str) : Option (Ast × Str) :=
  match tryCode c s with
  | some r => match pInt r with
    | some (n, r') => some (Ast.int c n, r')
    | none => none
  | none => none

/-- `atom = MatchFirst(parts)`: unary codes, regex codes, int codes (each list in table order), naked regex -/
def pAtom (s : Str) : Option (Ast × Str) :=
  let s := skipWs s
  match firstSome (tryUnary s) Gen.unaryCodes with
  | some r => some r
  | none =>
    match firstSome (tryRex s) Gen.rexCodes with
    | some r => some r
    | none =>
      match firstSome (tryInt s) Gen.intCodes with
      | some r => some r
      | none =>
        match pRegex s with
        | some (a, r) => some (Ast.rex Gen.bareCode a, r)
        | none => none

/-! ### operators (`infix_notation`) and the outer `OneOrMore` -/

/-- operand: `atom | "(" expr ")"`, `g` parses what is inside parentheses -/
def pL0 (g : P) : P := fun s =>
  match pAtom s with
  | some r => some r
  | none =>
    match lit '(' s with
    | none => none
    | some s1 =>
      match g s1 with
      | none => none
      | some (t, s2) =>
        match lit ')' s2 with
        | none => none
        | some s3 => some (t, s3)

/-- `"!"`, right associative: `FollowedBy("!" + this) + Group("!" + this) | operand` -/
def pL1 (g : P) : Str → Option (Ast × Str)
  | [] => pL0 g []
  | c :: s =>
    if isWs c then pL1 g s
    else if c = '!' then
      match pL1 g s with
      | some (t, r) => some (Ast.not t, r)
      | none => pL0 g (c :: s)
    else pL0 g (c :: s)

def litOpt (op : Option Char) (s : Str) : Option Str :=
  match op with
  | some c => lit c s
  | none => some s

/-- `(op item)*` : stops (backing up over the operator) at the first repetition that does not parse -/
def loopP (op : Option Char) (item : P) : Nat → Str → List Ast × Str
  | 0, s => ([], s)
  | n + 1, s =>
    match litOpt op s with
    | none => ([], s)
    | some s1 =>
      match item s1 with
      | none => ([], s)
      | some (t, s2) => (t :: (loopP op item n s2).1, (loopP op item n s2).2)

/-- `FollowedBy(item op item) + Group(item (op item)+) | item`, one n-ary node for the whole run;
also `OneOrMore(item)` with `FAnd(list) if len != 1` (op = none) -/
def chainP (mk : List Ast → Ast) (op : Option Char) (item : P) : P := fun s =>
  match item s with
  | none => none
  | some (t, r) =>
    match loopP op item r.length r with
    | ([], r') => some (t, r')
    | (l, r') => some (mk (t :: l), r')

def pL2 (g : P) : P := chainP Ast.and (some '&') (pL1 g)
def pL3 (g : P) : P := chainP Ast.or (some '|') (pL2 g)
def pBody (g : P) : P := chainP Ast.and none (pL3 g)

/-- `expr`; the fuel bounds the nesting of parentheses (every level consumes a "(") -/
def pExpr : Nat → P
  | 0 => fun _ => none
  | n + 1 => pBody (pExpr n)

/-- the tree the grammar reads from `s` (`parse_string(s, parse_all=True)`), before any regex is compiled -/
def parseStruct (s : Str) : Option Ast :=
  match pExpr (s.length + 1) s with
  | some (t, r) => if skipWs r = [] then some t else none
  | none => none

/-! ### regex compilation and evaluation (the regex engine is a parameter) -/

mutual
/-- every regex argument of the tree compiles (`compiles code arg`; bytes or str pattern depending on the code) -/
def argsOk (compiles : Str → Str → Bool) : Ast → Bool
  | .unary _ => true
  | .rex c a => compiles c a
  | .int _ _ => true
  | .not t => argsOk compiles t
  | .and l => argsOkL compiles l
  | .or l => argsOkL compiles l
def argsOkL (compiles : Str → Str → Bool) : List Ast → Bool
  | [] => true
  | t :: l => argsOk compiles t && argsOkL compiles l
end

/-- `flowfilter.parse`: `none` = ValueError (syntax error, or a regex that does not compile) -/
def parse (compiles : Str → Str → Bool) (s : Str) : Option Ast :=
  match parseStruct s with
  | some t => if argsOk compiles t then some t else none
  | none => none

/-- what the leaves answer on a flow: the `__call__` of the `_Action` classes -/
structure Sem (Flow : Type) where
  unary : Str → Flow → Bool
  rex : Str → Str → Flow → Bool
  int : Str → Nat → Flow → Bool

mutual
/-- `FNot.__call__` = not, `FAnd.__call__` = all, `FOr.__call__` = any -/
def eval {Flow : Type} (sem : Sem Flow) : Ast → Flow → Bool
  | .unary c, f => sem.unary c f
  | .rex c a, f => sem.rex c a f
  | .int c n, f => sem.int c n f
  | .not t, f => !eval sem t f
  | .and l, f => evalAll sem l f
  | .or l, f => evalAny sem l f
def evalAll {Flow : Type} (sem : Sem Flow) : List Ast → Flow → Bool
  | [], _ => true
  | t :: l, f => eval sem t f && evalAll sem l f
def evalAny {Flow : Type} (sem : Sem Flow) : List Ast → Flow → Bool
  | [], _ => false
  | t :: l, f => eval sem t f || evalAny sem l f
end

end MitmVerif.C42
