/-
  C42 — what the body operators ~b / ~bq / ~bs search in an HTTP message (`Message.get_content(strict=False)` as used
  by FBod / FBodRequest / FBodResponse): no body (streamed, `raw_content is None`) -> nothing; no (or an empty)
  Content-Encoding header -> the bytes as received; otherwise the decoded bytes when the coding can be applied and the
  bytes AS RECEIVED when it cannot (unknown coding, several codings, a coding announced over bytes that are not so
  encoded).  The content decoder `dec` and the regex search are parameters.  The verdict is a Bool in every case -
  there is no flow, coding or decoder outcome for which a body operator has no answer.
-/
import MitmVerif.Basic.Bytes
import MitmVerif.Model.C42
namespace MitmVerif.C42

/-- the part of an HTTP message the body operators look at -/
structure Msg where
  raw : Option Bytes        -- raw_content (none: streamed / absent)
  ce : Option Str           -- Content-Encoding header value (none: no header)

/-- `get_content(strict=False)` -/
def searched (dec : Str → Bytes → Option Bytes) (m : Msg) : Option Bytes :=
  match m.raw with
  | none => none
  | some raw =>
    match m.ce with
    | none => some raw
    | some c =>
      if c = [] then some raw
      else match dec c raw with
        | some d => some d
        | none => some raw

/-- one body operator on the messages it covers (request and/or response): does the regex match what is searched -/
def bodyLeaf (search : Bytes → Bool) (dec : Str → Bytes → Option Bytes) (ms : List Msg) : Bool :=
  ms.any (fun m => match searched dec m with
    | some b => search b
    | none => false)

end MitmVerif.C42
