/-
  C42 — what every operator of the table reads from a flow (transcription of the `_Action.__call__` methods of
  mitmproxy/flowfilter.py over an abstract view of the flow), with the regex engine still a parameter.

  `FlowView` holds exactly the parts of a flow the operators look at.  `leafReads dec code f` is the list of byte
  strings operator `~code` applies its regex to on flow `f` (text subjects travel as UTF-8); the verdict of a regex
  leaf is "the regex matches one of them".  The `@only(...)` decorators are the `kind` cases that give `[]`
  (no subject - verdict false).  Which flags the regex is compiled with comes from `Gen/C42.lean` (regenerated from
  the classes' `flags` and base class: IGNORECASE always, MULTILINE for the header/metadata/comment operators, DOTALL
  for the body operators; bytes or str pattern).  F-C42a is the code's behaviour and is modelled as such: ~h/~hq/~hs
  read `bytes(headers)`, the CRLF-joined block.
-/
import MitmVerif.Model.C42_Body
namespace MitmVerif.C42

inductive FKind where
  | http | tcp | udp | dns | other
deriving DecidableEq, Repr

inductive Replay where
  | none | request | response | other
deriving DecidableEq, Repr

/-- an HTTP message as the operators see it -/
structure HMsg where
  hdrBlock : Bytes          -- bytes(message.headers): every field as `name: value\r\n`
  ctValues : List Bytes     -- values of the fields named content-type (case-insensitively), in order
  body : Msg                -- raw_content and Content-Encoding (Model/C42_Body.lean)

/-- a websocket / TCP / UDP message -/
structure DirMsg where
  fromClient : Bool
  content : Bytes

structure FlowView where
  kind : FKind
  req : Option HMsg                 -- HTTP request
  resp : Option HMsg                -- HTTP response
  method : Bytes                    -- request.data.method
  host : Bytes                      -- request.host            (text, UTF-8)
  prettyHost : Bytes                -- request.pretty_host
  prettyUrl : Bytes                 -- request.pretty_url
  status : Nat                      -- response.status_code
  ws : Option (List DirMsg)         -- websocket.messages
  msgs : List DirMsg                -- TCP/UDP messages
  dnsReq : Option Bytes             -- str(request).encode() of a DNS flow
  dnsResp : Option Bytes            -- str(response).encode()
  dnsQName : Option Bytes           -- request.questions[0].name
  src : Option Bytes                -- "host:port" of client_conn.peername
  dst : Option Bytes                -- "host:port" of server_conn.address
  metaText : Bytes                  -- "\n".join(f"{k}: {v}")
  marked : Bytes
  comment : Bytes
  error : Bool
  replay : Replay                   -- is_replay: None / "request" / "response" / anything else

/-- how a regex is handed to the engine -/
structure RxSpec where
  pattern : Str
  bin : Bool            -- compiled from `expr.encode()` (bytes pattern) or from the str
  ignorecase : Bool
  multiline : Bool
  dotall : Bool

def specOf (code : Str) (pattern : Str) : RxSpec :=
  { pattern := pattern
    bin := Gen.rexBin.contains code
    ignorecase := Gen.ignoreCase
    multiline := Gen.rexMultiline.contains code
    dotall := Gen.rexDotall.contains code }

/-- the fixed, case-sensitive patterns of `FAsset.ASSET_TYPES` -/
def assetSpec (p : Str) : RxSpec :=
  { pattern := p, bin := true, ignorecase := false, multiline := false, dotall := false }

def bodySubj (dec : Str → Bytes → Option Bytes) : Option HMsg → List Bytes
  | some h => (searched dec h.body).toList
  | none => []

def ctOf : Option HMsg → List Bytes
  | some h => h.ctValues
  | none => []

def hdrOf : Option HMsg → List Bytes
  | some h => [h.hdrBlock]
  | none => []

def wsPart (f : FlowView) (p : DirMsg → Bool) : List Bytes :=
  match f.ws with
  | some l => (l.filter p).map (·.content)
  | none => []

def msgPart (f : FlowView) (p : DirMsg → Bool) : List Bytes := (f.msgs.filter p).map (·.content)

def isHttp (f : FlowView) : Bool := f.kind == FKind.http
def isStream (f : FlowView) : Bool := f.kind == FKind.tcp || f.kind == FKind.udp
def isDns (f : FlowView) : Bool := f.kind == FKind.dns

/-- the byte strings operator `~code` searches on flow `f` -/
def leafReads (dec : Str → Bytes → Option Bytes) (code : Str) (f : FlowView) : List Bytes :=
  if code = ['b'] then
    if isHttp f then bodySubj dec f.req ++ bodySubj dec f.resp ++ wsPart f (fun _ => true)
    else if isStream f then msgPart f (fun _ => true)
    else if isDns f then f.dnsReq.toList ++ f.dnsResp.toList
    else []
  else if code = ['b', 'q'] then
    if isHttp f then bodySubj dec f.req ++ wsPart f (·.fromClient)
    else if isStream f then msgPart f (·.fromClient)
    else if isDns f then f.dnsReq.toList
    else []
  else if code = ['b', 's'] then
    if isHttp f then bodySubj dec f.resp ++ wsPart f (fun m => !m.fromClient)
    else if isStream f then msgPart f (fun m => !m.fromClient)
    else if isDns f then f.dnsResp.toList
    else []
  else if code = ['t'] then (if isHttp f then ctOf f.req ++ ctOf f.resp else [])
  else if code = ['t', 'q'] then (if isHttp f then ctOf f.req else [])
  else if code = ['t', 's'] then (if isHttp f then ctOf f.resp else [])
  else if code = ['h'] then (if isHttp f then hdrOf f.req ++ hdrOf f.resp else [])
  else if code = ['h', 'q'] then (if isHttp f then hdrOf f.req else [])
  else if code = ['h', 's'] then (if isHttp f then hdrOf f.resp else [])
  else if code = ['m'] then (if isHttp f then [f.method] else [])
  else if code = ['d'] then (if isHttp f then [f.host, f.prettyHost] else [])
  else if code = ['u'] then
    if isHttp f then (if f.req.isSome then [f.prettyUrl] else [])
    else if isDns f then (if f.dnsReq.isSome then f.dnsQName.toList else [])
    else []
  else if code = ['s', 'r', 'c'] then f.src.toList
  else if code = ['d', 's', 't'] then f.dst.toList
  else if code = ['m', 'e', 't', 'a'] then [f.metaText]
  else if code = ['m', 'a', 'r', 'k', 'e', 'r'] then (if f.marked = [] then [] else [f.marked])
  else if code = ['c', 'o', 'm', 'm', 'e', 'n', 't'] then [f.comment]
  else []

/-- a regex leaf: the regex (compiled with the operator's flags) matches one of the subjects -/
def rexV (search : RxSpec → Bytes → Bool) (dec : Str → Bytes → Option Bytes) (code arg : Str) (f : FlowView) : Bool :=
  (leafReads dec code f).any (search (specOf code arg))

def hasResp (f : FlowView) : Bool :=
  if isHttp f then f.resp.isSome else if isDns f then f.dnsResp.isSome else false

/-- the unary operators -/
def unaryV (search : RxSpec → Bytes → Bool) (code : Str) (f : FlowView) : Bool :=
  if code = ['a'] then
    isHttp f && (ctOf f.resp).any (fun v => Gen.assetPatterns.any (fun p => search (assetSpec p) v))
  else if code = ['e'] then f.error
  else if code = ['h', 't', 't', 'p'] then isHttp f
  else if code = ['m', 'a', 'r', 'k', 'e', 'd'] then !(f.marked == [])
  else if code = ['r', 'e', 'p', 'l', 'a', 'y'] then !(f.replay == Replay.none)
  else if code = ['r', 'e', 'p', 'l', 'a', 'y', 'q'] then f.replay == Replay.request
  else if code = ['r', 'e', 'p', 'l', 'a', 'y', 's'] then f.replay == Replay.response
  else if code = ['q'] then (isHttp f || isDns f) && !hasResp f
  else if code = ['s'] then (isHttp f || isDns f) && hasResp f
  else if code = ['t', 'c', 'p'] then f.kind == FKind.tcp
  else if code = ['u', 'd', 'p'] then f.kind == FKind.udp
  else if code = ['d', 'n', 's'] then isDns f
  else if code = ['w', 'e', 'b', 's', 'o', 'c', 'k', 'e', 't'] then isHttp f && f.ws.isSome
  else if code = ['a', 'l', 'l'] then true
  else false

/-- `~c n` -/
def intV (code : Str) (n : Nat) (f : FlowView) : Bool :=
  code == ['c'] && isHttp f && f.resp.isSome && f.status == n

/-- the documented table as a leaf semantics for `eval` -/
def docSem (search : RxSpec → Bytes → Bool) (dec : Str → Bytes → Option Bytes) : Sem FlowView :=
  { unary := unaryV search, rex := rexV search dec, int := intV }

end MitmVerif.C42
