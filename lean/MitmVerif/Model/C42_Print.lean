/-
  C42 — a total canonical printer for filter trees, and the set of trees the grammar can express.

  `print t` writes ANY tree down in the documented grammar: `~code` for every leaf (a naked regex is written `~u …`),
  the argument unquoted when it is a non-empty word free of reserved characters and otherwise in double quotes with
  `\"`, `\\`, `\n`, `\r` escaped (every string is expressible that way, the empty one included), numbers in decimal,
  `!x`, `x & y & …`, `x | y | …` with parentheses exactly where precedence demands them (`&`-runs stand directly
  under `|`; any other composite operand is parenthesised).  It is defined through the concrete syntax of
  Model/C42_Spec.lean: `print t = (pr 3 [] t).render`.

  `Printable t` is what the grammar can express at all: codes from the tables, conjunctions/disjunctions with at
  least two members.  (Props/C42.lean proves it is exactly the range of the parser.)
-/
import MitmVerif.Model.C42_Spec
namespace MitmVerif.C42

def digitChar : Nat → Char
  | 0 => '0' | 1 => '1' | 2 => '2' | 3 => '3' | 4 => '4' | 5 => '5' | 6 => '6' | 7 => '7' | 8 => '8' | _ => '9'

/-- decimal digits, least significant first; fuel ≥ n suffices -/
def revDigits : Nat → Nat → Str
  | 0, n => [digitChar (n % 10)]
  | f + 1, n => if n < 10 then [digitChar n] else digitChar (n % 10) :: revDigits f (n / 10)

def natDigits (n : Nat) : Str := (revDigits n n).reverse

/-- one character inside double quotes -/
def itemOf (c : Char) : QItem :=
  if c = '"' ∨ c = '\\' then .esc c
  else if c = '\n' then .esc 'n'
  else if c = '\r' then .esc 'r'
  else .raw c

def allWordChB : Str → Bool
  | [] => true
  | c :: s => isWordCh c && allWordChB s

/-- may be written without quotes -/
def wordOk (a : Str) : Bool :=
  match a with
  | [] => false
  | _ :: _ => allWordChB a

def argOf (a : Str) : Arg := if wordOk a then .word a else .quoted '"' (a.map itemOf)

mutual
/-- `t` written at precedence level `lvl` (1 operand of `!`/`&`, 2 member of `|`, 3 whole expression), `w` in front -/
def pr (lvl : Nat) (w : Str) : Ast → C
  | .unary c => .atom w (.unary c)
  | .rex c a => .atom w (.rex c [' '] (argOf a))
  | .int c n => .atom w (.int c [' '] (natDigits n))
  | .not t => .not w (pr 1 [] t)
  | .and l => if 2 ≤ lvl then prL .and w l else .group w (prL .and [] l) []
  | .or l => if 3 ≤ lvl then prL .or w l else .group w (prL .or [] l) []
def prL (kd : Kind) (w : Str) : List Ast → C
  | [] => .atom w (.unary [])
  | t :: r => .chain kd (pr (kd.level - 1) w t) (prRest kd r)
def prRest (kd : Kind) : List Ast → CL
  | [] => .nil
  | t :: r => .cons [' '] (pr (kd.level - 1) [' '] t) (prRest kd r)
end

/-- the canonical text of a tree -/
def print (t : Ast) : Str := (pr 3 [] t).render

mutual
/-- the trees the grammar can express -/
def Printable : Ast → Prop
  | .unary c => c ∈ Gen.unaryCodes
  | .rex c _ => c ∈ Gen.rexCodes
  | .int c _ => c ∈ Gen.intCodes
  | .not t => Printable t
  | .and l => 2 ≤ l.length ∧ PrintableL l
  | .or l => 2 ≤ l.length ∧ PrintableL l
def PrintableL : List Ast → Prop
  | [] => True
  | t :: l => Printable t ∧ PrintableL l
end

end MitmVerif.C42
