/-
  C42 — the documented grammar as a *concrete syntax*: every way an expression tree may be written down.

  `C` is an expression together with all layout choices: the white space in front of every token, redundant
  parentheses (`group` around anything), a conjunction written with `&` or by juxtaposition, arguments written
  unquoted or in either kind of quotes with escapes, leading zeros of a number.  `render` prints it, `ast` is the
  tree it denotes, `WF` says the layout is one the documentation allows:

    * operator codes come from the tables; a code and its argument are separated by white space;
    * an unquoted argument is non-empty and free of the reserved characters `( ) ~ ' "` and white space
      (filters.md: such regexes "must be quoted"); a naked unquoted regex does not begin with `!`, `&`, `|`
      ("strings with no operators are matched against the URL"); an unquoted argument is followed by white space,
      `)` or the end (the word is read up to the next reserved character);
    * in quotes: the quote, the backslash, CR and LF are escaped (`\q`, `\\`, `\r`, `\n`); TAB/FF may be written
      raw or as `\t`/`\f`; any non-alphanumeric character may carry a redundant backslash;
    * `!x` with x a negation, an operand or a group; `x & y & …` over those; `x | y | …` over `&`-runs;
      juxtaposition (separated by white space) over `|`-runs — anything else needs parentheses;
      a parenthesised group holds any expression.
-/
import MitmVerif.Model.C42
namespace MitmVerif.C42

/-- one character of a quoted argument as written -/
inductive QItem where
  | raw (c : Char)     -- `c`
  | esc (c : Char)     -- `\c`

def QItem.render : QItem → Str
  | .raw c => [c]
  | .esc c => ['\\', c]

def QItem.value : QItem → Char
  | .raw c => c
  | .esc c => escChar c

/-- `\t \n \f \r`, or a redundant backslash before a non-alphanumeric character (not a raw newline) -/
def QItem.WF (q : Char) : QItem → Prop
  | .raw c => c ≠ q ∧ c ≠ '\\' ∧ c ≠ '\n' ∧ c ≠ '\r'
  | .esc c => (c = 't' ∨ c = 'n' ∨ c = 'f' ∨ c = 'r') ∨ (isAlnum c = false ∧ c ≠ '\n')

def renderItems : List QItem → Str
  | [] => []
  | i :: l => i.render ++ renderItems l

def valueItems : List QItem → Str
  | [] => []
  | i :: l => i.value :: valueItems l

def ItemsWF (q : Char) : List QItem → Prop
  | [] => True
  | i :: l => i.WF q ∧ ItemsWF q l

/-- an argument as written -/
inductive Arg where
  | word (a : Str)
  | quoted (q : Char) (items : List QItem)

def AllWordCh : Str → Prop
  | [] => True
  | c :: s => isWordCh c = true ∧ AllWordCh s

def AllWs : Str → Prop
  | [] => True
  | c :: s => isWs c = true ∧ AllWs s

def AllDigit : Str → Prop
  | [] => True
  | c :: s => isDigit c = true ∧ AllDigit s

def Arg.render : Arg → Str
  | .word a => a
  | .quoted q items => q :: (renderItems items ++ [q])

def Arg.value : Arg → Str
  | .word a => a
  | .quoted _ items => valueItems items

def Arg.WF : Arg → Prop
  | .word a => a ≠ [] ∧ AllWordCh a
  | .quoted q items => (q = '"' ∨ q = '\'') ∧ ItemsWF q items

def Arg.isWord : Arg → Bool
  | .word _ => true
  | .quoted _ _ => false

/-- a leaf as written -/
inductive AtomC where
  | unary (code : Str)
  | rex (code : Str) (w : Str) (a : Arg)       -- `~code`, white space, argument
  | bare (a : Arg)                              -- a naked regex
  | int (code : Str) (w : Str) (digits : Str)   -- `~code`, white space, decimal digits (leading zeros allowed)

def AtomC.render : AtomC → Str
  | .unary c => '~' :: c
  | .rex c w a => '~' :: (c ++ (w ++ a.render))
  | .bare a => a.render
  | .int c w d => '~' :: (c ++ (w ++ d))

def AtomC.ast : AtomC → Ast
  | .unary c => .unary c
  | .rex c _ a => .rex c a.value
  | .bare a => .rex Gen.bareCode a.value
  | .int c _ d => .int c (digitsVal d)

def notOpStart : Str → Prop
  | [] => True
  | c :: _ => c ≠ '!' ∧ c ≠ '&' ∧ c ≠ '|'

def AtomC.WF : AtomC → Prop
  | .unary c => c ∈ Gen.unaryCodes
  | .rex c w a => c ∈ Gen.rexCodes ∧ w ≠ [] ∧ AllWs w ∧ a.WF
  | .bare a => a.WF ∧ (a.isWord = true → notOpStart a.render)
  | .int c w d => c ∈ Gen.intCodes ∧ w ≠ [] ∧ AllWs w ∧ d ≠ [] ∧ AllDigit d

/-- the leaf ends in an unquoted word (which must then be delimited) -/
def AtomC.endsWord : AtomC → Bool
  | .unary _ => false
  | .rex _ _ a => a.isWord
  | .bare a => a.isWord
  | .int _ _ _ => false

inductive Kind where
  | and | or | juxt
deriving DecidableEq

mutual
/-- an expression as written; every token is preceded by its white space -/
inductive C where
  | atom (w : Str) (a : AtomC)
  | group (w1 : Str) (e : C) (w2 : Str)        -- w1 `(` e w2 `)`
  | not (w : Str) (e : C)                      -- w `!` e
  | chain (k : Kind) (first : C) (rest : CL)   -- first (w op item)+   /  first (w item)+ for juxtaposition
inductive CL where
  | nil
  | cons (w : Str) (e : C) (rest : CL)
end

def Kind.level : Kind → Nat
  | .and => 2 | .or => 3 | .juxt => 4

def Kind.op : Kind → Option Char
  | .and => some '&' | .or => some '|' | .juxt => none

def Kind.opStr : Kind → Str
  | .and => ['&'] | .or => ['|'] | .juxt => []

def Kind.mk : Kind → List Ast → Ast
  | .and => Ast.and | .or => Ast.or | .juxt => Ast.and

/-- precedence level of the outermost construct: 0 operand, 1 `!`, 2 `&`, 3 `|`, 4 juxtaposition -/
def C.level : C → Nat
  | .atom _ _ => 0
  | .group _ _ _ => 0
  | .not _ _ => 1
  | .chain k _ _ => k.level

mutual
def C.render : C → Str
  | .atom w a => w ++ a.render
  | .group w1 e w2 => w1 ++ ('(' :: (e.render ++ (w2 ++ [')'])))
  | .not w e => w ++ ('!' :: e.render)
  | .chain k f r => f.render ++ r.render k
def CL.render : CL → Kind → Str
  | .nil, _ => []
  | .cons w e r, k => w ++ (k.opStr ++ (e.render ++ r.render k))
end

mutual
def C.ast : C → Ast
  | .atom _ a => a.ast
  | .group _ e _ => e.ast
  | .not _ e => .not e.ast
  | .chain k f r => k.mk (f.ast :: r.asts)
def CL.asts : CL → List Ast
  | .nil => []
  | .cons _ e r => e.ast :: r.asts
end

mutual
def C.endsWord : C → Bool
  | .atom _ a => a.endsWord
  | .group _ _ _ => false
  | .not _ e => e.endsWord
  | .chain _ f r => r.endsWord f.endsWord
/-- does the run end in an unquoted word, given whether what precedes it does -/
def CL.endsWord : CL → Bool → Bool
  | .nil, b => b
  | .cons _ e r, _ => r.endsWord e.endsWord
end

def CL.isNil : CL → Bool
  | .nil => true
  | .cons _ _ _ => false

mutual
def C.WF : C → Prop
  | .atom w a => AllWs w ∧ a.WF
  | .group w1 e w2 => AllWs w1 ∧ AllWs w2 ∧ e.WF
  | .not w e => AllWs w ∧ e.level ≤ 1 ∧ e.WF
  | .chain k f r => f.level < k.level ∧ f.WF ∧ r.isNil = false ∧ r.WF k f.endsWord
/-- `prev`: the item before this run ends in an unquoted word (then white space must precede the operator);
juxtaposed items are always separated by white space -/
def CL.WF : CL → Kind → Bool → Prop
  | .nil, _, _ => True
  | .cons w e r, k, prev =>
    AllWs w ∧ ((prev = true ∨ k = Kind.juxt) → w ≠ []) ∧ e.level < k.level ∧ e.WF ∧ r.WF k e.endsWord
end

/-- `s` is one of the documented ways of writing the tree `t` (optionally followed by white space) -/
def Renders (t : Ast) (s : Str) : Prop :=
  ∃ (e : C) (w : Str), e.WF ∧ AllWs w ∧ e.ast = t ∧ s = e.render ++ w

/-! ### `WF` is decidable (the driver checks the layouts the harness generates against this very predicate) -/

def decAll (p : Char → Bool) (P : Str → Prop) (hnil : P []) (hcons : ∀ c s, P (c :: s) ↔ (p c = true ∧ P s)) :
    (s : Str) → Decidable (P s)
  | [] => isTrue hnil
  | c :: s =>
    match decAll p P hnil hcons s with
    | isTrue h2 => if h1 : p c = true then isTrue ((hcons c s).2 ⟨h1, h2⟩) else isFalse (fun h => h1 ((hcons c s).1 h).1)
    | isFalse h2 => isFalse (fun h => h2 ((hcons c s).1 h).2)

instance (s : Str) : Decidable (AllWs s) := decAll isWs AllWs trivial (fun _ _ => Iff.rfl) s
instance (s : Str) : Decidable (AllWordCh s) := decAll isWordCh AllWordCh trivial (fun _ _ => Iff.rfl) s
instance (s : Str) : Decidable (AllDigit s) := decAll isDigit AllDigit trivial (fun _ _ => Iff.rfl) s

instance (q : Char) : (i : QItem) → Decidable (i.WF q)
  | .raw c => inferInstanceAs (Decidable (c ≠ q ∧ c ≠ '\\' ∧ c ≠ '\n' ∧ c ≠ '\r'))
  | .esc c => inferInstanceAs (Decidable ((c = 't' ∨ c = 'n' ∨ c = 'f' ∨ c = 'r') ∨ (isAlnum c = false ∧ c ≠ '\n')))

def decItems (q : Char) : (l : List QItem) → Decidable (ItemsWF q l)
  | [] => isTrue trivial
  | i :: l =>
    match decItems q l with
    | isTrue h2 => if h1 : i.WF q then isTrue ⟨h1, h2⟩ else isFalse (fun h => h1 h.1)
    | isFalse h2 => isFalse (fun h => h2 h.2)
instance (q : Char) (l : List QItem) : Decidable (ItemsWF q l) := decItems q l

instance : (s : Str) → Decidable (notOpStart s)
  | [] => isTrue trivial
  | c :: _ => inferInstanceAs (Decidable (c ≠ '!' ∧ c ≠ '&' ∧ c ≠ '|'))

instance : (a : Arg) → Decidable a.WF
  | .word a => inferInstanceAs (Decidable (a ≠ [] ∧ AllWordCh a))
  | .quoted q items => inferInstanceAs (Decidable ((q = '"' ∨ q = '\'') ∧ ItemsWF q items))

instance : (a : AtomC) → Decidable a.WF
  | .unary c => inferInstanceAs (Decidable (c ∈ Gen.unaryCodes))
  | .rex c w a => inferInstanceAs (Decidable (c ∈ Gen.rexCodes ∧ w ≠ [] ∧ AllWs w ∧ a.WF))
  | .bare a => inferInstanceAs (Decidable (a.WF ∧ (a.isWord = true → notOpStart a.render)))
  | .int c w d => inferInstanceAs (Decidable (c ∈ Gen.intCodes ∧ w ≠ [] ∧ AllWs w ∧ d ≠ [] ∧ AllDigit d))

mutual
def C.decWF : (e : C) → Decidable e.WF
  | .atom w a => inferInstanceAs (Decidable (AllWs w ∧ a.WF))
  | .group w1 e w2 =>
    have := C.decWF e
    inferInstanceAs (Decidable (AllWs w1 ∧ AllWs w2 ∧ e.WF))
  | .not w e =>
    have := C.decWF e
    inferInstanceAs (Decidable (AllWs w ∧ e.level ≤ 1 ∧ e.WF))
  | .chain k f r =>
    have := C.decWF f
    have := CL.decWF r k f.endsWord
    inferInstanceAs (Decidable (f.level < k.level ∧ f.WF ∧ r.isNil = false ∧ r.WF k f.endsWord))
def CL.decWF : (l : CL) → (k : Kind) → (prev : Bool) → Decidable (l.WF k prev)
  | .nil, _, _ => isTrue trivial
  | .cons w e r, k, prev =>
    have := C.decWF e
    have := CL.decWF r k e.endsWord
    inferInstanceAs (Decidable (AllWs w ∧ ((prev = true ∨ k = Kind.juxt) → w ≠ []) ∧ e.level < k.level ∧ e.WF ∧ r.WF k e.endsWord))
end
instance (e : C) : Decidable e.WF := C.decWF e

end MitmVerif.C42
