/-
  C43 — the four sort keys (`OrderRequestStart/Method/URL/KeySize.generate` in mitmproxy/addons/view.py) as code.

  `FlowData` is what these functions read of a flow of each type.  Strings are byte strings (UTF-8); Python compares
  `str` by code point, which is the byte-wise lexicographic order of the UTF-8 encodings.  `request.url`,
  `human.format_address(server_conn.address)` and `dns.Message.size` are library values and enter as data.
-/
import MitmVerif.Basic.Bytes
namespace MitmVerif.C43

inductive FlowData where
  /-- HTTPFlow: timestamp_created, request.method, request.url, len(request.raw_content) (none: no content),
      response (none: no response; some none: response without content) -/
  | http (ts : Nat) (method : Bytes) (url : Bytes) (reqLen : Option Nat) (resp : Option (Option Nat))
  /-- TCPFlow / UDPFlow: timestamp_created, which of the two, format_address(server_conn.address), len of every message -/
  | stream (ts : Nat) (isTcp : Bool) (addr : Bytes) (msgLens : List Nat)
  /-- DNSFlow: timestamp_created, request.op_code, questions[0].name (none: no question), response.size (none: no response) -/
  | dns (ts : Nat) (opcode : Nat) (qname : Option Bytes) (respSize : Option Nat)
deriving Repr

inductive SortKey where
  | num (n : Nat)
  | str (b : Bytes)
deriving DecidableEq, Repr

def natDigits (n : Nat) : Bytes := (Nat.toDigits 10 n).map (fun c => UInt8.ofNat c.toNat)

/-- `dns.op_codes.to_str` (ASCII codes of QUERY, IQUERY, STATUS, NOTIFY, UPDATE, DSO, `OPCODE(n)`) -/
def opcodeStr (c : Nat) : Bytes :=
  if c = 0 then [81, 85, 69, 82, 89]
  else if c = 1 then [73, 81, 85, 69, 82, 89]
  else if c = 2 then [83, 84, 65, 84, 85, 83]
  else if c = 4 then [78, 79, 84, 73, 70, 89]
  else if c = 5 then [85, 80, 68, 65, 84, 69]
  else if c = 6 then [68, 83, 79]
  else [79, 80, 67, 79, 68, 69, 40] ++ natDigits c ++ [41]

def FlowData.ts : FlowData → Nat
  | .http ts .. => ts
  | .stream ts .. => ts
  | .dns ts .. => ts

/-- `generate` of the order in `slot` (0/1 time, 2 method, 3 url, 4 size) -/
def genKey (slot : Nat) (d : FlowData) : SortKey :=
  if slot ≤ 1 then .num d.ts
  else if slot = 2 then
    match d with
    | .http _ m _ _ _ => .str m
    | .stream _ isTcp _ _ => .str (if isTcp then [84, 67, 80] else [85, 68, 80])   -- f.type.upper()
    | .dns _ c _ _ => .str (opcodeStr c)
  else if slot = 3 then
    match d with
    | .http _ _ u _ _ => .str u
    | .stream _ _ a _ => .str a
    | .dns _ _ q _ => .str (q.getD [])
  else
    match d with
    | .http _ _ _ rq rs => .num (rq.getD 0 + (match rs with | some (some n) => n | _ => 0))
    | .stream _ _ _ ls => .num ls.sum
    | .dns _ _ _ r => .num (r.getD 0)

/-- byte-wise lexicographic `≤` -/
def lexLe : Bytes → Bytes → Bool
  | [], _ => true
  | _ :: _, [] => false
  | a :: as, b :: bs => if a < b then true else if b < a then false else lexLe as bs

/-- Python's `<=` between two keys of the same order (keys of different kinds never meet) -/
def SortKey.le : SortKey → SortKey → Bool
  | .num a, .num b => a ≤ b
  | .str a, .str b => lexLe a b
  | _, _ => false

def SortKey.isNum : SortKey → Bool
  | .num _ => true
  | .str _ => false

end MitmVerif.C43
