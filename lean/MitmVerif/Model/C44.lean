/-
  C44 — option updates are transactional, typed and survive a config round-trip.
  Model of `mitmproxy.optmanager.OptManager` (add_option, subscribe / changed.connect,
  update_known + rollback, update, update_defer, set + _parse_setval, process_deferred, reset),
  of `typecheck.check_option_type` for the six option types, and of `serialize` / `load`
  with the YAML library as a parameter (`Yaml`, law `parse (dump d) = some d`).

  Values: Python values are `Val` (an atom or a list of atoms); `Atom.other` stands for every
  value that is of none of the option types (float, dict, nested list, …).
  `_Option.value`/`unset` is folded into `cur` (= `_Option.current()`), the only way the code reads it.
  Option names are numbers (the harness maps them to identifiers).
-/
import MitmVerif.Basic.Bytes
import MitmVerif.Gen.C44
import MitmVerif.Model.C35_Str
namespace MitmVerif.C44

abbrev Name := Nat

inductive Ty | bool | str | int | optStr | optInt | seqStr
  deriving DecidableEq, Repr

inductive Atom
  | b (x : Bool) | s (x : Bytes) | i (x : Int) | none | other
  deriving DecidableEq

inductive Val
  | a (x : Atom) | seq (xs : List Atom)
  deriving DecidableEq

def Atom.isStr : Atom → Bool
  | .s _ => true
  | _ => false

/-- `isinstance(value, T)` for the scalar option types; `bool` is a subclass of `int` in Python. -/
def atomOk : Ty → Atom → Bool
  | .bool, .b _ => true
  | .str, .s _ => true
  | .int, .i _ => true
  | .int, .b _ => true
  | .optStr, .s _ => true
  | .optStr, .none => true
  | .optInt, .i _ => true
  | .optInt, .b _ => true
  | .optInt, .none => true
  | _, _ => false

/-- `typecheck.check_option_type(name, value, typespec)` does not raise -/
def typeOk : Ty → Val → Bool
  | .seqStr, .seq xs => xs.all Atom.isStr
  | .seqStr, .a _ => false
  | _, .seq _ => false
  | t, .a x => atomOk t x

/-- Python `==` identifies `True`/`1` and `False`/`0`: compare after this normalisation -/
def Atom.norm : Atom → Atom
  | .b x => .i (if x then 1 else 0)
  | x => x

def Val.norm : Val → Val
  | .a x => .a x.norm
  | .seq xs => .seq (xs.map Atom.norm)

def pyEq (x y : Val) : Bool := x.norm == y.norm

/-- Python truthiness (`not o.current()` in the `toggle` branch of `_parse_setval`) -/
def truthy : Val → Bool
  | .a (.b x) => x
  | .a (.s x) => !x.isEmpty
  | .a (.i x) => x != 0
  | .a .none => false
  | .a .other => true
  | .seq xs => !xs.isEmpty

structure Opt where
  ty : Ty
  dflt : Val
  cur : Val
  deriving DecidableEq

def Opt.hasChanged (o : Opt) : Bool := !pyEq o.cur o.dflt

/-- `OptManager._options`: an insertion-ordered dict -/
abbrev Store := List (Name × Opt)

def hasKey (s : Store) (k : Name) : Bool := s.any (·.1 == k)

def lookup (s : Store) (k : Name) : Option Opt := (s.find? (·.1 == k)).map (·.2)

/-- `_options[k].set(v)` after the type check -/
def setVal (s : Store) (k : Name) (v : Val) : Store :=
  s.map fun p => if p.1 == k then (p.1, { p.2 with cur := v }) else p

/-- `_options[k] = o` (replace in place, or append) -/
def insertOpt : Store → Name → Opt → Store
  | [], k, o => [(k, o)]
  | p :: r, k, o => if p.1 == k then (k, o) :: r else p :: insertOpt r k o

/-! ### listeners -/

/-- A receiver of `changed`: `filter = some names` for `subscribe(func, names)`, `none` for
    `changed.connect(func)`. `rejects opts updated` = the callable raises `OptionsError`. -/
structure Listener where
  id : Nat
  filter : Option (List Name)
  rejects : Store → List Name → Bool
  /-- a component deriving options: `some kw` = the handler calls `opts.update(**kw)` from inside (nested update) -/
  act : Store → List Name → Option (List (Name × Val)) := fun _ _ => none

/-- one call of a listener: who, the option values it could read, the `updated` argument -/
structure Obs where
  who : Nat
  seen : Store
  updated : List Name
  deriving DecidableEq

def concerned (l : Listener) (updated : List Name) : Bool :=
  match l.filter with
  | none => true
  | some ns => ns.any (updated.contains ·)

/-- `changed.send(updated=…)`: receivers run in order; the first `OptionsError` aborts the send.
    Result: the calls made, and whether one raised. -/
def notify (s : Store) (updated : List Name) : List Listener → List Obs × Bool
  | [] => ([], false)
  | l :: ls =>
    if concerned l updated then
      if l.rejects s updated then ([⟨l.id, s, updated⟩], true)
      else
        let r := notify s updated ls
        (⟨l.id, s, updated⟩ :: r.1, r.2)
    else notify s updated ls

/-! ### state and operations -/

/-- a deferred value: typed (from `update_defer`) or `_UnconvertedStrings` (from `set(defer=True)`) -/
inductive DVal
  | typed (v : Val)
  | unconv (vs : List (List Nat))

structure St where
  opts : Store
  deferred : List (Name × DVal)
  subs : List Listener       -- `_subscriptions` (served by `_notify_subscribers`, the first receiver)
  direct : List Listener     -- further receivers connected to `changed`

def St.empty : St := ⟨[], [], [], []⟩

def St.listeners (st : St) : List Listener := st.subs ++ st.direct

inductive Outcome | ok | typeError | optionsError | keyError | attributeError | valueError | runtimeError
  deriving DecidableEq, Repr

structure Res where
  st : St
  out : Outcome
  obs : List Obs
  unknown : List (Name × Val) := []

/-- every value passes the type check of (every) option of that name -/
def allTyped (s : Store) (known : List (Name × Val)) : Bool :=
  known.all fun kv => s.all fun p => p.1 != kv.1 || typeOk p.2.ty kv.2

def assign (s : Store) : List (Name × Val) → Store
  | [] => s
  | kv :: r => assign (setVal s kv.1 kv.2) r

/-- `OptManager.update_known(**kw)` (with the validate-first repair of F-C44a) -/
def updateKnown (st : St) (kw : List (Name × Val)) : Res :=
  let known := kw.filter (fun kv => hasKey st.opts kv.1)
  let unknown := kw.filter (fun kv => !hasKey st.opts kv.1)
  if known.isEmpty then ⟨st, .ok, [], unknown⟩
  else if !allTyped st.opts known then ⟨st, .typeError, [], []⟩
  else
    let updated := known.map (·.1)
    let new := assign st.opts known
    let r1 := notify new updated st.listeners
    if !r1.2 then ⟨{ st with opts := new }, .ok, r1.1, unknown⟩
    else
      -- rollback: errored.send, restore the snapshot, changed.send(updated) again, re-raise
      let r2 := notify st.opts updated st.listeners
      ⟨st, .optionsError, r1.1 ++ r2.1, []⟩

/-- `OptManager.update(**kw)`; `__setattr__` is `update` with one pair -/
def update (st : St) (kw : List (Name × Val)) : Res :=
  let r := updateKnown st kw
  if r.out == .ok && !r.unknown.isEmpty then { r with out := .keyError } else r

def dictSet {β : Type} : List (Name × β) → Name → β → List (Name × β)
  | [], k, v => [(k, v)]
  | p :: r, k, v => if p.1 == k then (k, v) :: r else p :: dictSet r k v

def dictUpdate {β : Type} (d : List (Name × β)) (kvs : List (Name × β)) : List (Name × β) :=
  kvs.foldl (fun d kv => dictSet d kv.1 kv.2) d

/-- `OptManager.update_defer(**kw)` -/
def updateDefer (st : St) (kw : List (Name × Val)) : Res :=
  let r := updateKnown st kw
  if r.out == .ok then
    { r with st := { r.st with deferred := dictUpdate r.st.deferred (r.unknown.map fun kv => (kv.1, DVal.typed kv.2)) } }
  else r

/-- `OptManager.add_option(name, typespec, default, …)` -/
def addOption (st : St) (n : Name) (ty : Ty) (d : Val) : Res :=
  if !typeOk ty d then ⟨st, .typeError, [], []⟩
  else
    let opts := insertOpt st.opts n ⟨ty, d, d⟩
    let r := notify opts [n] st.listeners
    ⟨{ st with opts := opts }, if r.2 then .optionsError else .ok, r.1, []⟩

/-- `OptManager.subscribe(func, opts)` -/
def subscribe (st : St) (l : Listener) : Res :=
  match l.filter with
  | some ns =>
    if ns.all (hasKey st.opts) then ⟨{ st with subs := st.subs ++ [l] }, .ok, [], []⟩
    else ⟨st, .optionsError, [], []⟩
  | none => ⟨{ st with direct := st.direct ++ [l] }, .ok, [], []⟩

/-- `OptManager.reset()` — not wrapped in `rollback` -/
def reset (st : St) : Res :=
  let opts := st.opts.map fun p => (p.1, { p.2 with cur := p.2.dflt })
  let r := notify opts (opts.map (·.1)) st.listeners
  ⟨{ st with opts := opts }, if r.2 then .optionsError else .ok, r.1, []⟩

/-! ### `set` specs -/

/-- a Python `str` as it arrives in a `set` spec: code points -/
abbrev PyStr := List Nat

def utf8Char (c : Nat) : Bytes :=
  if c < 0x80 then [UInt8.ofNat c]
  else if c < 0x800 then [UInt8.ofNat (0xc0 + c / 64), UInt8.ofNat (0x80 + c % 64)]
  else if c < 0x10000 then [UInt8.ofNat (0xe0 + c / 4096), UInt8.ofNat (0x80 + c / 64 % 64), UInt8.ofNat (0x80 + c % 64)]
  else [UInt8.ofNat (0xf0 + c / 262144), UInt8.ofNat (0x80 + c / 4096 % 64), UInt8.ofNat (0x80 + c / 64 % 64),
        UInt8.ofNat (0x80 + c % 64)]

/-- option values hold strings as UTF-8 -/
def utf8 (s : PyStr) : Bytes := s.flatMap utf8Char

/-- `Py_UNICODE_TODECIMAL`: ASCII digits and every Unicode Nd character (blocks of ten, `Gen.C44.digitBlocks`) -/
def decDigit (c : Nat) : Option Nat :=
  if 48 ≤ c ∧ c ≤ 57 then some (c - 48)
  else if c < 128 then none
  else (Gen.C44.digitBlocks.find? (fun b => b ≤ c && c < b + 10)).map (c - ·)

/-- what `int()` skips around the number: ASCII `Py_ISSPACE` (TAB..CR, space) and the non-ASCII `str.isspace()`
    characters (`Gen.C44.spaces`); the ASCII separators 0x1c–0x1f are NOT skipped -/
def isIntSpace (c : Nat) : Bool := c == 32 || (9 ≤ c && c ≤ 13) || (c > 127 && Gen.C44.spaces.contains c)

/-- digits with single underscores between them; `last`: 0 = nothing yet, 1 = after a digit, 2 = after `_` -/
def digitsU : Nat → Nat → PyStr → Option (Nat × PyStr)
  | acc, last, [] => if last == 1 then some (acc, []) else none
  | acc, last, c :: r =>
    match decDigit c with
    | some d => digitsU (acc * 10 + d) 1 r
    | none =>
      if c == 95 then (if last == 1 then digitsU acc 2 r else none)
      else if last == 1 then some (acc, c :: r) else none

/-- Python `int(s)` for a `str` (base 10): optional surrounding whitespace, optional sign, decimal digits of any
    script with single underscores between digits. `none` = ValueError. -/
def pyInt (s : PyStr) : Option Int :=
  let s1 := s.dropWhile isIntSpace
  let (neg, s2) := match s1 with
    | 45 :: r => (true, r)
    | 43 :: r => (false, r)
    | r => (false, r)
  match digitsU 0 0 s2 with
  | some (n, rest) => if rest.all isIntSpace then some (if neg then - (Int.ofNat n) else Int.ofNat n) else none
  | none => none

def strToggle : PyStr := "toggle".toList.map Char.toNat
def strTrue : PyStr := "true".toList.map Char.toNat
def strFalse : PyStr := "false".toList.map Char.toNat

/-- `OptManager._parse_setval(o, values)`; `none` = OptionsError -/
def parseSetval (o : Opt) (values : List PyStr) : Option Val :=
  if o.ty = .seqStr then some (.seq (values.map fun v => Atom.s (utf8 v)))
  else if values.length > 1 then none
  else
    let optstr := values.head?
    match o.ty with
    | .str => optstr.map fun s => .a (.s (utf8 s))
    | .optStr => some (match optstr with | some s => .a (.s (utf8 s)) | none => .a .none)
    | .int =>
      match optstr with
      | some s => if s.isEmpty then none else (pyInt s).map fun n => .a (.i n)
      | none => none
    | .optInt =>
      match optstr with
      | some s => if s.isEmpty then some (.a .none) else (pyInt s).map fun n => .a (.i n)
      | none => some (.a .none)
    | .bool =>
      match optstr with
      | none => some (.a (.b true))
      | some s =>
        if s = strToggle then some (.a (.b (!truthy o.cur)))
        else if s.isEmpty ∨ s = strTrue then some (.a (.b true))
        else if s = strFalse then some (.a (.b false))
        else none
    | .seqStr => some (.seq (values.map fun v => Atom.s (utf8 v)))

/-- first stage of `set`: group the specs by option name (`name=value` appends, bare `name` only
    creates the entry) -/
def groupSpecs (specs : List (Name × Option PyStr)) : List (Name × List PyStr) :=
  specs.foldl (fun d sp =>
    let old := ((d.find? (·.1 == sp.1)).map (·.2)).getD []
    dictSet d sp.1 (match sp.2 with | some v => old ++ [v] | none => old)) []

def parseAll (s : Store) : List (Name × List PyStr) → Option (List (Name × Val))
  | [] => some []
  | (n, vs) :: r =>
    match lookup s n with
    | none => parseAll s r
    | some o =>
      match parseSetval o vs, parseAll s r with
      | some v, some rest => some ((n, v) :: rest)
      | _, _ => none

/-- `OptManager.set(*specs, defer=…)` -/
def setSpecs (st : St) (specs : List (Name × Option PyStr)) (defer : Bool) : Res :=
  let g := groupSpecs specs
  match parseAll st.opts g with
  | none => ⟨st, .optionsError, [], []⟩
  | some processed =>
    let unk := g.filter (fun p => !hasKey st.opts p.1)
    if defer then
      let st1 := { st with deferred := dictUpdate st.deferred (unk.map fun p => (p.1, DVal.unconv p.2)) }
      update st1 processed
    else if !unk.isEmpty then ⟨st, .optionsError, [], []⟩
    else update st processed

def deferredValues (s : Store) : List (Name × DVal) → Option (List (Name × Val))
  | [] => some []
  | (n, dv) :: r =>
    match lookup s n with
    | none => deferredValues s r
    | some o =>
      let v := match dv with
        | .typed v => some v
        | .unconv vs => parseSetval o vs
      match v, deferredValues s r with
      | some v, some rest => some ((n, v) :: rest)
      | _, _ => none

/-- `OptManager.process_deferred()` -/
def processDeferred (st : St) : Res :=
  match deferredValues st.opts st.deferred with
  | none => ⟨st, .optionsError, [], []⟩
  | some upd =>
    let r := update st upd
    if r.out == .ok then
      { r with st := { r.st with deferred := r.st.deferred.filter fun p => !(upd.any (·.1 == p.1)) } }
    else r

/-! ### histories -/

/-! ### `merge` (command-line values): None is skipped, a list is APPENDED to the option's current list -/

/-- the `toset` dict of `OptManager.merge(opts)`; errors: `getattr` of an unknown option (AttributeError),
    `current + list` when the current value is not a list (TypeError) -/
def mergeVals (s : Store) : List (Name × Val) → Except Outcome (List (Name × Val))
  | [] => .ok []
  | (k, v) :: r =>
    match v with
    | .a .none => mergeVals s r
    | .seq xs =>
      match lookup s k with
      | none => .error .attributeError
      | some o =>
        match o.cur with
        | .seq cur => (mergeVals s r).map ((k, Val.seq (cur ++ xs)) :: ·)
        | .a _ => .error .typeError
    | v => (mergeVals s r).map ((k, v) :: ·)

/-- `OptManager.merge(opts)` -/
def merge (st : St) (kvs : List (Name × Val)) : Res :=
  match mergeVals st.opts kvs with
  | .error e => ⟨st, e, [], []⟩
  | .ok toset => update st toset

/-! ### config-file paths: `optmanager.relative_path` (the `scripts` entries of a config file are made relative
    to that file by `load(opts, text, cwd)`), with the pathlib / posixpath pieces it is made of -/

def spanNotSlash : PyStr → PyStr × PyStr
  | [] => ([], [])
  | c :: r => if c == 47 then ([], c :: r) else (c :: (spanNotSlash r).1, (spanNotSlash r).2)

def rstripSlashP (s : PyStr) : PyStr := (s.reverse.dropWhile (· == 47)).reverse

/-- `posixpath.expanduser`; `home` = `$HOME` (or the current user's pw_dir), `pw` = the password database.
    `none` = ValueError (embedded NUL in the user name). The same function as `C45.expandUser`. -/
def expandUserP (home : Option PyStr) (pw : PyStr → Option PyStr) (p : PyStr) : Option PyStr :=
  match p with
  | 126 :: r =>
    let name := (spanNotSlash r).1
    let rest := (spanNotSlash r).2
    if name.isEmpty then
      match home with
      | none => some p
      | some h => let x := rstripSlashP h ++ rest; some (if x.isEmpty then [47] else x)
    else if name.contains 0 then none
    else
      match pw name with
      | none => some p
      | some h => let x := rstripSlashP h ++ rest; some (if x.isEmpty then [47] else x)
  | _ => some p

/-- a parsed `PurePosixPath`: root (`""`, `"/"` or `"//"`) and the components -/
structure PPath where
  root : PyStr
  parts : List PyStr
  deriving DecidableEq

def splitSlash : PyStr → List PyStr
  | [] => [[]]
  | c :: r =>
    if c == 47 then [] :: splitSlash r
    else match splitSlash r with
      | h :: t => (c :: h) :: t
      | [] => [[c]]

/-- `PurePosixPath(s)`: `posixpath.splitroot`, then the components that are neither empty nor `.` -/
def parsePath (s : PyStr) : PPath :=
  let rr : PyStr × PyStr :=
    match s with
    | 47 :: 47 :: 47 :: r => ([47], 47 :: 47 :: r)
    | 47 :: 47 :: r => ([47, 47], r)
    | 47 :: r => ([47], r)
    | r => ([], r)
  ⟨rr.1, (splitSlash rr.2).filter fun x => !x.isEmpty && x != [46]⟩

def joinParts : List PyStr → PyStr
  | [] => []
  | [a] => a
  | a :: r => a ++ 47 :: joinParts r

/-- `str(path)` -/
def PPath.str (p : PPath) : PyStr :=
  if !p.root.isEmpty then p.root ++ joinParts p.parts
  else if p.parts.isEmpty then [46] else joinParts p.parts

/-- `a / b` -/
def pjoin (a b : PPath) : PPath := if !b.root.isEmpty then b else ⟨a.root, a.parts ++ b.parts⟩

inductive PathErr | value | runtime      -- ValueError (NUL in a user name) / RuntimeError("Could not determine home directory.")
  deriving DecidableEq

/-- `Path.expanduser()` -/
def pExpandUser (home : Option PyStr) (pw : PyStr → Option PyStr) (p : PPath) : Except PathErr PPath :=
  if !p.root.isEmpty then .ok p
  else match p.parts with
    | [] => .ok p
    | f :: t =>
      if f.head? = some 126 then
        match expandUserP home pw f with
        | none => .error .value
        | some h =>
          if h.head? = some 126 then .error .runtime
          else .ok ⟨(parsePath h).root, (parsePath h).parts ++ t⟩
      else .ok p

/-- `Path.absolute()` with `os.getcwd() = cwd` -/
def pAbsolute (cwd : PyStr) (p : PPath) : PPath := if !p.root.isEmpty then p else pjoin (parsePath cwd) p

/-- `optmanager.relative_path(script_path, relative_to=rel)` -/
def relativePath (home : Option PyStr) (pw : PyStr → Option PyStr) (cwd rel path : PyStr) : Except PathErr PPath :=
  let sp := parsePath path
  match pExpandUser home pw sp with
  | .error e => .error e
  | .ok e1 =>
    let sp2 := if e1.str != sp.str && sp.root.isEmpty then pAbsolute cwd e1 else sp
    match pExpandUser home pw sp2 with
    | .error e => .error e
    | .ok e2 => .ok (pAbsolute cwd (pjoin (parsePath rel) e2))

/-! ### `load(opts, text, cwd)`: the `scripts` entries of a config file are made relative to that file -/

/-- the option the harness calls `scripts` -/
def scriptsName : Name := 6

/-- what the process environment contributes to path handling -/
structure PathEnv where
  home : Option PyStr
  pw : PyStr → Option PyStr
  getcwd : PyStr

def relOne (env : PathEnv) (cfgdir : PyStr) (path : PyStr) : Except Outcome Atom :=
  match relativePath env.home env.pw env.getcwd cfgdir path with
  | .ok p => .ok (.s (utf8 p.str))
  | .error .value => .error .valueError
  | .error .runtime => .error .runtimeError

/-- `[str(relative_path(Path(path), relative_to=Path(cwd))) for path in scripts]` over a list -/
def relAll (env : PathEnv) (cfgdir : PyStr) : List Atom → Except Outcome (List Atom)
  | [] => .ok []
  | .s b :: r =>
    match relOne env cfgdir (MitmVerif.C35.native b) with
    | .error e => .error e
    | .ok x => (relAll env cfgdir r).map (x :: ·)
  | _ :: _ => .error .typeError            -- `Path(1)`, `Path(None)`, …

/-- the same over a `str` (Python iterates its characters) -/
def relChars (env : PathEnv) (cfgdir : PyStr) : PyStr → Except Outcome (List Atom)
  | [] => .ok []
  | c :: r =>
    match relOne env cfgdir [c] with
    | .error e => .error e
    | .ok x => (relChars env cfgdir r).map (x :: ·)

def dictReplace (d : List (Name × Val)) (k : Name) (v : Val) : List (Name × Val) :=
  d.map fun kv => if kv.1 == k then (kv.1, v) else kv

/-- the rewriting of the parsed config data -/
def rewriteScripts (env : PathEnv) (cfgdir : PyStr) (data : List (Name × Val)) : Except Outcome (List (Name × Val)) :=
  let scripts : Option Val := (data.find? (·.1 == scriptsName)).map (·.2)
  match scripts with
  | none => .ok data
  | some (.a .none) => .ok data
  | some (.seq xs) => (relAll env cfgdir xs).map fun ys => dictReplace data scriptsName (.seq ys)
  | some (.a (.s b)) => (relChars env cfgdir (MitmVerif.C35.native b)).map fun ys => dictReplace data scriptsName (.seq ys)
  | some (.a _) => .error .typeError       -- an int / bool / float is not iterable

/-- `load(opts, text, cwd)` on the parsed text -/
def load (env : PathEnv) (st : St) (cwd : Option PyStr) (data : List (Name × Val)) : Res :=
  match cwd with
  | none => updateDefer st data
  | some dir =>
    match rewriteScripts env dir data with
    | .error e => ⟨st, e, [], []⟩
    | .ok d => updateDefer st d

inductive Op
  | addOption (n : Name) (ty : Ty) (d : Val)
  | subscribe (l : Listener)
  | update (kw : List (Name × Val))
  | updateKnown (kw : List (Name × Val))
  | updateDefer (kw : List (Name × Val))
  | set (specs : List (Name × Option PyStr)) (defer : Bool)
  | processDeferred
  | reset
  | merge (kvs : List (Name × Val))
  | load (env : PathEnv) (cwd : Option PyStr) (data : List (Name × Val))

def step (st : St) : Op → Res
  | .addOption n ty d => addOption st n ty d
  | .subscribe l => subscribe st l
  | .update kw => update st kw
  | .updateKnown kw => updateKnown st kw
  | .updateDefer kw => updateDefer st kw
  | .set specs defer => setSpecs st specs defer
  | .processDeferred => processDeferred st
  | .reset => reset st
  | .merge kvs => merge st kvs
  | .load env cwd data => load env st cwd data

/-- run a history; returns the final state and every listener call made on the way -/
def runFrom (st : St) : List Op → St × List Obs
  | [] => (st, [])
  | op :: r =>
    let x := step st op
    let y := runFrom x.st r
    (y.1, x.obs ++ y.2)

def run (ops : List Op) : St × List Obs := runFrom St.empty ops


/-! ### listener-issued (nested) updates

`notifyW nested u s ls`: `changed.send(updated=u)` when handlers may call `opts.update` themselves.
A handler that does not reject and whose `act` yields `kw` runs `nested s kw` (the nested `update`, one level
deeper); its TypeError / KeyError are swallowed by the handler, its OptionsError propagates (the handler rejects).
The store is threaded: later handlers see what earlier ones assigned. -/

structure NRes where
  opts : Store
  out : Outcome
  obs : List Obs
  unknown : List (Name × Val) := []

def notifyW (nested : Store → List (Name × Val) → NRes) (u : List Name) : Store → List Listener → Store × List Obs × Bool
  | s, [] => (s, [], false)
  | s, l :: ls =>
    if concerned l u then
      if l.rejects s u then (s, [⟨l.id, s, u⟩], true)
      else
        match l.act s u with
        | none =>
          let r := notifyW nested u s ls
          (r.1, ⟨l.id, s, u⟩ :: r.2.1, r.2.2)
        | some kw =>
          let n := nested s kw
          if n.out == .optionsError then (n.opts, ⟨l.id, s, u⟩ :: n.obs, true)
          else
            let r := notifyW nested u n.opts ls
            (r.1, ⟨l.id, s, u⟩ :: (n.obs ++ r.2.1), r.2.2)
    else notifyW nested u s ls

/-- `update_known` on a store, with handlers that may issue nested updates through `nested`.
    On rejection the WHOLE previous store `s` is restored (the snapshot is a deep copy of all options) and the
    rollback notification starts from it. -/
def coreUpdate (nested : Store → List (Name × Val) → NRes) (ls : List Listener) (s : Store)
    (kw : List (Name × Val)) : NRes :=
  let known := kw.filter (fun kv => hasKey s kv.1)
  let unknown := kw.filter (fun kv => !hasKey s kv.1)
  if known.isEmpty then ⟨s, .ok, [], unknown⟩
  else if !allTyped s known then ⟨s, .typeError, [], []⟩
  else
    let updated := known.map (·.1)
    let r1 := notifyW nested updated (assign s known) ls
    if !r1.2.2 then ⟨r1.1, .ok, r1.2.1, unknown⟩
    else
      let r2 := notifyW nested updated s ls
      ⟨r2.1, .optionsError, r1.2.1 ++ r2.2.1, []⟩

def keyErr (r : NRes) : NRes :=
  if r.out == .ok && !r.unknown.isEmpty then { r with out := .keyError } else r

/-- the nested `opts.update(**kw)` a handler may issue, `d` more levels allowed (at 0 handlers no longer act) -/
def nestedAt : Nat → List Listener → Store → List (Name × Val) → NRes
  | 0, _, s, _ => ⟨s, .ok, [], []⟩
  | d + 1, ls, s, kw => keyErr (coreUpdate (fun s' kw' => nestedAt d ls s' kw') ls s kw)

/-- handlers issue nested updates at most this deep (the harness listeners use the same bound) -/
def maxDepth : Nat := 2

def withOpts (st : St) (r : NRes) : Res := ⟨{ st with opts := r.opts }, r.out, r.obs, r.unknown⟩

def updateKnownN (st : St) (kw : List (Name × Val)) : Res :=
  withOpts st (coreUpdate (nestedAt maxDepth st.listeners) st.listeners st.opts kw)

def updateN (st : St) (kw : List (Name × Val)) : Res :=
  let r := updateKnownN st kw
  if r.out == .ok && !r.unknown.isEmpty then { r with out := .keyError } else r

def updateDeferN (st : St) (kw : List (Name × Val)) : Res :=
  let r := updateKnownN st kw
  if r.out == .ok then
    { r with st := { r.st with deferred := dictUpdate r.st.deferred (r.unknown.map fun kv => (kv.1, DVal.typed kv.2)) } }
  else r

def addOptionN (st : St) (n : Name) (ty : Ty) (d : Val) : Res :=
  if !typeOk ty d then ⟨st, .typeError, [], []⟩
  else
    let r := notifyW (nestedAt maxDepth st.listeners) [n] (insertOpt st.opts n ⟨ty, d, d⟩) st.listeners
    ⟨{ st with opts := r.1 }, if r.2.2 then .optionsError else .ok, r.2.1, []⟩

def resetN (st : St) : Res :=
  let opts := st.opts.map fun p => (p.1, { p.2 with cur := p.2.dflt })
  let r := notifyW (nestedAt maxDepth st.listeners) (opts.map (·.1)) opts st.listeners
  ⟨{ st with opts := r.1 }, if r.2.2 then .optionsError else .ok, r.2.1, []⟩

def setSpecsN (st : St) (specs : List (Name × Option PyStr)) (defer : Bool) : Res :=
  let g := groupSpecs specs
  match parseAll st.opts g with
  | none => ⟨st, .optionsError, [], []⟩
  | some processed =>
    let unk := g.filter (fun p => !hasKey st.opts p.1)
    if defer then
      let st1 := { st with deferred := dictUpdate st.deferred (unk.map fun p => (p.1, DVal.unconv p.2)) }
      updateN st1 processed
    else if !unk.isEmpty then ⟨st, .optionsError, [], []⟩
    else updateN st processed

def processDeferredN (st : St) : Res :=
  match deferredValues st.opts st.deferred with
  | none => ⟨st, .optionsError, [], []⟩
  | some upd =>
    let r := updateN st upd
    if r.out == .ok then
      { r with st := { r.st with deferred := r.st.deferred.filter fun p => !(upd.any (·.1 == p.1)) } }
    else r

def mergeN (st : St) (kvs : List (Name × Val)) : Res :=
  match mergeVals st.opts kvs with
  | .error e => ⟨st, e, [], []⟩
  | .ok toset => updateN st toset

def loadN (env : PathEnv) (st : St) (cwd : Option PyStr) (data : List (Name × Val)) : Res :=
  match cwd with
  | none => updateDeferN st data
  | some dir =>
    match rewriteScripts env dir data with
    | .error e => ⟨st, e, [], []⟩
    | .ok d => updateDeferN st d

def stepN (st : St) : Op → Res
  | .addOption n ty d => addOptionN st n ty d
  | .subscribe l => subscribe st l
  | .update kw => updateN st kw
  | .updateKnown kw => updateKnownN st kw
  | .updateDefer kw => updateDeferN st kw
  | .set specs defer => setSpecsN st specs defer
  | .processDeferred => processDeferredN st
  | .reset => resetN st
  | .merge kvs => mergeN st kvs
  | .load env cwd data => loadN env st cwd data

def runFromN (st : St) : List Op → St × List Obs
  | [] => (st, [])
  | op :: r =>
    let x := stepN st op
    let y := runFromN x.st r
    (y.1, x.obs ++ y.2)

def runN (ops : List Op) : St × List Obs := runFromN St.empty ops

/-! ### config file -/

/-- what `serialize(opts, file, "")` hands to the YAML dumper: the non-default options -/
def saveData (s : Store) : List (Name × Val) :=
  s.filterMap fun p => if p.2.hasChanged then some (p.1, p.2.cur) else none

/-- fresh options: the same declarations, nothing set, nobody listening -/
def fresh (s : Store) : St :=
  ⟨s.map fun p => (p.1, { p.2 with cur := p.2.dflt }), [], [], []⟩

/-- the YAML library as a parameter -/
structure Yaml (Text : Type) where
  dump : List (Name × Val) → Text
  parse : Text → Option (List (Name × Val))

/-- `serialize` into a new file, then `load` of that text into fresh options -/
def saveLoad {Text : Type} (Y : Yaml Text) (s : Store) : Option Res :=
  (Y.parse (Y.dump (saveData s))).map fun data => updateDefer (fresh s) data

/-- U+0085 (NEL) as UTF-8 — ruamel.yaml's emitter does not round-trip strings containing it (F-C44b) -/
def hasNel : Bytes → Bool
  | a :: b :: r => (a == 0xc2 && b == 0x85) || hasNel (b :: r)
  | _ => false

def Atom.nelFree : Atom → Bool
  | .s x => !hasNel x
  | _ => true

def Val.nelFree : Val → Bool
  | .a x => x.nelFree
  | .seq xs => xs.all Atom.nelFree

end MitmVerif.C44
