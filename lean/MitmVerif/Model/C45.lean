/-
  C45 — command-line arguments reach commands unchanged.
  Model of `mitmproxy.command_lexer.quote / unquote / expr` (PartialQuotedString | Word(" \r\n\t") |
  CharsNotIn("'\" \r\n\t"), leave_whitespace, parse_all), of `CommandManager.execute` (whitespace tokens dropped,
  `unquote` on the others, first one is the command) and of the argument conversion for the two kinds of
  string parameters: `str` (`_StrType.parse`: the escape-sequence regex + `unicode-escape`) and the verbatim
  ones (`CmdArgs`, … : identity).  Strings are lists of code points.
  The Unicode name database behind `\N{…}` is a parameter (`UniDb`).
-/
import MitmVerif.Model.C44
import MitmVerif.Gen.C45
namespace MitmVerif.C45

abbrev Str := List Nat

def isWs (c : Nat) : Bool := c == 32 || c == 13 || c == 10 || c == 9
def isQuote (c : Nat) : Bool := c == 34 || c == 39
def special (c : Nat) : Bool := isQuote c || isWs c

/-- `command_lexer.quote` -/
def quote (s : Str) : Str :=
  if !s.isEmpty && s.all (fun c => !special c) then s
  else if !s.contains 34 then 34 :: (s ++ [34])
  else if !s.contains 39 then 39 :: (s ++ [39])
  else 34 :: (s.flatMap (fun c => if c == 34 then [92, 120, 50, 50] else [c]) ++ [34])

/-- `command_lexer.unquote` -/
def unquote (x : Str) : Str :=
  match x with
  | a :: b :: r => if isQuote a && (b :: r).getLast? == some a then (b :: r).dropLast else x
  | _ => x

/-! ### the lexer -/

inductive Mode
  | none                 -- between tokens
  | bare | ws            -- inside a CharsNotIn / Word token
  | quoted (q : Nat)     -- inside a PartialQuotedString opened by q
  deriving DecidableEq

def modeOf (c : Nat) : Mode := if isQuote c then .quoted c else if isWs c then .ws else .bare

/-- `lexM m s` = (the rest of the token being read in mode `m`, the tokens after it).
    Tokens are maximal: a quoted string up to its closing quote or the end of input, a whitespace run,
    a run of other characters. -/
def lexM : Mode → Str → Str × List Str
  | _, [] => ([], [])
  | m, c :: r =>
    match m with
    | .none => ([], (c :: (lexM (modeOf c) r).1) :: (lexM (modeOf c) r).2)
    | .quoted q =>
      if c == q then ([c], (lexM .none r).2)
      else (c :: (lexM (.quoted q) r).1, (lexM (.quoted q) r).2)
    | .ws =>
      if isWs c then (c :: (lexM .ws r).1, (lexM .ws r).2)
      else ([], (c :: (lexM (modeOf c) r).1) :: (lexM (modeOf c) r).2)
    | .bare =>
      if !special c then (c :: (lexM .bare r).1, (lexM .bare r).2)
      else ([], (c :: (lexM (modeOf c) r).1) :: (lexM (modeOf c) r).2)

/-- `command_lexer.expr.parse_string(s, parse_all=True)` -/
def lex (s : Str) : List Str := (lexM .none s).2

/-- a whitespace token (`parse_partial`: type Space) -/
def isSpaceTok (t : Str) : Bool := t.all isWs

/-- the argument tokens of a command line -/
def argTokens (s : Str) : List Str := (lex s).filter (fun t => !isSpaceTok t)

/-! ### typed parsing -/

def hexVal (c : Nat) : Option Nat :=
  if 48 ≤ c ∧ c ≤ 57 then some (c - 48)
  else if 97 ≤ c ∧ c ≤ 102 then some (c - 87)
  else if 65 ≤ c ∧ c ≤ 70 then some (c - 55)
  else none

def octVal (c : Nat) : Option Nat := if 48 ≤ c ∧ c ≤ 55 then some (c - 48) else none

/-- value of a run of hex digits (`none` if one is not a hex digit) -/
def hexRun : Str → Option Nat
  | [] => some 0
  | cs => cs.foldl (fun acc c => match acc, hexVal c with
      | some n, some d => some (n * 16 + d)
      | _, _ => none) (some 0)

/-- `[\\'"abfnrtv]` -/
def simpleEsc (c : Nat) : Option Nat :=
  if c == 92 then some 92 else if c == 39 then some 39 else if c == 34 then some 34
  else if c == 97 then some 7 else if c == 98 then some 8 else if c == 102 then some 12
  else if c == 110 then some 10 else if c == 114 then some 13 else if c == 116 then some 9
  else if c == 118 then some 11 else none

/-- the Unicode name database used by `\N{…}` -/
structure UniDb where
  name : Str → Option Nat

inductive Esc
  | noMatch                       -- the regex does not match here: the backslash stays
  | bad                           -- matched, but `unicode-escape` rejects it (ValueError → CommandError)
  | ok (v : Nat) (rest : Str)

/-- `n` characters none of which is a newline (regex `.`), and what follows -/
def takeDots : Nat → Str → Option (Str × Str)
  | 0, r => some ([], r)
  | _ + 1, [] => none
  | n + 1, c :: r => if c == 10 then none else (takeDots n r).map fun x => (c :: x.1, x.2)

def spanNot (stop : Nat) : Str → Str × Str
  | [] => ([], [])
  | c :: r => if c == stop then ([], c :: r) else ((c :: (spanNot stop r).1), (spanNot stop r).2)

/-- what `escape_sequences` + `unicode-escape` make of the text after a backslash -/
def escape (db : UniDb) : Str → Esc
  | [] => .noMatch
  | c :: r =>
    match simpleEsc c with
    | some v => .ok v r
    | none =>
      match octVal c with
      | some d0 =>
        match r with
        | c1 :: r1 =>
          match octVal c1 with
          | some d1 =>
            match r1 with
            | c2 :: r2 =>
              match octVal c2 with
              | some d2 => .ok (d0 * 64 + d1 * 8 + d2) r2
              | none => .ok (d0 * 8 + d1) r1
            | [] => .ok (d0 * 8 + d1) []
          | none => .ok d0 r
        | [] => .ok d0 []
      | none =>
        if c == 120 then                                   -- x..
          match takeDots 2 r with
          | some (ds, rest) => match hexRun ds with
            | some v => .ok v rest
            | none => .bad
          | none => .noMatch
        else if c == 117 then                              -- u....
          match takeDots 4 r with
          | some (ds, rest) => match hexRun ds with
            | some v => .ok v rest
            | none => .bad
          | none => .noMatch
        else if c == 85 then                               -- U........
          match takeDots 8 r with
          | some (ds, rest) => match hexRun ds with
            | some v => if v ≤ 0x10FFFF then .ok v rest else .bad
            | none => .bad
          | none => .noMatch
        else if c == 78 then                               -- N{[^}]+}
          match r with
          | 123 :: r1 =>
            match spanNot 125 r1 with
            | (nm, 125 :: r2) =>
              if nm.isEmpty then .noMatch
              else match db.name nm with
                | some v => .ok v r2
                | none => .bad
            | _ => .noMatch
          | _ => .noMatch
        else .noMatch

/-- `_StrType.parse` (`none` = ValueError). Fuel ≥ length. -/
def strParseF (db : UniDb) : Nat → Str → Option Str
  | _, [] => some []
  | 0, _ :: _ => none
  | f + 1, c :: r =>
    if c != 92 then (strParseF db f r).map (c :: ·)
    else match escape db r with
      | .noMatch => (strParseF db f r).map (92 :: ·)
      | .bad => none
      | .ok v rest => (strParseF db f rest).map (v :: ·)

def strParse (db : UniDb) (s : Str) : Option Str := strParseF db s.length s

/-- the two kinds of string parameters -/
inductive ArgTy
  | str        -- `str`: escape sequences are interpreted
  | verbatim   -- `CmdArgs` and the other types whose `parse` returns the text
  deriving DecidableEq

def parseArg (db : UniDb) : ArgTy → Str → Option Str
  | .str, s => strParse db s
  | .verbatim, s => some s

inductive Exec
  | arity                          -- `signature.bind(*args)` fails: wrong number of arguments
  | noCommand                      -- nothing but whitespace: CommandError
  | unknown                        -- the first argument token is not a registered command
  | badArg                         -- an argument is rejected by its type
  | call (name : Str) (args : List Str)
  deriving DecidableEq

def collect : List (Option Str) → Option (List Str)
  | [] => some []
  | none :: _ => none
  | some a :: r => (collect r).map (a :: ·)

/-- `CommandManager.execute(line)`; `cmds name = some ty` for a registered command with parameters `*args : ty` -/
def execute (db : UniDb) (cmds : Str → Option ArgTy) (line : Str) : Exec :=
  match (argTokens line).map unquote with
  | [] => .noCommand
  | name :: args =>
    match cmds name with
    | none => .unknown
    | some ty =>
      match collect (args.map (parseArg db ty)) with
      | some as => .call name as
      | none => .badArg


/-! ### every command signature shape -/

/-- a command signature: positional parameters with their types, optionally followed by `*rest : t` -/
structure Sig where
  params : List ArgTy
  varargs : Option ArgTy

/-- `signature.bind(*args)` for `n` arguments: the type each argument is converted with (`none`: mismatch) -/
def bindTys (sig : Sig) (n : Nat) : Option (List ArgTy) :=
  if n < sig.params.length then none
  else match sig.varargs with
    | none => if n == sig.params.length then some sig.params else none
    | some t => some (sig.params ++ List.replicate (n - sig.params.length) t)

/-- the type of the i-th argument of a call -/
def tyAt (sig : Sig) (i : Nat) : Option ArgTy :=
  match sig.params[i]? with
  | some t => some t
  | none => sig.varargs

/-- `CommandManager.execute(line)` → `call_strings` → `Command.prepare_args` → the command function -/
def executeSig (db : UniDb) (cmds : Str → Option Sig) (line : Str) : Exec :=
  match (argTokens line).map unquote with
  | [] => .noCommand
  | name :: args =>
    match cmds name with
    | none => .unknown
    | some sig =>
      match bindTys sig args.length with
      | none => .arity
      | some tys =>
        match collect (List.zipWith (parseArg db) tys args) with
        | some as => .call name as
        | none => .badArg

/-! ### the remaining argument conversions: int, bool, path (typed values) -/

/-- every parameter type of `mitmproxy.types` whose `parse` is a pure function of the text -/
inductive ArgTyT
  | str | verbatim
  | int        -- `_IntType.parse`  = `int(s)`
  | bool       -- `_BoolType.parse` = "true" / "false", anything else ValueError
  | path       -- `_PathType.parse` = `os.path.expanduser(s)`
  | strSeq     -- `_StrSeqType.parse` = `[x.strip() for x in s.split(",")]`
  | cutSpec    -- `_CutSpecType.parse` = `s.split(",")`
  | marker     -- `_MarkerType.parse`: "true" ↦ ":default:", "false" ↦ "", an emoji name ↦ itself, else ValueError
  | choice (opts : List Str)   -- `_ChoiceType.parse`: `opts` = what the type's options command returns
  deriving DecidableEq

inductive TVal
  | s (x : Str) | i (x : Int) | b (x : Bool) | l (xs : List Str)
  deriving DecidableEq

/-- what `os.path.expanduser` reads from the process: `$HOME` (or, when unset, the current user's pw_dir; `none` when
    neither is available) and the password database (user name → home directory) -/
structure Env where
  home : Option Str
  pwHome : Str → Option Str

def rstripSlash (s : Str) : Str := (s.reverse.dropWhile (· == 47)).reverse

/-- `posixpath.expanduser(path)`; `none` = ValueError (a user name with an embedded NUL) -/
def expandUser (env : Env) (p : Str) : Option Str :=
  match p with
  | 126 :: r =>
    let name := (spanNot 47 r).1
    let rest := (spanNot 47 r).2
    if name.isEmpty then
      match env.home with
      | none => some p
      | some h => let x := rstripSlash h ++ rest; some (if x.isEmpty then [47] else x)
    else if name.contains 0 then none
    else
      match env.pwHome name with
      | none => some p
      | some h => let x := rstripSlash h ++ rest; some (if x.isEmpty then [47] else x)
  | _ => some p

def strTrueC : Str := "true".toList.map Char.toNat
def strFalseC : Str := "false".toList.map Char.toNat

/-- `s.split(",")` -/
def splitComma : Str → List Str
  | [] => [[]]
  | c :: r =>
    if c == 44 then [] :: splitComma r
    else match splitComma r with
      | h :: t => (c :: h) :: t
      | [] => [[c]]

/-- `str.isspace()` of one character: TAB..CR, FS..US, space, and the non-ASCII ones of `Gen.C44.spaces` -/
def isSpacePy (c : Nat) : Bool := (9 ≤ c && c ≤ 13) || (28 ≤ c && c ≤ 32) || (c > 127 && Gen.C44.spaces.contains c)

/-- `str.strip()` -/
def pyStrip (s : Str) : Str := ((s.dropWhile isSpacePy).reverse.dropWhile isSpacePy).reverse

def markerDefault : Str := ":default:".toList.map Char.toNat

def parseArgT (db : UniDb) (env : Env) : ArgTyT → Str → Option TVal
  | .str, s => (strParse db s).map TVal.s
  | .verbatim, s => some (.s s)
  | .int, s => (MitmVerif.C44.pyInt s).map TVal.i
  | .bool, s => if s = strTrueC then some (.b true) else if s = strFalseC then some (.b false) else none
  | .path, s => (expandUser env s).map TVal.s
  | .strSeq, s => some (.l ((splitComma s).map pyStrip))
  | .cutSpec, s => some (.l (splitComma s))
  | .marker, s =>
    if s = strTrueC then some (.s markerDefault) else if s = strFalseC then some (.s [])
    else if Gen.C45.emojiNames.contains s then some (.s s) else none
  | .choice opts, s => if opts.contains s then some (.s s) else none

structure SigT where
  params : List ArgTyT
  varargs : Option ArgTyT

def bindTysT (sig : SigT) (n : Nat) : Option (List ArgTyT) :=
  if n < sig.params.length then none
  else match sig.varargs with
    | none => if n == sig.params.length then some sig.params else none
    | some t => some (sig.params ++ List.replicate (n - sig.params.length) t)

def tyAtT (sig : SigT) (i : Nat) : Option ArgTyT :=
  match sig.params[i]? with
  | some t => some t
  | none => sig.varargs

inductive ExecT
  | arity | noCommand | unknown | badArg
  | call (name : Str) (args : List TVal)
  deriving DecidableEq

def collectT : List (Option TVal) → Option (List TVal)
  | [] => some []
  | none :: _ => none
  | some a :: r => (collectT r).map (a :: ·)

/-- `CommandManager.execute(line)` with every convertible parameter type -/
def executeT (db : UniDb) (env : Env) (cmds : Str → Option SigT) (line : Str) : ExecT :=
  match (argTokens line).map unquote with
  | [] => .noCommand
  | name :: args =>
    match cmds name with
    | none => .unknown
    | some sig =>
      match bindTysT sig args.length with
      | none => .arity
      | some tys =>
        match collectT (List.zipWith (parseArgT db env) tys args) with
        | some as => .call name as
        | none => .badArg

/-! ### parameter defaults -/

/-- a signature whose last `defaults.length` positional parameters have default values -/
structure SigD where
  params : List ArgTyT
  defaults : List TVal
  varargs : Option ArgTyT

/-- `signature.bind(*args)` + `apply_defaults()` for `n` arguments: the types the given arguments are converted
    with, and the default values that fill the missing trailing parameters -/
def bindD (sig : SigD) (n : Nat) : Option (List ArgTyT × List TVal) :=
  let np := sig.params.length
  if n + sig.defaults.length < np then none
  else if n ≤ np then some (sig.params.take n, sig.defaults.drop (sig.defaults.length - (np - n)))
  else match sig.varargs with
    | none => none
    | some t => some (sig.params ++ List.replicate (n - np) t, [])

/-- `CommandManager.execute(line)` for commands with parameter defaults -/
def executeD (db : UniDb) (env : Env) (cmds : Str → Option SigD) (line : Str) : ExecT :=
  match (argTokens line).map unquote with
  | [] => .noCommand
  | name :: args =>
    match cmds name with
    | none => .unknown
    | some sig =>
      match bindD sig args.length with
      | none => .arity
      | some (tys, dflts) =>
        match collectT (List.zipWith (parseArgT db env) tys args) with
        | some as => .call name (as ++ dflts)
        | none => .badArg

/-! ### the command table of the correspondence run -/

def ascii (s : String) : Str := s.toList.map Char.toNat

def choiceOpts : List Str := [ascii "a", ascii "b c", ascii "", ascii "'q'"]

/-- the test commands the harness registers on the real `CommandManager` (harness/c45.py `_Cmds`): every signature
    shape, every convertible parameter type, parameter defaults. The driver executes `executeD … harnessCmds`. -/
def harnessCmds (name : Str) : Option SigD :=
  if name = ascii "t.s" then some ⟨[], [], some .str⟩
  else if name = ascii "t.v" then some ⟨[], [], some .verbatim⟩
  else if name = ascii "t.one" then some ⟨[.str], [], none⟩
  else if name = ascii "t.two" then some ⟨[.str, .verbatim], [], none⟩
  else if name = ascii "t.mix" then some ⟨[.verbatim], [], some .str⟩
  else if name = ascii "t.none" then some ⟨[], [], none⟩
  else if name = ascii "t.i" then some ⟨[], [], some .int⟩
  else if name = ascii "t.b" then some ⟨[], [], some .bool⟩
  else if name = ascii "t.p" then some ⟨[], [], some .path⟩
  else if name = ascii "t.ibp" then some ⟨[.int, .bool, .path], [], none⟩
  else if name = ascii "t.q" then some ⟨[], [], some .strSeq⟩
  else if name = ascii "t.c" then some ⟨[.cutSpec], [], none⟩
  else if name = ascii "t.m" then some ⟨[], [], some .marker⟩
  else if name = ascii "t.ch" then some ⟨[.choice choiceOpts], [], some .str⟩
  else if name = ascii "t.opts" then some ⟨[], [], none⟩
  else if name = ascii "t.d" then some ⟨[.str, .str, .int], [.s (ascii "dflt"), .i 7], none⟩
  else if name = ascii "t.dr" then some ⟨[.verbatim, .bool], [.b true], some .str⟩
  else none

/-- the str / verbatim commands among them, in the vocabulary of `executeSig` -/
def harnessSigs (name : Str) : Option Sig :=
  if name = ascii "t.s" then some ⟨[], some .str⟩
  else if name = ascii "t.v" then some ⟨[], some .verbatim⟩
  else if name = ascii "t.one" then some ⟨[.str], none⟩
  else if name = ascii "t.two" then some ⟨[.str, .verbatim], none⟩
  else if name = ascii "t.mix" then some ⟨[.verbatim], some .str⟩
  else if name = ascii "t.none" then some ⟨[], none⟩
  else none

/-- `execute` from a given parse (the `ParseResult` list `parse_partial` hands out / keeps cached): what the
    command receives is a function of that list alone -/
def executeToks (db : UniDb) (cmds : Str → Option Sig) (toks : List Str) : Exec :=
  match (toks.filter (fun t => !isSpaceTok t)).map unquote with
  | [] => .noCommand
  | name :: args =>
    match cmds name with
    | none => .unknown
    | some sig =>
      match bindTys sig args.length with
      | none => .arity
      | some tys =>
        match collect (List.zipWith (parseArg db) tys args) with
        | some as => .call name as
        | none => .badArg

/-- the command line the console builds: the command and the quoted arguments, separated by one space -/
def cmdline (cmd : Str) (args : List Str) : Str := cmd ++ args.flatMap (fun a => 32 :: quote a)

/-! ### reference: splitting at unquoted whitespace -/

/-- `refGo q s` = (rest of the current segment, later segments) where `q` is the quote we are inside, if any;
    every unquoted whitespace character ends a segment (empty segments are dropped by `refSplit`). -/
def refGo : Option Nat → Str → Str × List Str
  | _, [] => ([], [])
  | some q, c :: r =>
    if c == q then (c :: (refGo none r).1, (refGo none r).2)
    else (c :: (refGo (some q) r).1, (refGo (some q) r).2)
  | none, c :: r =>
    if isWs c then ([], (refGo none r).1 :: (refGo none r).2)
    else if isQuote c then (c :: (refGo (some c) r).1, (refGo (some c) r).2)
    else (c :: (refGo none r).1, (refGo none r).2)

def refSplit (s : Str) : List Str := ((refGo none s).1 :: (refGo none s).2).filter (fun t => !t.isEmpty)

/-- glue argument tokens that touch (no whitespace token between them) -/
def mergeGo : List Str → Str × List Str
  | [] => ([], [])
  | t :: ts =>
    if isSpaceTok t then ([], (mergeGo ts).1 :: (mergeGo ts).2)
    else (t ++ (mergeGo ts).1, (mergeGo ts).2)

def mergeAdjacent (toks : List Str) : List Str :=
  ((mergeGo toks).1 :: (mergeGo toks).2).filter (fun t => !t.isEmpty)

/-- no two argument tokens touch -/
def noAdjacent : List Str → Bool
  | a :: b :: r => (isSpaceTok a || isSpaceTok b) && noAdjacent (b :: r)
  | _ => true

end MitmVerif.C45
