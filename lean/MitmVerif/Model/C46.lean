/-
  C46 — mitmweb requires authentication and blocks cross-site state changes.
  Model of what happens to one request before the handler body runs:
  `tornado.web.RequestHandler._execute` (method check → XSRF check for non-safe methods → `prepare()` → method lookup)
  followed by `AuthRequestHandler._require_auth` (signed cookie, else `Authorization: Bearer`, else `?token=`),
  parameterised by one row of the route table that the translator regenerates from the live `Application`.
-/
namespace MitmVerif.C46

inductive Method
  | GET | HEAD | POST | DELETE | PATCH | PUT | OPTIONS
  | other                      -- anything outside tornado's SUPPORTED_METHODS
deriving DecidableEq, Repr

/-- methods for which tornado skips the XSRF check and mitmweb skips the Sec-Fetch-Site check -/
def Method.safe : Method → Bool
  | .GET | .HEAD | .OPTIONS => true
  | _ => false

/-- a credential channel as the wrapper sees it -/
inductive Cred
  | absent          -- header missing / scheme not exactly "Bearer" / empty value; `token` argument missing or empty
  | invalid         -- present, `is_valid_password` says no
  | undecodable     -- (`token` argument only) bytes that are not UTF-8: `get_argument` raises HTTPError(400)
  | valid
deriving DecidableEq, Repr

inductive Sfs
  | absent | sameOrigin | none | other     -- other: same-site, cross-site, anything else
deriving DecidableEq, Repr

structure Req where
  method : Method
  cookieValid : Bool          -- the signed auth cookie verifies and carries the expected value
  bearer : Cred               -- never `.undecodable`
  token : Cred
  sfs : Sfs
  xsrfOk : Bool               -- an XSRF token is supplied and matches the XSRF cookie
deriving DecidableEq, Repr

structure Route where
  pattern : String
  handler : String
  methods : List Method       -- methods the handler class implements
  wrapped : List Method       -- … of which wrapped by `_require_auth`
  isWs : Bool
  sfsCheck : Bool             -- `RequestHandler.prepare` (the Sec-Fetch-Site check) is the `prepare` in effect
  appRoute : Bool             -- row of `app.handlers` (false: tornado's own static-file routes)
  preHooks : List String      -- tornado hooks run before the method body that the handler class itself overrides
deriving DecidableEq, Repr

inductive Outcome
  | s405                      -- method not supported / not implemented
  | s403xsrf                  -- `check_xsrf_cookie` failed
  | crossSite                 -- refused by `prepare` (the code raises tornado.httpclient.HTTPError → status 500)
  | s400token                 -- undecodable `token` argument
  | s403auth                  -- no valid credential
  | run (setCookie : Bool)    -- the handler body runs; `setCookie`: a fresh auth cookie is issued
deriving DecidableEq, Repr

def Outcome.handlerRan : Outcome → Bool
  | .run _ => true
  | _ => false

/-- `_require_auth` -/
def authDecision (q : Req) : Outcome :=
  if q.cookieValid then .run false
  else
    match q.bearer with
    | .valid => .run true
    | .invalid | .undecodable => .s403auth           -- a non-empty Bearer value is final: `token` is not consulted
    | .absent =>
      match q.token with
      | .valid => .run true
      | .undecodable => .s400token
      | .invalid | .absent => .s403auth

/-- `_execute` up to and including the (possibly wrapped) method -/
def serve (r : Route) (q : Req) : Outcome :=
  if q.method = .other then .s405
  else if !q.method.safe && !q.xsrfOk then .s403xsrf
  else if r.sfsCheck && !q.method.safe && (q.sfs = .other) then .crossSite
  else if !r.methods.contains q.method then .s405
  else if r.wrapped.contains q.method then authDecision q
  else .run false

/-- the request carries neither a valid password/token nor a valid session cookie -/
def Req.noCredential (q : Req) : Bool :=
  !q.cookieValid && q.bearer != .valid && q.token != .valid

end MitmVerif.C46
