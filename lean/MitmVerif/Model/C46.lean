/-
  C46 — mitmweb requires authentication and blocks cross-site state changes.
  Model of what happens to one request before the handler body runs:
  `tornado.web.RequestHandler._execute` (method check → XSRF check for non-safe methods → `prepare()` → method lookup)
  followed by `AuthRequestHandler._require_auth` (signed cookie, else `Authorization: Bearer`, else `?token=`),
  parameterised by one row of the route table that the translator regenerates from the live `Application`.
-/
namespace MitmVerif.C46

inductive Method
  | GET | HEAD | POST | DELETE | PATCH | PUT | OPTIONS
  | other                      -- anything outside tornado's SUPPORTED_METHODS
deriving DecidableEq, Repr

/-- methods for which tornado skips the XSRF check and mitmweb skips the Sec-Fetch-Site check -/
def Method.safe : Method → Bool
  | .GET | .HEAD | .OPTIONS => true
  | _ => false

/-- a credential channel as the wrapper sees it -/
inductive Cred
  | absent          -- header missing / scheme not exactly "Bearer" / empty value; `token` argument missing or empty
  | invalid         -- present, `is_valid_password` says no
  | undecodable     -- (`token` argument only) bytes that are not UTF-8: `get_argument` raises HTTPError(400)
  | valid
deriving DecidableEq, Repr

inductive Sfs
  | absent | sameOrigin | none | other     -- other: same-site, cross-site, anything else
deriving DecidableEq, Repr

structure Req where
  method : Method
  cookieValid : Bool          -- the signed auth cookie verifies and carries the expected value
  bearer : Cred               -- never `.undecodable`
  token : Cred
  sfs : Sfs
  xsrfOk : Bool               -- an XSRF token is supplied and matches the XSRF cookie
deriving DecidableEq, Repr

structure Route where
  pattern : String
  handler : String
  methods : List Method       -- methods the handler class implements
  wrapped : List Method       -- … of which wrapped by `_require_auth`
  isWs : Bool
  sfsCheck : Bool             -- `RequestHandler.prepare` (the Sec-Fetch-Site check) is the `prepare` in effect
  appRoute : Bool             -- row of `app.handlers` (false: tornado's own static-file routes)
  preHooks : List String      -- tornado hooks run before the method body that the handler class itself overrides
deriving DecidableEq, Repr

inductive Outcome
  | s405                      -- method not supported / not implemented
  | s403xsrf                  -- `check_xsrf_cookie` failed
  | crossSite                 -- refused by `prepare` (the code raises tornado.httpclient.HTTPError → status 500)
  | s400token                 -- undecodable `token` argument
  | s403auth                  -- no valid credential
  | run (setCookie : Bool)    -- the handler body runs; `setCookie`: a fresh auth cookie is issued
deriving DecidableEq, Repr

def Outcome.handlerRan : Outcome → Bool
  | .run _ => true
  | _ => false

/-- `_require_auth` -/
def authDecision (q : Req) : Outcome :=
  if q.cookieValid then .run false
  else
    match q.bearer with
    | .valid => .run true
    | .invalid | .undecodable => .s403auth           -- a non-empty Bearer value is final: `token` is not consulted
    | .absent =>
      match q.token with
      | .valid => .run true
      | .undecodable => .s400token
      | .invalid | .absent => .s403auth

/-- `_execute` up to and including the (possibly wrapped) method -/
def serve (r : Route) (q : Req) : Outcome :=
  if q.method = .other then .s405
  else if !q.method.safe && !q.xsrfOk then .s403xsrf
  else if r.sfsCheck && !q.method.safe && (q.sfs = .other) then .crossSite
  else if !r.methods.contains q.method then .s405
  else if r.wrapped.contains q.method then authDecision q
  else .run false

/-- the request carries neither a valid password/token nor a valid session cookie -/
def Req.noCredential (q : Req) : Bool :=
  !q.cookieValid && q.bearer != .valid && q.token != .valid


/-! ## the credential checks as code: `WebAuth` and the password extraction of `_require_auth`, over histories

  `configure` / `isValidPassword` transcribe `WebAuth.configure` and `WebAuth.is_valid_password` (three branches:
  generated token, plaintext, argon2 hash).  argon2 itself is a parameter (`verify hash password`, `hashOk hash`).
  `extractPassword` transcribes the wrapper's `Authorization` / `token` handling on the raw header text.
  A *world* is the live WebAuth password plus the set of session cookies this Application has issued; tornado's cookie
  signing is abstracted as: a presented cookie verifies iff it is one of those. -/

abbrev Str := List UInt8

/-- `WebAuth.configure` when `web_password` is updated to `v`; `fresh` is the `secrets.token_hex(16)` it would draw.
    `none`: OptionsError (the option change is rejected, `_password` keeps its value) -/
def configure (hashOk : Str → Bool) (v fresh : Str) : Option Str :=
  if v.head? = some 36 then (if hashOk v then some v else none)     -- startswith("$"): must be an argon2 hash
  else some (if v.isEmpty then fresh else v)                         -- `web_password or secrets.token_hex(16)`

/-- `WebAuth.is_valid_password` -/
def isValidPassword (verify : Str → Str → Bool) (σ pw : Str) : Bool :=
  if σ.head? = some 36 then verify σ pw else σ == pw                 -- hasher.verify / hmac.compare_digest

inductive TokenArg
  | absent | undecodable | text (t : Str)
deriving DecidableEq, Repr

/-- one request as the wrapper reads it -/
structure RawReq where
  method : Method
  cookie : Option Nat             -- the auth cookie presented, if its signature verifies: which issued cookie it is
  authorization : Option Str    -- the Authorization header text
  token : TokenArg                -- the `token` argument
  sfs : Sfs
  xsrfOk : Bool
deriving DecidableEq, Repr

/-- `str.partition(" ")`: text before the first space, text after it -/
def partitionSp : Str → Str × Str
  | [] => ([], [])
  | c :: r => if c = 32 then ([], r) else let (a, b) := partitionSp r; (c :: a, b)

def sBearer : Str := [66, 101, 97, 114, 101, 114]

/-- `if auth_scheme == "Bearer": password = auth_params` (empty when the header is absent or of another scheme) -/
def headerPassword (q : RawReq) : Str :=
  match q.authorization with
  | some h => if (partitionSp h).1 = sBearer then (partitionSp h).2 else []
  | none => []

/-- the password the wrapper ends up checking; `none`: `get_argument` raised HTTPError(400) -/
def extractPassword (q : RawReq) : Option Str :=
  if !(headerPassword q).isEmpty then some (headerPassword q)
  else match q.token with
    | .absent => some []
    | .undecodable => none
    | .text t => some t

/-- `_require_auth` on the raw request -/
def authC (verify : Str → Str → Bool) (σ : Str) (cookieOk : Bool) (q : RawReq) : Outcome :=
  if cookieOk then .run false
  else match extractPassword q with
    | none => .s400token
    | some pw => if isValidPassword verify σ pw then .run true else .s403auth

/-- `_execute` + wrapper on the raw request (same order of checks as `serve`) -/
def serveC (verify : Str → Str → Bool) (r : Route) (σ : Str) (cookieOk : Bool) (q : RawReq) : Outcome :=
  if q.method = .other then .s405
  else if !q.method.safe && !q.xsrfOk then .s403xsrf
  else if r.sfsCheck && !q.method.safe && (q.sfs = .other) then .crossSite
  else if !r.methods.contains q.method then .s405
  else if r.wrapped.contains q.method then authC verify σ cookieOk q
  else .run false

structure World where
  password : Str
  issued : List Nat             -- session cookies issued so far
deriving DecidableEq, Repr

inductive Ev
  | setPw (v fresh : Str)                 -- the operator changes `web_password`
  | req (r : Route) (q : RawReq) (newId : Nat)   -- a request; `newId` names the cookie it would be given
deriving DecidableEq, Repr

def World.cookieOk (w : World) (q : RawReq) : Bool :=
  match q.cookie with
  | some c => w.issued.contains c
  | none => false

def stepW (verify : Str → Str → Bool) (hashOk : Str → Bool) (w : World) : Ev → World × Option Outcome
  | .setPw v fresh => ({ w with password := (configure hashOk v fresh).getD w.password }, none)
  | .req r q newId =>
    let out := serveC verify r w.password (w.cookieOk q) q
    (if out = .run true then { w with issued := newId :: w.issued } else w, some out)

def runW (verify : Str → Str → Bool) (hashOk : Str → Bool) : World → List Ev → World
  | w, [] => w
  | w, e :: r => runW verify hashOk (stepW verify hashOk w e).1 r

/-- the request carries a password that the configuration in force accepts -/
def carriesValidPassword (verify : Str → Str → Bool) (σ : Str) (q : RawReq) : Bool :=
  match extractPassword q with
  | some pw => isValidPassword verify σ pw
  | none => false


/-- how the abstract model of the first round sees a raw request under password `σ` -/
def abstractReq (verify : Str → Str → Bool) (σ : Str) (cookieOk : Bool) (q : RawReq) : Req :=
  { method := q.method, cookieValid := cookieOk,
    bearer := if (headerPassword q).isEmpty then .absent
              else if isValidPassword verify σ (headerPassword q) then .valid else .invalid,
    token := match q.token with
      | .absent => .absent
      | .undecodable => .undecodable
      | .text t => if t.isEmpty then .absent else if isValidPassword verify σ t then .valid else .invalid,
    sfs := q.sfs, xsrfOk := q.xsrfOk }


/-! ## application state and response bodies: only a handler body can touch the one or produce the other -/

/-- `RequestHandler.prepare` on the raw header: `"Sec-Fetch-Site" in headers and headers[...] not in ("same-origin", "none")` -/
def sfsOfHeader : Option Str → Sfs
  | none => .absent
  | some v =>
    if v = [115, 97, 109, 101, 45, 111, 114, 105, 103, 105, 110] then .sameOrigin        -- "same-origin"
    else if v = [110, 111, 110, 101] then .none                                          -- "none"
    else .other

/-- what the client receives: a refusal (empty body, login form or tornado's error page — constants) or a handler's output -/
inductive Resp (B : Type)
  | refusal
  | body (b : B)

def Resp.isRefusal {B : Type} : Resp B → Bool
  | .refusal => true
  | .body _ => false

/-- the live application: WebAuth world + the state the handlers work on (view, options, events) -/
structure AppW (S : Type) where
  w : World
  app : S

/-- one event against the application; `handler r q s` is the handler body of route `r` (arbitrary) -/
def stepApp {S B : Type} (handler : Route → RawReq → S → S × B) (verify : Str → Str → Bool) (hashOk : Str → Bool)
    (a : AppW S) : Ev → AppW S × Option (Outcome × Resp B)
  | .setPw v fresh => ({ a with w := (stepW verify hashOk a.w (.setPw v fresh)).1 }, none)
  | .req r q newId =>
    let out := serveC verify r a.w.password (a.w.cookieOk q) q
    let w' := (stepW verify hashOk a.w (.req r q newId)).1
    if out.handlerRan then
      let res := handler r q a.app
      (⟨w', res.1⟩, some (out, .body res.2))
    else (⟨w', a.app⟩, some (out, .refusal))

def runApp {S B : Type} (handler : Route → RawReq → S → S × B) (verify : Str → Str → Bool) (hashOk : Str → Bool) :
    AppW S → List Ev → AppW S × List (Outcome × Resp B)
  | a, [] => (a, [])
  | a, e :: r =>
    let (a', o) := stepApp handler verify hashOk a e
    let (af, os) := runApp handler verify hashOk a' r
    (af, (match o with | some x => [x] | none => []) ++ os)

/-- the event is a request that carries no credential valid at this moment (and no issued cookie) -/
def Ev.uncredentialed (verify : Str → Str → Bool) (w : World) : Ev → Bool
  | .setPw _ _ => true
  | .req _ q _ => !w.cookieOk q && !carriesValidPassword verify w.password q

end MitmVerif.C46
