/-
  C47 — flow edits through mitmweb are atomic.
  Model of `mitmproxy.tools.web.app.FlowHandler.put` (after the fix that snapshots the flow before `backup()` and
  restores that snapshot on *any* exception) and, for the counterexample theorems, of the handler as it was
  (`putOld`: `revert()` on `APIError` only, to whatever backup exists).

  A flow value is `(cur, backup)`.  `cur` is the *history of primitive setter effects* applied to the initial
  snapshot of the flow (each effect carries an identifier chosen by the caller; the setters of `mitmproxy.http`
  are deterministic functions of the message state, so equal histories denote equal states).  `backup` is
  `Flow._backup` (a state, i.e. again a history) or `none`.

  An edit document is a list of top-level entries in document order.  Whether a primitive setter step succeeds
  (`str(v)`, `int(v)`, `Headers.add(*header)`, text encoding, …) is *input* to the model (`Step.eff id` / `Step.fail`):
  these are library functions, not part of the handler.  What the model decides: the dispatch on keys, the flow's
  shape (`hasattr(flow, "request")`, `hasattr(flow, "response")`), the order of steps, where the handler stops, the
  class of the exception (`APIError` vs anything else), the commit / roll-back and the backup afterwards.
-/
namespace MitmVerif.C47

abbrev Core := List Nat

structure Flow where
  cur : Core
  backup : Option Core
deriving DecidableEq, Repr

/-- outcome of one primitive setter step -/
inductive Step
  | eff (id : Nat)      -- ran and changed the message (effect `id`)
  | fail                -- raised (ValueError / TypeError / AttributeError / UnicodeError …)
deriving DecidableEq, Repr

inductive Err | api | other
deriving DecidableEq, Repr

/-- keys of the request / response sub-document, as the handler's `if/elif` chain distinguishes them -/
inductive Key
  | method | scheme | host | path | httpVersion | port | headers | trailers | content | reason | code | unknown
deriving DecidableEq, Repr

/-- `if k in ["method","scheme","host","path","http_version"] … elif k == "port" … "headers" … "trailers" … "content"` -/
def Key.forRequest : Key → Bool
  | .method | .scheme | .host | .path | .httpVersion | .port | .headers | .trailers | .content => true
  | _ => false

/-- `reason`, `http_version`, `code`, `headers`, `trailers`, `content` -/
def Key.forResponse : Key → Bool
  | .reason | .httpVersion | .code | .headers | .trailers | .content => true
  | _ => false

structure Leaf where
  key : Key
  steps : List Step       -- outcomes of the primitive steps this key's branch performs, in order
deriving DecidableEq, Repr

inductive Top
  | request (sub : Option (List Leaf))    -- `none`: the value is not a JSON object (`b.items()` raises)
  | response (sub : Option (List Leaf))
  | marked (steps : List Step)
  | comment (steps : List Step)
  | unknown
deriving DecidableEq, Repr

/-- shape of the flow object: `hasattr(flow, "request")`, `hasattr(flow, "response")` -/
structure Kind where
  hasReq : Bool
  hasResp : Bool
deriving DecidableEq, Repr

/-- what `self.json` yields -/
inductive Doc
  | badJson                 -- wrong Content-Type / malformed JSON: `APIError(400)` from the `json` property
  | notObject               -- valid JSON that is not an object: `.items()` raises AttributeError
  | obj (tops : List Top)
deriving DecidableEq, Repr

/-- run primitive steps until one raises; the state keeps every effect applied so far -/
def runSteps : Core → List Step → Core × Option Err
  | c, [] => (c, none)
  | c, .eff i :: rest => runSteps (c ++ [i]) rest
  | c, .fail :: _ => (c, some .other)

/-- one `(k, v)` of a sub-document; `known` is the key test of the enclosing branch -/
def runLeaf (known : Key → Bool) (c : Core) (l : Leaf) : Core × Option Err :=
  if known l.key then runSteps c l.steps else (c, some .api)     -- `raise APIError(400, "Unknown update …")`

def runLeaves (known : Key → Bool) : Core → List Leaf → Core × Option Err
  | c, [] => (c, none)
  | c, l :: rest =>
    match runLeaf known c l with
    | (c', none) => runLeaves known c' rest
    | r => r

def runTop (k : Kind) (c : Core) : Top → Core × Option Err
  | .request sub =>
    if k.hasReq then
      match sub with
      | some ls => runLeaves Key.forRequest c ls
      | none => (c, some .other)                     -- `b.items()` on a non-dict
    else (c, some .api)                              -- falls through the chain to "Unknown update request"
  | .response sub =>
    if k.hasResp then
      match sub with
      | some ls => runLeaves Key.forResponse c ls
      | none => (c, some .other)
    else (c, some .api)
  | .marked st => runSteps c st
  | .comment st => runSteps c st
  | .unknown => (c, some .api)

def runTops (k : Kind) : Core → List Top → Core × Option Err
  | c, [] => (c, none)
  | c, t :: rest =>
    match runTop k c t with
    | (c', none) => runTops k c' rest
    | r => r

def runDoc (k : Kind) (c : Core) : Doc → Core × Option Err
  | .badJson => (c, some .api)
  | .notObject => (c, some .other)
  | .obj tops => runTops k c tops

/-- `Flow.backup()`: `if not self._backup: self._backup = self.get_state()` -/
def Flow.doBackup (σ : Flow) : Flow :=
  match σ.backup with
  | some _ => σ
  | none => { σ with backup := some σ.cur }

/-- `Flow.revert()`: `if self._backup: self.set_state(self._backup); self._backup = None` -/
def Flow.revert (σ : Flow) : Flow :=
  match σ.backup with
  | some b => { cur := b, backup := none }
  | none => σ

/-- `set_state(get_state())` round trip of the pre-PUT snapshot: state and backup as they were -/
def Flow.restore (_now old : Flow) : Flow := { cur := old.cur, backup := old.backup }

inductive Status | ok | refused400 | error500
deriving DecidableEq, Repr

/-- `FlowHandler.put` (current code) -/
def put (k : Kind) (σ : Flow) (d : Doc) : Status × Flow :=
  let old := σ                                  -- old_state = flow.get_state()
  let σ1 := σ.doBackup                          -- flow.backup()
  match runDoc k σ1.cur d with
  | (c, none) => (.ok, { σ1 with cur := c })    -- self.view.update([flow])
  | (c, some _) => (.refused400, Flow.restore { σ1 with cur := c } old)   -- except Exception: set_state(old_state); 400

/-- `FlowHandler.put` before the fix: `except APIError: flow.revert(); raise` -/
def putOld (k : Kind) (σ : Flow) (d : Doc) : Status × Flow :=
  let σ1 := σ.doBackup
  match runDoc k σ1.cur d with
  | (c, none) => (.ok, { σ1 with cur := c })
  | (c, some .api) => (.refused400, Flow.revert { σ1 with cur := c })
  | (c, some .other) => (.error500, { σ1 with cur := c })

/-! ### what "applies completely" and "has an invalid part" mean -/

def stepsEffects : List Step → List Nat
  | [] => []
  | .eff i :: r => i :: stepsEffects r
  | .fail :: r => stepsEffects r

def stepsValid : List Step → Bool
  | [] => true
  | .eff _ :: r => stepsValid r
  | .fail :: _ => false

def leavesEffects : List Leaf → List Nat
  | [] => []
  | l :: r => stepsEffects l.steps ++ leavesEffects r

def leavesValid (known : Key → Bool) : List Leaf → Bool
  | [] => true
  | l :: r => known l.key && stepsValid l.steps && leavesValid known r

def Top.effects : Top → List Nat
  | .request (some ls) => leavesEffects ls
  | .response (some ls) => leavesEffects ls
  | .marked st => stepsEffects st
  | .comment st => stepsEffects st
  | _ => []

def Top.valid (k : Kind) : Top → Bool
  | .request (some ls) => k.hasReq && leavesValid Key.forRequest ls
  | .response (some ls) => k.hasResp && leavesValid Key.forResponse ls
  | .marked st => stepsValid st
  | .comment st => stepsValid st
  | _ => false

def topsEffects : List Top → List Nat
  | [] => []
  | t :: r => t.effects ++ topsEffects r

def topsValid (k : Kind) : List Top → Bool
  | [] => true
  | t :: r => t.valid k && topsValid k r

/-- every update the document asks for, in document order -/
def Doc.effects : Doc → List Nat
  | .obj tops => topsEffects tops
  | _ => []

/-- no part of the document is invalid: it is an object, every key is known for this flow, every setter succeeds -/
def Doc.valid (k : Kind) : Doc → Bool
  | .obj tops => topsValid k tops
  | _ => false


/-! ## the per-key dispatch with typed effects: which field of the flow every primitive step writes

  `Doc.ops` transcribes the `if/elif` chains of `FlowHandler.put`: for every key that dispatches to a setter, the
  field it targets and the kind of write (`setattr(msg, k, conv(v))`, `headers.clear()`, `headers.add(*pair)`).
  `interp` is what those writes leave in the fields.  A field value is symbolic: `orig` (what the flow had before the
  session), `scalar id` (the converted document value written by effect `id`) or `pairs ids` (a header list made of
  the pairs added by effects `ids`).  Side effects of the library setters on *other* fields (Host header after a
  host/port change, Content-Length after a content change) are outside this model. -/

inductive Field
  | reqMethod | reqScheme | reqHost | reqPath | reqVersion | reqPort | reqHeaders | reqTrailers | reqContent
  | respReason | respVersion | respCode | respHeaders | respTrailers | respContent | marked | comment
deriving DecidableEq, Repr

inductive FVal
  | orig | scalar (id : Nat) | pairs (ids : List Nat)
deriving DecidableEq, Repr

inductive Op
  | set (id : Nat)        -- `setattr(message, key, converted value)` / `flow.marked = b` / `flow.comment = b`
  | clear (id : Nat)      -- `headers.clear()` (or a fresh `Headers()` for absent trailers)
  | add (id : Nat)        -- `headers.add(*pair)`
deriving DecidableEq, Repr

def Op.id : Op → Nat
  | .set i | .clear i | .add i => i

abbrev Fields := Field → FVal

def Fields.put (fs : Fields) (f : Field) (v : FVal) : Fields := fun g => if g = f then v else fs g

/-- request branch: `k in [method, scheme, host, path, http_version]`, `port`, `headers`, `trailers`, `content` -/
def reqField : Key → Option Field
  | .method => some .reqMethod | .scheme => some .reqScheme | .host => some .reqHost | .path => some .reqPath
  | .httpVersion => some .reqVersion | .port => some .reqPort | .headers => some .reqHeaders
  | .trailers => some .reqTrailers | .content => some .reqContent
  | _ => none

/-- response branch: `reason`, `http_version`, `code`, `headers`, `trailers`, `content` -/
def respField : Key → Option Field
  | .reason => some .respReason | .httpVersion => some .respVersion | .code => some .respCode
  | .headers => some .respHeaders | .trailers => some .respTrailers | .content => some .respContent
  | _ => none

def Key.isList : Key → Bool
  | .headers | .trailers => true
  | _ => false

def scalarOps (f : Field) : List Step → List (Field × Op)
  | [] => []
  | .eff i :: r => (f, .set i) :: scalarOps f r
  | .fail :: r => scalarOps f r

def addOps (f : Field) : List Step → List (Field × Op)
  | [] => []
  | .eff i :: r => (f, .add i) :: addOps f r
  | .fail :: r => addOps f r

/-- `headers.clear()` then one `add` per pair -/
def listOps (f : Field) : List Step → List (Field × Op)
  | [] => []
  | .eff i :: r => (f, .clear i) :: addOps f r
  | .fail :: r => listOps f r

def leafOps (field : Key → Option Field) (l : Leaf) : List (Field × Op) :=
  match field l.key with
  | some f => if l.key.isList then listOps f l.steps else scalarOps f l.steps
  | none => []

def leavesOps (field : Key → Option Field) : List Leaf → List (Field × Op)
  | [] => []
  | l :: r => leafOps field l ++ leavesOps field r

def Top.ops : Top → List (Field × Op)
  | .request (some ls) => leavesOps reqField ls
  | .response (some ls) => leavesOps respField ls
  | .marked st => scalarOps .marked st
  | .comment st => scalarOps .comment st
  | _ => []

def topsOps : List Top → List (Field × Op)
  | [] => []
  | t :: r => t.ops ++ topsOps r

/-- the typed writes of a document, in document order -/
def Doc.ops : Doc → List (Field × Op)
  | .obj tops => topsOps tops
  | _ => []

def applyOp (fs : Fields) (w : Field × Op) : Fields :=
  match w.2 with
  | .set i => fs.put w.1 (.scalar i)
  | .clear _ => fs.put w.1 (.pairs [])
  | .add i =>
    match fs w.1 with
    | .pairs l => fs.put w.1 (.pairs (l ++ [i]))
    | _ => fs.put w.1 (.pairs [i])

def interp (fs : Fields) : List (Field × Op) → Fields
  | [] => fs
  | w :: r => interp (applyOp fs w) r

/-- `FlowHandler.put` on the fields: commit every write of a valid document, else leave everything as it was -/
def putF (k : Kind) (fs : Fields) (d : Doc) : Status × Fields :=
  if d.valid k then (.ok, interp fs d.ops) else (.refused400, fs)

end MitmVerif.C47
