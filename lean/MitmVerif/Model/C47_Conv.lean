/-
  C47 — the conversions whose failure makes an edit document "malformed" in the sense of the property statement,
  transcribed instead of observed:
  * `int(v)` of the JSON value given for `port` / `code` (Python's `int()` on str is `C44.pyInt`),
  * `_str_pair(header)` of `mitmproxy.tools.web.app` and the `Headers.add` that follows it (`_always_bytes` = `C35.encodeSE`),
  * the iteration `for header in v` over the JSON value given for `headers` / `trailers`.
  From these the model *predicts* the success/failure pattern of the primitive steps of such a key, which the
  correspondence run compares with what the real setters did.
-/
import MitmVerif.Model.C47
import MitmVerif.Model.C44
namespace MitmVerif.C47
open MitmVerif

/-- a JSON value as `int()` sees it -/
inductive Scalar
  | null | bool | int
  | float (finite : Bool)
  | str (s : C44.PyStr)          -- code points
  | container                    -- list / object
deriving DecidableEq, Repr

/-- does `int(v)` return? (`None`/containers: TypeError, NaN: ValueError, ±inf: OverflowError, text: `int()` grammar) -/
def intOk : Scalar → Bool
  | .null => false
  | .bool => true
  | .int => true
  | .float fin => fin
  | .str s => (C44.pyInt s).isSome
  | .container => false

inductive Item
  | str (s : C35.PyStr)
  | other
deriving DecidableEq, Repr

/-- one element of the iterated value, as `_str_pair` sees it -/
inductive Elem
  | notSeq                        -- `not isinstance(pair, (list, tuple))`
  | seq (items : List Item)
deriving DecidableEq, Repr

/-- `_str_pair`: a list of length 2 whose items are both `str` -/
def strPair : Elem → Option (C35.PyStr × C35.PyStr)
  | .seq [.str a, .str b] => some (a, b)
  | _ => none

/-- `headers.add(*_str_pair(header))`: the pair check, then both strings must encode (utf-8, surrogateescape) -/
def addOk (e : Elem) : Bool :=
  match strPair e with
  | some (a, b) => (C35.encodeSE a).isSome && (C35.encodeSE b).isSome
  | none => false

/-- the JSON value given for `headers` / `trailers`, as `for header in v` sees it -/
inductive Container
  | list (es : List Elem)
  | chars (n : Nat)               -- a string: iterating yields its `n` one-character strings
  | keys (n : Nat)                -- an object: iterating yields its `n` keys (strings)
  | notIterable                   -- null / number / bool: `iter(v)` raises
deriving DecidableEq, Repr

/-- the attempted steps up to and including the first failure -/
def firstFail : List Bool → List Bool
  | [] => []
  | true :: r => true :: firstFail r
  | false :: _ => [false]

/-- outcomes of `headers.clear()` followed by the loop of `add`s -/
def headerOutcomes (c : Container) : List Bool :=
  true :: firstFail (match c with
    | .list es => es.map addOk
    | .chars n => if n = 0 then [] else [false]        -- a one-character string is not a pair
    | .keys n => if n = 0 then [] else [false]
    | .notIterable => [false])

/-- steps with effect ids for a list of outcomes (`ids` are consumed in order; missing ids count as 0) -/
def mkSteps : List Nat → List Bool → List Step
  | _, [] => []
  | i :: is, true :: os => .eff i :: mkSteps is os
  | [], true :: os => .eff 0 :: mkSteps [] os
  | is, false :: os => .fail :: mkSteps is.tail os

def headersLeaf (key : Key) (ids : List Nat) (c : Container) : Leaf := ⟨key, mkSteps ids (headerOutcomes c)⟩

def intLeaf (key : Key) (id : Nat) (v : Scalar) : Leaf := ⟨key, mkSteps [id] [intOk v]⟩

/-! ### a whole editing session -/

def runSession (k : Kind) : Flow → List Doc → Flow
  | σ, [] => σ
  | σ, d :: r => runSession k (put k σ d).2 r

def sessionEffects (k : Kind) : List Doc → List Nat
  | [] => []
  | d :: r => (if d.valid k then d.effects else []) ++ sessionEffects k r


/-- `setattr(message, key, str(v))` for method / scheme / path / http_version: `always_bytes(str(v), "utf-8", "surrogateescape")`
    — `str()` of a JSON scalar other than a string is ASCII; a string must encode (no lone surrogate outside U+DC80–DCFF) -/
def utf8Ok : Scalar → Bool
  | .str s => (C35.encodeSE s).isSome
  | _ => true

/-- `response.reason = str(v)`: `always_bytes(str(v), "ISO-8859-1")` (strict): every code point below 256 -/
def latin1Ok : Scalar → Bool
  | .str s => s.all (· < 256)
  | _ => true

end MitmVerif.C47
