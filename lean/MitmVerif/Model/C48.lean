/-
  C48 — exported commands reproduce the request and are shell-safe.

  `Sh`     : `shlex.quote` (Python, `re.ASCII` safe set) and a POSIX-shell reading of a command line that is made of
             the constructs the exporter emits: unquoted words over the safe set, single-quoted and double-quoted
             segments, the here-string operator `<<<` (bash) and one level of `"$(printf FORMAT)"` command
             substitution with `printf` format interpretation (`\\`, `%%`, `\xHH` when the shell's printf knows
             `\x`) and trailing-newline stripping.  Anything else unquoted (`;`, `|`, `&`, `$`, backtick, glob
             characters, backslash, …) makes the reading `none`: the model refuses to interpret it, so a theorem
             `run … = some …` also says that no such character is exposed to the shell.
  `curlCommand`, `httpieCommand` : `mitmproxy.addons.export.curl_command` / `httpie_command` over a request whose
             library-computed parts (`pretty_url`, `pretty_host`, decoded text) are inputs.
  `decodeCurl` : what the curl command line means (the options the exporter uses).
  `rawRequest`, `parseRaw` : `assemble_request` for a request without trailers and a minimal HTTP/1 reader.
-/
import MitmVerif.Basic.Bytes
namespace MitmVerif.C48

/-! ## shell -/
namespace Sh

/-- ASCII letters, digits and `_ @ % + = : , . / -`: the complement of `shlex._find_unsafe` (compiled with `re.ASCII`) -/
def safe (c : UInt8) : Bool :=
  (48 ≤ c.toNat && c.toNat ≤ 57) || (65 ≤ c.toNat && c.toNat ≤ 90) || (97 ≤ c.toNat && c.toNat ≤ 122)
  || c = 95 || c = 64 || c = 37 || c = 43 || c = 61 || c = 58 || c = 44 || c = 46 || c = 47 || c = 45

def qSq : Bytes := [39, 34, 39, 34, 39]          -- '"'"'

/-- `s.replace("'", "'\"'\"'")` -/
def escSq : Bytes → Bytes
  | [] => []
  | c :: r => if c = 39 then qSq ++ escSq r else c :: escSq r

/-- `shlex.quote` -/
def quote (s : Bytes) : Bytes :=
  if s.isEmpty then [39, 39]
  else if s.all safe then s
  else [39] ++ escSq s ++ [39]

def joinSp : List Bytes → Bytes
  | [] => []
  | [a] => a
  | a :: r => a ++ [32] ++ joinSp r

/-- `printf FORMAT` without arguments.  `hex`: this printf understands `\xHH` (bash builtin; dash prints it
    literally).  Only the escapes the exporter emits are interpreted; any other `\` or `%` sequence is `none`. -/
def hexVal (c : UInt8) : Option Nat :=
  let n := c.toNat
  if 48 ≤ n ∧ n ≤ 57 then some (n - 48)
  else if 97 ≤ n ∧ n ≤ 102 then some (n - 87)
  else if 65 ≤ n ∧ n ≤ 70 then some (n - 55)
  else none

inductive PfSt
  | n | bs | x0 | x1 (hi : Nat) | o1 (v : Nat) | o2 (v : Nat) | pct
deriving DecidableEq, Repr

/-- one format byte: next state and the bytes printed -/
def pfStep (hex : Bool) (st : PfSt) (c : UInt8) : Option (PfSt × Bytes) :=
  match st with
  | .n => if c = 92 then some (.bs, []) else if c = 37 then some (.pct, []) else some (.n, [c])
  | .bs =>
    if c = 92 then some (.n, [92])
    else if c = 120 then (if hex then some (.x0, []) else some (.n, [92, 120]))
    else if 48 ≤ c.toNat ∧ c.toNat ≤ 55 then some (.o1 (c.toNat - 48), [])      -- \ddd (three octal digits, POSIX)
    else none
  | .x0 => match hexVal c with
    | some a => some (.x1 a, [])
    | none => none
  | .x1 a => match hexVal c with
    | some b => some (.n, [UInt8.ofNat (a * 16 + b)])
    | none => none
  | .o1 v => if 48 ≤ c.toNat ∧ c.toNat ≤ 55 then some (.o2 (v * 8 + (c.toNat - 48)), []) else none
  | .o2 v => if 48 ≤ c.toNat ∧ c.toNat ≤ 55 then some (.n, [UInt8.ofNat (v * 8 + (c.toNat - 48))]) else none
  | .pct => if c = 37 then some (.n, [37]) else none

def pfGo (hex : Bool) : PfSt → Bytes → Option Bytes
  | st, [] => if st = .n then some [] else none
  | st, c :: r =>
    match pfStep hex st c with
    | some (st', out) => (pfGo hex st' r).map (out ++ ·)
    | none => none

def printfFmt (hex : Bool) (fmt : Bytes) : Option Bytes := pfGo hex .n fmt

/-- command substitution removes every trailing newline -/
def stripNl (b : Bytes) : Bytes :=
  (b.reverse.dropWhile (· = 10)).reverse

inductive Mode
  | normal | sq | dq | dqDollar
deriving DecidableEq, Repr

/-- a word under construction: its bytes and whether it contains an unquoted `<` -/
structure Word where
  bytes : Bytes
  op : Bool
deriving DecidableEq, Repr

structure St where
  mode : Mode
  cur : Option Word
  acc : List Word                         -- finished words, most recent first
  frame : Option (Option Word × List Word) -- the outer word/words while inside `"$( … )"`
deriving DecidableEq, Repr

def St.init : St := ⟨.normal, none, [], none⟩

def Word.push (w : Option Word) (c : UInt8) : Option Word :=
  match w with
  | some w => some ⟨w.bytes ++ [c], w.op⟩
  | none => some ⟨[c], false⟩

def Word.pushOp (w : Option Word) (c : UInt8) : Option Word :=
  match w with
  | some w => some ⟨w.bytes ++ [c], true⟩
  | none => some ⟨[c], true⟩

def Word.start (w : Option Word) : Option Word :=
  match w with
  | some w => some w
  | none => some ⟨[], false⟩

def Word.append (w : Option Word) (b : Bytes) : Option Word :=
  match w with
  | some w => some ⟨w.bytes ++ b, w.op⟩
  | none => some ⟨b, false⟩

def finish (s : St) : List Word :=
  match s.cur with
  | some w => w :: s.acc
  | none => s.acc

def sPrintf : Bytes := [112, 114, 105, 110, 116, 102]

/-- one byte of the command line -/
def step (hex : Bool) (s : St) (c : UInt8) : Option St :=
  match s.mode with
  | .sq => if c = 39 then some { s with mode := .normal } else some { s with cur := Word.push s.cur c }
  | .dq =>
    if c = 34 then some { s with mode := .normal }
    else if c = 36 then some { s with mode := .dqDollar }
    else if c = 92 ∨ c = 96 then none
    else some { s with cur := Word.push s.cur c }
  | .dqDollar =>
    if c = 40 then
      match s.frame with
      | some _ => none
      | none => some ⟨.normal, none, [], some (s.cur, s.acc)⟩
    else none
  | .normal =>
    if c = 32 then some { s with cur := none, acc := finish s }
    else if c = 39 then some { s with mode := .sq, cur := Word.start s.cur }
    else if c = 34 then some { s with mode := .dq, cur := Word.start s.cur }
    else if c = 60 then some { s with cur := Word.pushOp s.cur c }
    else if c = 41 then
      match s.frame with
      | none => none
      | some (ocur, oacc) =>
        -- the inner command must be exactly `printf FORMAT`
        match (finish s).reverse with
        | [p, f] =>
          -- a format that starts with `-` is taken for an option by printf ("Illegal option"): not modelled
          if p.bytes = sPrintf ∧ p.op = false ∧ f.op = false ∧ f.bytes.head? ≠ some 45 then
            match printfFmt hex f.bytes with
            | some out => some ⟨.dq, Word.append ocur (stripNl out), oacc, none⟩
            | none => none
          else none
        | _ => none
    else if safe c then some { s with cur := Word.push s.cur c }
    else none

def steps (hex : Bool) : St → Bytes → Option St
  | s, [] => some s
  | s, c :: r => match step hex s c with
    | some s' => steps hex s' r
    | none => none

structure Exec where
  argv : List Bytes
  stdin : Option Bytes        -- here-string contents (the word followed by a newline)
deriving DecidableEq, Repr

def sHere : Bytes := [60, 60, 60]

/-- words → simple command with at most one here-string redirection -/
def interp : List Word → Option Exec
  | [] => some ⟨[], none⟩
  | w :: r =>
    if w.op then
      if w.bytes = sHere then
        match r with
        | x :: r' =>
          if x.op then none else
          match interp r' with
          | some ⟨av, none⟩ => some ⟨av, some (x.bytes ++ [10])⟩
          | _ => none
        | [] => none
      else none
    else (interp r).map fun e => ⟨w.bytes :: e.argv, e.stdin⟩

/-- how a POSIX shell (bash when `<<<` or `\x` is involved) reads the command line: the simple command it executes -/
def run (hex : Bool) (cmd : Bytes) : Option Exec :=
  match steps hex St.init cmd with
  | some s =>
    if s.mode = .normal ∧ s.frame = none then interp (finish s).reverse else none
  | none => none

end Sh

/-! ## the exporter -/

inductive Body
  | none                 -- `not request.content`
  | binary               -- content that `get_text(strict=True)` rejects
  | text (t : Bytes)     -- UTF-8 bytes of the decoded text (non-empty)
deriving DecidableEq, Repr

structure Req where
  method : Bytes
  host : Bytes                         -- `request.host`
  prettyHost : Bytes
  port : Nat
  url : Bytes                          -- `request.pretty_url`
  headers : List (Bytes × Bytes)
  body : Body
deriving DecidableEq, Repr

def lname (n : Bytes) : Bytes := asciiLower n

/-- `Headers.get(name)`: all values of that name joined by ", " (`none` if absent) -/
def getJoined (hs : List (Bytes × Bytes)) (name : Bytes) : Option Bytes :=
  match (hs.filter (fun h => lname h.1 = name)).map (·.2) with
  | [] => none
  | v :: vs => some (vs.foldl (fun a b => a ++ [44, 32] ++ b) v)

def dropName (hs : List (Bytes × Bytes)) (name : Bytes) : List (Bytes × Bytes) :=
  hs.filter (fun h => lname h.1 ≠ name)

/-- `pop_headers` -/
def popHeaders (host : Bytes) (hs : List (Bytes × Bytes)) : List (Bytes × Bytes) :=
  let h1 := dropName hs ([99, 111, 110, 116, 101, 110, 116, 45, 108, 101, 110, 103, 116, 104])
  let h2 := if (getJoined h1 ([104, 111, 115, 116])).getD [] = host then dropName h1 ([104, 111, 115, 116]) else h1
  if (getJoined h2 ([58, 97, 117, 116, 104, 111, 114, 105, 116, 121])).getD [] = host then dropName h2 ([58, 97, 117, 116, 104, 111, 114, 105, 116, 121]) else h2

def hexDigit (n : Nat) : UInt8 := if n < 10 then UInt8.ofNat (48 + n) else UInt8.ofNat (87 + n)

/-- the `printf_escapes` table -/
def escByte (c : UInt8) : Bytes :=
  if c.toNat < 32 then [92, 120, hexDigit (c.toNat / 16), hexDigit (c.toNat % 16)]
  else if c = 92 then [92, 92]
  else if c = 37 then [37, 37]
  else [c]

def hasCtl (t : Bytes) : Bool := t.any (fun c => c.toNat < 32)

/-- the printf format for a text: every character through `printf_escapes`, a leading `-` spelled `\055` -/
def escText (t : Bytes) : Bytes :=
  match t with
  | c :: r => if c = 45 then [92, 48, 53, 53] ++ r.flatMap escByte else (c :: r).flatMap escByte
  | [] => []

/-- `request_content_for_console` on a decodable text -/
def contentForConsole (t : Bytes) : Bytes :=
  if hasCtl t then [34, 36, 40, 112, 114, 105, 110, 116, 102, 32] ++ Sh.quote (escText t) ++ [41, 34]
  else Sh.quote t

def decBytes (n : Nat) : Bytes := (toString n).toUTF8.toList

/-- `str.strip()` whitespace on the ASCII range: SP, TAB LF VT FF CR, FS GS RS US (non-ASCII spaces are outside the model) -/
def isPyWs (c : UInt8) : Bool := c = 32 || (9 ≤ c.toNat && c.toNat ≤ 13) || (28 ≤ c.toNat && c.toNat ≤ 31)

/-- `_header_arg`: `"Name;"` for a header whose value is empty or blank (curl and httpie read `Name:` as "remove this
    header"), else `"Name: value"` -/
def headerArg (h : Bytes × Bytes) : Bytes :=
  if h.2.all isPyWs then h.1 ++ [59] else h.1 ++ [58, 32] ++ h.2

/-- the header form before fix 0f1b16ec7 -/
def headerArgOld (h : Bytes × Bytes) : Bytes := h.1 ++ [58, 32] ++ h.2

/-- curl's `ISSPACE` -/
def isCurlSpace (c : UInt8) : Bool := c = 32 || (9 ≤ c.toNat && c.toNat ≤ 13)

/-- the header line curl puts on the wire for one `-H` argument (`Curl_add_custom_headers`): with a colon, the argument
    itself unless nothing but spaces follows the colon (then the header is removed / not sent); without a colon, `name;`
    (the first `;` being the last character) is sent as `name:`; anything else is ignored -/
def sentHeader (a : Bytes) : Option Bytes :=
  if a.contains 58 then
    (if ((a.dropWhile (· != 58)).drop 1).dropWhile isCurlSpace = [] then none else some a)
  else if a.dropWhile (· != 59) = [59] then some (a.takeWhile (· != 59) ++ [58])
  else none

/-- httpie's reading of one request item, from its documented grammar (NOT tied: httpie is not installed): the item is cut
    at the first of `: = @ ;`; `Name:value` is a header (value without leading blanks), `Name:` alone UNSETS the header,
    `Name;` is a header with an empty value; `:=`, `=`, `==`, `@` items are data / query / file fields; `\` escapes are not
    modelled (`other`) -/
inductive HItem
  | header (n v : Bytes) | emptyHeader (n : Bytes) | unsetHeader (n : Bytes) | other
deriving DecidableEq, Repr

def isItemSep (c : UInt8) : Bool := c = 58 || c = 61 || c = 64 || c = 59

def httpieItem (a : Bytes) : HItem :=
  if a.contains 92 then .other
  else
    match a.dropWhile (fun c => !isItemSep c) with
    | 58 :: 61 :: _ => .other
    | 58 :: v => if v.dropWhile isPyWs = [] then .unsetHeader (a.takeWhile (fun c => !isItemSep c))
                 else .header (a.takeWhile (fun c => !isItemSep c)) (v.dropWhile isPyWs)
    | [59] => .emptyHeader (a.takeWhile (fun c => !isItemSep c))
    | _ => .other

def sH : Bytes := [45, 72]
def sX : Bytes := [45, 88]
def sD : Bytes := [45, 100]
def sResolve : Bytes := [45, 45, 114, 101, 115, 111, 108, 118, 101]
def sCompressed : Bytes := [45, 45, 99, 111, 109, 112, 114, 101, 115, 115, 101, 100]
def sGloboff : Bytes := [45, 45, 103, 108, 111, 98, 111, 102, 102]
def sPathAsIs : Bytes := [45, 45, 112, 97, 116, 104, 45, 97, 115, 45, 105, 115]
def sAE : Bytes := [97, 99, 99, 101, 112, 116, 45, 101, 110, 99, 111, 100, 105, 110, 103]
def sCL0 : Bytes := [99, 111, 110, 116, 101, 110, 116, 45, 108, 101, 110, 103, 116, 104, 58, 32, 48]

def curlHeaderArgs : List (Bytes × Bytes) → List Bytes
  | [] => []
  | h :: r =>
    (if lname h.1 = sAE then [sCompressed] else [sH, headerArg h]) ++ curlHeaderArgs r

def sGET : Bytes := [71, 69, 84]

/-- `any(c in url for c in "[]{}")`: curl would read these as URL globbing patterns -/
def hasGlob (u : Bytes) : Bool := u.any (fun c => c = 91 || c = 93 || c = 123 || c = 125)

/-- `"/." in url`: the path may hold dot segments, which curl would remove (`/a/../b` → `/b`) -/
def hasSlashDot : Bytes → Bool
  | [] => false
  | [_] => false
  | a :: b :: r => (a = 47 && b = 46) || hasSlashDot (b :: r)

/-- the `args` list of `curl_command`; `addr`: `f.server_conn.peername[0]` -/
def curlArgs (preserve : Bool) (addr : Option Bytes) (r : Req) : List Bytes :=
  let resolve : List Bytes :=
    match addr with
    | some a =>
      if preserve ∧ ¬ a.isEmpty ∧ r.prettyHost ≠ a then
        [sResolve, r.prettyHost ++ [58] ++ decBytes r.port ++ [58, 91] ++ a ++ [93]]
      else []
    | none => []
  let meth : List Bytes :=
    if r.method ≠ sGET then
      (if r.body = .none then [sH, sCL0] else []) ++ [sX, r.method]
    else if r.body ≠ .none then [sX, sGET]
    else []
  [[99, 117, 114, 108]] ++ (if hasGlob r.url then [sGloboff] else []) ++ (if hasSlashDot r.url then [sPathAsIs] else []) ++ resolve ++
    curlHeaderArgs (popHeaders r.host r.headers) ++ meth ++ [r.url]

/-- `curl_command`; `none` = CommandError("Request content must be valid unicode") -/
def curlCommand (preserve : Bool) (addr : Option Bytes) (r : Req) : Option Bytes :=
  let cmd := Sh.joinSp ((curlArgs preserve addr r).map Sh.quote)
  match r.body with
  | .none => some cmd
  | .binary => none
  | .text t => some (cmd ++ [32, 45, 100, 32] ++ contentForConsole t)

def httpieArgs (r : Req) : List Bytes :=
  [[104, 116, 116, 112], r.method, r.url] ++ (popHeaders r.host r.headers).map headerArg

def httpieCommand (r : Req) : Option Bytes :=
  let cmd := Sh.joinSp ((httpieArgs r).map Sh.quote)
  match r.body with
  | .none => some cmd
  | .binary => none
  | .text t => some (cmd ++ [32, 60, 60, 60, 32] ++ contentForConsole t)

/-! ## what a curl command line means (only the options the exporter uses) -/

structure Curl where
  method : Option Bytes := none
  headers : List Bytes := []           -- `-H` values in order
  compressed : Bool := false
  globoff : Bool := false               -- `--globoff`: the URL is taken literally
  pathAsIs : Bool := false              -- `--path-as-is`: dot segments are kept
  resolve : List Bytes := []
  data : Option Bytes := none
  urls : List Bytes := []
deriving DecidableEq, Repr

/-- an option waiting for its value -/
inductive Pend
  | none | H | X | D | R
deriving DecidableEq, Repr

def decStep (st : Pend) (c : Curl) (a : Bytes) : Option (Pend × Curl) :=
  match st with
  | .H => some (.none, { c with headers := c.headers ++ [a] })
  | .X => some (.none, { c with method := some a })
  | .D => some (.none, { c with data := some a })
  | .R => some (.none, { c with resolve := c.resolve ++ [a] })
  | .none =>
    if a = sH then some (.H, c)
    else if a = sX then some (.X, c)
    else if a = sD then some (.D, c)
    else if a = sResolve then some (.R, c)
    else if a = sCompressed then some (.none, { c with compressed := true })
    else if a = sGloboff then some (.none, { c with globoff := true })
    else if a = sPathAsIs then some (.none, { c with pathAsIs := true })
    else if a.head? = some 45 then none                 -- an option the exporter never emits
    else some (.none, { c with urls := c.urls ++ [a] })

def decodeCurlArgs : List Bytes → Pend → Curl → Option Curl
  | [], .none, c => some c
  | [], _, _ => none
  | a :: r, st, c =>
    match decStep st c a with
    | some (st', c') => decodeCurlArgs r st' c'
    | none => none

/-- the request curl sends: method (`-X`, else POST with `-d`, else GET), url, `-H` lines, data -/
def Curl.effMethod (c : Curl) : Bytes :=
  match c.method with
  | some m => m
  | none => if c.data.isSome then [80, 79, 83, 84] else sGET

def decodeCurl (argv : List Bytes) : Option Curl :=
  match argv with
  | _ :: r => decodeCurlArgs r .none {}
  | [] => none

/-! ## raw export -/

structure RawReq where
  method : Bytes
  target : Bytes
  version : Bytes
  fields : List (Bytes × Bytes)
  body : Bytes
deriving DecidableEq, Repr

def crlf : Bytes := [13, 10]

def fieldLine (f : Bytes × Bytes) : Bytes := f.1 ++ [58, 32] ++ f.2 ++ crlf

/-- `assemble_request` for a request without `Transfer-Encoding: chunked` and without trailers -/
def rawRequest (r : RawReq) : Bytes :=
  r.method ++ [32] ++ r.target ++ [32] ++ r.version ++ crlf ++ r.fields.flatMap fieldLine ++ crlf ++ r.body

/-- request-target as `_assemble_request_line` writes it -/
def requestTarget (method scheme authority path : Bytes) : Bytes :=
  if asciiUpper method = [67, 79, 78, 78, 69, 67, 84] then authority
  else if !authority.isEmpty then scheme ++ [58, 47, 47] ++ authority ++ path
  else path

def isPrefix : Bytes → Bytes → Bool
  | [], _ => true
  | _ :: _, [] => false
  | a :: r, b :: t => a == b && isPrefix r t

def containsSub (needle : Bytes) : Bytes → Bool
  | [] => needle.isEmpty
  | c :: r => isPrefix needle (c :: r) || containsSub needle r

/-- `"chunked" in headers.get("transfer-encoding", "").lower()` -/
def isChunked (fs : List (Bytes × Bytes)) : Bool :=
  containsSub [99, 104, 117, 110, 107, 101, 100] (asciiLower ((getJoined fs [116, 114, 97, 110, 115, 102, 101, 114, 45, 101, 110, 99, 111, 100, 105, 110, 103]).getD []))

/-- lower-case hex digits of `n`, least significant first (`fuel` > number of digits) -/
def hexRev : Nat → Nat → Bytes
  | 0, _ => []
  | f + 1, n => if n < 16 then [hexDigit n] else hexDigit (n % 16) :: hexRev f (n / 16)

/-- `b"%x" % n` -/
def hexNat (n : Nat) : Bytes := (hexRev (n + 1) n).reverse

/-- `assemble_request` (no trailers): the chunked branch re-frames the content as one chunk -/
def assembleRequest (r : RawReq) : Option Bytes :=
  if isChunked r.fields then
    some (r.method ++ [32] ++ r.target ++ [32] ++ r.version ++ crlf ++ r.fields.flatMap fieldLine ++ crlf ++
      (if r.body.isEmpty then [] else hexNat r.body.length ++ crlf ++ r.body ++ crlf) ++ [48, 13, 10, 13, 10])
  else some (rawRequest r)

/-- read up to (excluding) the first byte satisfying `p`; `none` if there is none -/
def takeTo (p : UInt8 → Bool) : Bytes → Option (Bytes × Bytes)
  | [] => none
  | c :: r => if p c then some ([], r) else (takeTo p r).map fun (a, b) => (c :: a, b)

/-- one line terminated by CRLF (a CR must be followed by LF) -/
def takeLine (b : Bytes) : Option (Bytes × Bytes) :=
  match takeTo (fun x => x == 13) b with
  | some (l, 10 :: r) => some (l, r)
  | _ => none

def parseField (l : Bytes) : Option (Bytes × Bytes) :=
  match takeTo (fun x => x == 58) l with
  | some (n, 32 :: v) => some (n, v)
  | _ => none

def parseFields : Nat → Bytes → Option (List (Bytes × Bytes) × Bytes)
  | 0, _ => none
  | fuel + 1, b =>
    match takeLine b with
    | some ([], rest) => some ([], rest)
    | some (l, rest) =>
      match parseField l, parseFields fuel rest with
      | some f, some (fs, body) => some (f :: fs, body)
      | _, _ => none
    | none => none

/-- minimal HTTP/1 request reader: request-line split at single spaces, `name: value` field lines, the rest is the
    body (its length is checked against Content-Length by the caller / the Python reference parser) -/
def parseRaw (b : Bytes) : Option RawReq :=
  match takeLine b with
  | some (rl, rest) =>
    match takeTo (fun x => x == 32) rl with
    | some (m, r1) =>
      match takeTo (fun x => x == 32) r1 with
      | some (t, v) =>
        match parseFields (rest.length + 1) rest with
        | some (fs, body) => some ⟨m, t, v, fs, body⟩
        | none => none
      | none => none
    | none => none
  | none => none


/-- the body as `assemble_body` frames it under `Transfer-Encoding: chunked` (one chunk, no trailers) -/
def chunkedBody (body : Bytes) : Bytes :=
  (if body.isEmpty then [] else hexNat body.length ++ crlf ++ body ++ crlf) ++ [48, 13, 10, 13, 10]

/-- value of hex digits given least significant first -/
def valRev : Bytes → Option Nat
  | [] => some 0
  | c :: r => match Sh.hexVal c, valRev r with
    | some d, some v => some (d + 16 * v)
    | _, _ => none

def parseHex (b : Bytes) : Option Nat := if b.isEmpty then none else valRev b.reverse

/-- minimal chunked-body reader: `size CRLF data CRLF`… until a zero-size chunk followed by the final CRLF -/
def parseChunked : Nat → Bytes → Option Bytes
  | 0, _ => none
  | f + 1, b =>
    match takeLine b with
    | some (sz, rest) =>
      match parseHex sz with
      | some n =>
        if n = 0 then (if rest = crlf then some [] else none)
        else if rest.length < n + 2 then none
        else match rest.drop n with
          | 13 :: 10 :: rest' => (parseChunked f rest').map (rest.take n ++ ·)
          | _ => none
      | none => none
    | none => none

/-- read a raw request whose body is chunk-framed -/
def parseRawChunked (b : Bytes) : Option RawReq :=
  match parseRaw b with
  | some r => (parseChunked (r.body.length + 1) r.body).map fun body => { r with body := body }
  | none => none

end MitmVerif.C48
