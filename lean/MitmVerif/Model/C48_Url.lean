/-
  C48 — the URL argument of the exported commands.  `pretty_url` / `url` are `mitmproxy.net.http.url.unparse`
  (transcribed in `C33`: `hostport` brackets IPv6 literals and appends a non-default port); `dial` is how a
  URL-taking client (curl, httpie) reads the authority of that argument back (RFC 3986 §3.2): a bracketed literal or
  `host[:port]` with a single colon.
-/
import MitmVerif.Model.C33
namespace MitmVerif.C48
open MitmVerif

abbrev UStr := C33.Str

/-- scheme and the rest after the first `://` (the scheme itself holds no `:`) -/
def splitScheme (u : UStr) : Option (UStr × UStr) :=
  match u.dropWhile (· ≠ 58) with
  | 58 :: 47 :: 47 :: rest => some (u.takeWhile (· ≠ 58), rest)
  | _ => none

def authEnd (c : Nat) : Bool := c = 47 || c = 63 || c = 35          -- `/`, `?`, `#`

def isDig (c : Nat) : Bool := 48 ≤ c && c ≤ 57

/-- host and port text of an authority; `none`: not readable (e.g. an IPv6 literal without brackets) -/
def readAuthority (a : UStr) : Option (UStr × Option UStr) :=
  match a with
  | 91 :: r =>
    match r.dropWhile (· ≠ 93) with
    | [93] => some (r.takeWhile (· ≠ 93), none)
    | 93 :: 58 :: p => if !p.isEmpty && p.all isDig then some (r.takeWhile (· ≠ 93), some p) else none
    | _ => none
  | _ =>
    match a.dropWhile (· ≠ 58) with
    | [] => some (a, none)
    | 58 :: p => if !p.isEmpty && p.all isDig then some (a.takeWhile (· ≠ 58), some p) else none
    | _ => none

/-- what the URL makes a client connect to: host text and explicit port digits (none: the scheme's default port) -/
def dial (u : UStr) : Option (UStr × Option UStr) :=
  match splitScheme u with
  | some (_, rest) => readAuthority (rest.takeWhile (fun c => !authEnd c))
  | none => none

end MitmVerif.C48
