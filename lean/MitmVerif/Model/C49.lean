/-
  C49 — mitmdump output cannot inject terminal control sequences.

  * `escapeControl keep s` : model of `strutils.escape_control_characters(s, keep_spacing := keep)`.
    `str.translate` with a table: code points with an entry are replaced, all others are unchanged.
    The entries are `Gen.C49.ctrlTable`, regenerated on every run by calling the live function on every
    code point 0–0xFF, every key of the two translate tables and samples above.
  * the Dumper: every `self.echo(text, …)` call site of dumper.py is a row of `Gen.C49.echoLines` (static
    scan); `MayEcho` over-approximates what such a call can write: characters of the renderings of its
    pieces, the indentation / line breaks `indent` and `print` add, and the SGR frames `style` adds
    (their ESC observed as a sentinel).
  Strings are lists of code points (Python `str` may hold surrogates, so `Nat`, not `Char`).
-/
import MitmVerif.Gen.C49
import MitmVerif.Model.C51
namespace MitmVerif.C49
open MitmVerif.Gen.C49

/-- one code point through `str.translate(table)` -/
def escCp (keep : Bool) (cp : Nat) : List Nat :=
  match ctrlTable.lookup cp with
  | some (a, b) => if keep then a else b
  | none => [cp]

/-- `escape_control_characters(s, keep_spacing := keep)` -/
def escapeControl (keep : Bool) (s : List Nat) : List Nat := s.flatMap (escCp keep)

/-- Unicode general category Cc (C0, DEL, C1) -/
def isCc (c : Nat) : Bool := c < 0x20 || (0x7f ≤ c && c ≤ 0x9f)

/-- the characters the property allows in the output -/
def allowed (c : Nat) : Bool := !isCc c || c == 9 || c == 10 || c == 13

def Clean (s : List Nat) : Prop := ∀ c ∈ s, allowed c = true

instance (s : List Nat) : Decidable (Clean s) := by unfold Clean; infer_instance

/-- run-time values the echoed text is built from: arbitrary (attacker-chosen) texts and bytes, an arbitrary
    content view, and the texts mitmproxy generates itself from numbers and enum members -/
structure Env where
  text : String → List Nat
  bytes : String → Bytes
  view : List Nat → List Nat
  internal : String → List Nat

def fmtApply (env : Env) (o : String) : Fmt → List Nat
  | .esc => escapeControl true (env.text o)
  | .besc => (C51.enc false false (env.bytes o)).map (·.toNat)
  | .pretty => escapeControl true (env.view (env.text o))
  | .internal => env.internal o
  | .raw => env.text o

def renderPiece (env : Env) : Piece → List Nat
  | .lit cps => cps
  | .field o f => fmtApply env o f

/-- every character one call site can contribute from its pieces -/
def lineChars (env : Env) (pieces : List Piece) : List Nat := pieces.flatMap (renderPiece env)

/-- characters of the SGR frames `style` puts around its text; the ESC is observed as `sentinel` -/
def styleChar (sentinel c : Nat) : Bool :=
  c == sentinel || c == 0x5b || c == 0x3b || c == 0x6d || (0x30 ≤ c && c ≤ 0x39)

/-- `out` is something `echo` may write for a call site with these pieces (after `indent`, `style`, `print`) -/
def MayEcho (env : Env) (sentinel : Nat) (pieces : List Piece) (out : List Nat) : Prop :=
  ∀ c ∈ out, c ∈ lineChars env pieces ∨ c = 32 ∨ c = 10 ∨ styleChar sentinel c = true

def isRaw : Piece → Bool
  | .field _ .raw => true
  | _ => false

def litClean : Piece → Bool
  | .lit cps => cps.all allowed
  | _ => true

/-- a non-literal piece of call site `m` is listed in `echoPaths` -/
def pieceListed (m : String) : Piece → Bool
  | .field o f => echoPaths.contains (m, o, f)
  | .lit _ => true

end MitmVerif.C49
