/-
  C49 — vocabulary of the echo-path table generated from dumper.py (see Gen/C49.lean).
-/
namespace MitmVerif.C49

/-- the formatter a non-literal piece of an `echo` argument passes through -/
inductive Fmt where
  | esc        -- strutils.escape_control_characters(x)            (keep_spacing = True)
  | besc       -- strutils.bytes_to_escaped_str(x)
  | pretty     -- contentviews.prettify_message(..).text           (ends in escape_control_characters)
  | internal   -- text mitmproxy generates from numbers / enum members
  | raw        -- reaches `echo` without any formatter
  deriving DecidableEq, Repr

/-- a piece of the text handed to `Dumper.echo` -/
inductive Piece where
  | lit (cps : List Nat)                    -- a string literal of dumper.py (code points)
  | field (origin : String) (fmt : Fmt)     -- a run-time value, named by the expression it originates from
  deriving DecidableEq, Repr

end MitmVerif.C49
