/-
  C50 — content views always render safely; the DNS view re-encodes faithfully.

  * `prettifyText` : the text `contentviews.prettify_message` returns, as a function of what its parts evaluate to
    (body missing / the chosen view's result or exception / the raw view's text / auto or explicit choice).
    The view bodies (Python and Rust) are arbitrary: they only appear as the values `ViewOut`.
  * symbols: `types/classes/op_codes/response_codes.to_str / from_str` over the regenerated `_STRINGS` tables.
  * record data: `ResourceRecord._data_json` / `ResourceRecord.from_json` (type-specific codec results are inputs:
    `Codec` in the theorems, explicit arguments in the driver), the `0x…` / `0x… (invalid T data)` fallbacks and
    `bytes.fromhex(d.removeprefix("0x").partition(" (")[0])` are modelled concretely.
  * message: `DNSMessage.to_json` / `from_json` (reserved := 0), the DNS view = YAML ∘ to_json, escaped by
    `prettify_message`; reencode = from_json ∘ YAML load.  YAML is a parameter.
-/
import MitmVerif.Model.C49
import MitmVerif.Gen.C50
namespace MitmVerif.C50
open MitmVerif.C49 MitmVerif.Gen.C50

def cpsOf (s : String) : List Nat := s.toList.map Char.toNat

/-! ### prettify_message -/

/-- what `view.prettify(data, metadata)` did -/
inductive ViewOut where
  | text (t : List Nat)
  | raised (err : List Nat)      -- the formatted exception text shown to the user
  deriving Repr

structure PmIn where
  missing : Bool                 -- `get_data` returned None
  auto : Bool                    -- view_name == "auto"
  view : ViewOut                 -- result of the view chosen by `registry.get_view`
  rawText : List Nat             -- raw.prettify(data, metadata)
  name : List Nat                -- view.name

def contentMissing : List Nat := cpsOf "Content is missing."
def couldntParse : List Nat := cpsOf "Couldn't parse as "

/-- `prettify_message(message, flow, view_name).text` -/
def prettifyText (i : PmIn) : List Nat :=
  if i.missing then contentMissing
  else match i.view with
    | .text t => escapeControl true t
    | .raised err =>
      if i.auto then escapeControl true i.rawText
      else escapeControl true (couldntParse ++ i.name ++ [58, 10] ++ err)

/-! ### symbol names -/

def revLookup (tab : List (Nat × String)) (s : List Char) : Option Nat :=
  match tab with
  | [] => none
  | (n, name) :: rest => if name.toList = s then some n else revLookup rest s

def removePrefix {α} [BEq α] (p l : List α) : List α := if p.isPrefixOf l then l.drop p.length else l
def removeSuffix {α} [BEq α] (p l : List α) : List α := if p.isSuffixOf l then l.take (l.length - p.length) else l

/-- `to_str`: `_STRINGS.get(n, f"PRE({n})")` -/
def toStr (tab : List (Nat × String)) (pre : String) (n : Nat) : List Char :=
  match tab.lookup n with
  | some s => s.toList
  | none => pre.toList ++ '(' :: (Nat.repr n).toList ++ [')']

/-- `from_str`: `_INTS[s]`, else `int(s.removeprefix("PRE(").removesuffix(")"))`; none = raises.
    NOTE: `String.toNat?` is narrower than Python's `int()` (which also accepts `+5`, ` 5 `, `1_0`, non-ASCII digits): this is a model of
    `from_str` on the outputs of `to_str` only (the only texts fed back in the round trip, and the only ones tied). -/
def fromStr (tab : List (Nat × String)) (pre : String) (s : List Char) : Option Nat :=
  match revLookup tab s with
  | some n => some n
  | none => (String.ofList (removeSuffix [')'] (removePrefix (pre.toList ++ ['(']) s))).toNat?

def symTable (kind : String) : Option (List (Nat × String) × String) :=
  if kind = "type" then some (typeNames, "TYPE")
  else if kind = "class" then some (classNames, "CLASS")
  else if kind = "op" then some (opNames, "OPCODE")
  else if kind = "rcode" then some (rcodeNames, "RCODE")
  else none

/-! ### record data -/

/-- the JSON value of a record's `data`: a string, or (HTTPS only) an object, opaque here -/
inductive DataJ where
  | str (s : List Nat)
  | obj (h : List Nat)           -- an HTTPS-record JSON object, identified by an opaque code
  deriving DecidableEq, Repr

def hexDigitN (n : Nat) : Nat := if n < 10 then 48 + n else 87 + n

def hexChars (bs : Bytes) : List Nat := bs.flatMap (fun b => [hexDigitN (b.toNat / 16), hexDigitN (b.toNat % 16)])

/-- `f"0x{data.hex()}"` -/
def hexStr (bs : Bytes) : List Nat := 48 :: 120 :: hexChars bs

def invalidTail (tyName : List Nat) : List Nat := [32, 40] ++ cpsOf "invalid " ++ tyName ++ cpsOf " data)"

/-- `f"0x{data.hex()} (invalid {types.to_str(type)} data)"` -/
def invalidStr (tyName : List Nat) (bs : Bytes) : List Nat := hexStr bs ++ invalidTail tyName

/-- `ResourceRecord._data_json`; `decoded`: the type has its own branch (A, AAAA, NS, CNAME, PTR, TXT, HTTPS),
    `dec`: what that branch's decoder returned (none = it raised) -/
def dataJson (decoded : Bool) (tyName : List Nat) (data : Bytes) (dec : Option DataJ) : DataJ :=
  if decoded then
    match dec with
    | some j => j
    | none => .str (invalidStr tyName data)
  else .str (hexStr data)

def hexVal (c : Nat) : Option Nat :=
  if 48 ≤ c ∧ c ≤ 57 then some (c - 48)
  else if 97 ≤ c ∧ c ≤ 102 then some (c - 87)
  else if 65 ≤ c ∧ c ≤ 70 then some (c - 55)
  else none

def isWs (c : Nat) : Bool := c == 32 || (9 ≤ c && c ≤ 13)

/-- `bytes.fromhex`: pairs of hex digits, ASCII whitespace allowed between pairs; none = ValueError -/
def fromhex : List Nat → Option Bytes
  | [] => some []
  | c :: rest =>
    if isWs c then fromhex rest
    else match rest with
      | [] => none
      | d :: rest' =>
        match hexVal c, hexVal d with
        | some a, some b => (fromhex rest').map (UInt8.ofNat (a * 16 + b) :: ·)
        | _, _ => none
termination_by l => l.length

/-- `s.partition(" (")[0]` -/
def beforeSpParen : List Nat → List Nat
  | [] => []
  | c :: rest => if c = 32 ∧ rest.head? = some 40 then [] else c :: beforeSpParen rest

/-- the fallback of `ResourceRecord.from_json`: `bytes.fromhex(d.removeprefix("0x").partition(" (")[0])` -/
def hexFallback : DataJ → Option Bytes
  | .str s => fromhex (beforeSpParen (removePrefix [48, 120] s))
  | .obj _ => none               -- a dict has no removeprefix: AttributeError

/-- data of `ResourceRecord.from_json`; `enc`: what the type-specific setter produced (none = it raised) -/
def dataFromJson (decoded : Bool) (enc : Option Bytes) (j : DataJ) : Option Bytes :=
  if decoded then
    match enc with
    | some b => some b
    | none => hexFallback j
  else hexFallback j

/-! ### messages -/

structure Question where
  name : List Nat
  type : Nat
  cls : Nat
  deriving DecidableEq, Repr

structure RR where
  name : List Nat
  type : Nat
  cls : Nat
  ttl : Nat
  data : Bytes
  deriving DecidableEq, Repr

structure Msg where
  id : Nat
  query : Bool
  op : Nat
  aa : Bool
  tc : Bool
  rd : Bool
  ra : Bool
  z : Nat                        -- the reserved header bits
  rcode : Nat
  qs : List Question
  an : List RR
  ns : List RR
  ar : List RR
  deriving DecidableEq, Repr

structure QJ where
  name : List Nat
  type : List Char
  cls : List Char

structure RJ where
  name : List Nat
  type : List Char
  cls : List Char
  ttl : Nat
  data : DataJ

structure MJ where
  id : Nat
  query : Bool
  op : List Char
  aa : Bool
  tc : Bool
  rd : Bool
  ra : Bool
  rcode : List Char
  qs : List QJ
  an : List RJ
  ns : List RJ
  ar : List RJ

/-- type-specific rdata codecs (ipaddress, IDNA domain names, UTF-8 text, HTTPS records) -/
structure Codec where
  dec : Nat → Bytes → Option DataJ
  enc : Nat → DataJ → Option Bytes

def isDecoded (t : Nat) : Bool := decodedTypes.contains t
def isStrict (t : Nat) : Bool := strictTypes.contains t

def tyNameCps (t : Nat) : List Nat := (toStr typeNames "TYPE" t).map Char.toNat

def qToJson (q : Question) : QJ := ⟨q.name, toStr typeNames "TYPE" q.type, toStr classNames "CLASS" q.cls⟩

def rrToJson (C : Codec) (r : RR) : RJ :=
  ⟨r.name, toStr typeNames "TYPE" r.type, toStr classNames "CLASS" r.cls, r.ttl,
   dataJson (isDecoded r.type) (tyNameCps r.type) r.data (C.dec r.type r.data)⟩

def toJson (C : Codec) (m : Msg) : MJ :=
  ⟨m.id, m.query, toStr opNames "OPCODE" m.op, m.aa, m.tc, m.rd, m.ra, toStr rcodeNames "RCODE" m.rcode,
   m.qs.map qToJson, m.an.map (rrToJson C), m.ns.map (rrToJson C), m.ar.map (rrToJson C)⟩

def qFromJson (j : QJ) : Option Question := do
  let t ← fromStr typeNames "TYPE" j.type
  let c ← fromStr classNames "CLASS" j.cls
  pure ⟨j.name, t, c⟩

def rrFromJson (C : Codec) (j : RJ) : Option RR := do
  let t ← fromStr typeNames "TYPE" j.type
  let c ← fromStr classNames "CLASS" j.cls
  let d ← dataFromJson (isDecoded t) (C.enc t j.data) j.data
  pure ⟨j.name, t, c, j.ttl, d⟩

def mapOpt {α β} (f : α → Option β) : List α → Option (List β)
  | [] => some []
  | a :: rest => match f a, mapOpt f rest with
    | some b, some bs => some (b :: bs)
    | _, _ => none

/-- `DNSMessage.from_json` (none = raises); `reserved=0` is hard-coded there -/
def fromJson (C : Codec) (j : MJ) : Option Msg := do
  let op ← fromStr opNames "OPCODE" j.op
  let rc ← fromStr rcodeNames "RCODE" j.rcode
  let qs ← mapOpt qFromJson j.qs
  let an ← mapOpt (rrFromJson C) j.an
  let ns ← mapOpt (rrFromJson C) j.ns
  let ar ← mapOpt (rrFromJson C) j.ar
  pure ⟨j.id, j.query, op, j.aa, j.tc, j.rd, j.ra, 0, rc, qs, an, ns, ar⟩

/-- ruamel YAML as used by `yaml_dumps` / `yaml_loads` -/
structure Yaml where
  dump : MJ → List Nat
  load : List Nat → Option MJ

/-- text of `prettify_message(m, flow, "dns")` when the view does not raise -/
def prettifyDns (Y : Yaml) (C : Codec) (m : Msg) : List Nat :=
  prettifyText ⟨false, false, .text (Y.dump (toJson C m)), [], cpsOf "DNS"⟩

/-- message packed by `reencode_message(text, …, "dns")` -/
def reencodeDns (Y : Yaml) (C : Codec) (text : List Nat) : Option Msg := (Y.load text).bind (fromJson C)

/-- a record whose data survives `_data_json` / `from_json` -/
def Representable (C : Codec) (r : RR) : Prop :=
  isDecoded r.type = true → ((C.dec r.type r.data).isSome = true ∨ isStrict r.type = true)

end MitmVerif.C50
