/-
  C50 — the HTTPS/SVCB transcription (Model/C50_Https.lean) plugged into the record codec of Model/C50.lean.
  `DataJ.obj` carries the JSON object of an HTTPS record as an opaque code (it only travels through YAML, which is a
  parameter of the model); `ObjCode` is that coding.  `realCodecAll` is then the codec of `ResourceRecord._data_json` /
  `from_json` with every type-specific branch a transcription: A, AAAA, NS, CNAME, PTR, TXT (Model/C50_Codecs, C50_V6)
  and HTTPS.
-/
import MitmVerif.Model.C50_V6
import MitmVerif.Model.C50_Https
namespace MitmVerif.C50.Codecs
open MitmVerif MitmVerif.C50

/-- how the JSON object of an HTTPS record is represented inside `DataJ.obj` -/
structure ObjCode where
  code : Https.J → List Nat
  decode : List Nat → Option Https.J

/-- the HTTPS branch of `_data_json` / `from_json`: `https_records.unpack(data).to_json()` and
    `https_records.pack(HTTPSRecord.from_json(d))`; a `str` (e.g. the invalid-data marker) has no `.pop` → raises -/
def httpsCodec (N : Https.NameCodec) (K : ObjCode) : Codec where
  dec := fun t b =>
    if t = 65 then (Https.unpack N b).map (fun r => DataJ.obj (K.code (Https.toJson r))) else none
  enc := fun t j =>
    if t = 65 then
      (match j with
       | .obj h => ((K.decode h).bind Https.fromJson).bind (Https.pack N)
       | .str _ => none)
    else none

/-- every type-specific branch transcribed -/
def realCodecAll (I : C25.Idna) (N : Https.NameCodec) (K : ObjCode) : Codec := realCodec6 I (httpsCodec N K)

end MitmVerif.C50.Codecs

/-! a concrete object code (length-prefixed fields), so that the hypothesis "the code can be read back" of
    `dns_view_roundtrip_all_transcribed` is visibly satisfiable -/
namespace MitmVerif.C50.Codecs
open MitmVerif MitmVerif.C50

def codeList (v : List Nat) : List Nat := v.length :: v

def codeKey : Https.JKey → List Nat
  | .name s => 0 :: codeList (s.toList.map Char.toNat)
  | .num n => [1, n]

def codeParam (kv : Https.JKey × Bytes) : List Nat := codeKey kv.1 ++ codeList (kv.2.map (·.toNat))

def codeJ (j : Https.J) : List Nat :=
  codeList j.target ++ (if 0 ≤ j.priority then 0 else 1) :: j.priority.natAbs :: j.params.length ::
    j.params.flatMap codeParam

def decodeList : List Nat → Option (List Nat × List Nat)
  | [] => none
  | n :: rest => if n ≤ rest.length then some (rest.take n, rest.drop n) else none

def decodeKey : List Nat → Option (Https.JKey × List Nat)
  | 0 :: rest => (decodeList rest).map (fun p => (.name (String.ofList (p.1.map Char.ofNat)), p.2))
  | 1 :: n :: rest => some (.num n, rest)
  | _ => none

def decodeParams : Nat → List Nat → Option (List (Https.JKey × Bytes) × List Nat)
  | 0, rest => some ([], rest)
  | k + 1, l =>
    match decodeKey l with
    | none => none
    | some (key, r1) =>
      match decodeList r1 with
      | none => none
      | some (v, r2) =>
        match decodeParams k r2 with
        | none => none
        | some (ps, r3) => some ((key, v.map UInt8.ofNat) :: ps, r3)

def decodeJ (l : List Nat) : Option Https.J :=
  match decodeList l with
  | some (target, sgn :: mag :: n :: rest) =>
    match decodeParams n rest with
    | some (ps, []) => some ⟨target, if sgn = 0 then (mag : Int) else -(mag : Int), ps⟩
    | _ => none
  | _ => none

def listObjCode : ObjCode := ⟨codeJ, decodeJ⟩

end MitmVerif.C50.Codecs
