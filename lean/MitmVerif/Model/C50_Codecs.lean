/-
  C50 — the type-specific rdata codecs of `ResourceRecord._data_json` / `from_json` as transcriptions instead of parameters:
    TXT            `data.decode("utf-8")` / `text.encode("utf-8")` (strict), expressed with C35's UTF-8 codec
                   (`native` = decode with surrogateescape, `encodeSE`): strict decoding fails exactly when an escape
                   code point U+DC80–U+DCFF would be produced, strict encoding fails on any surrogate
    NS/CNAME/PTR   `domain_names.unpack(data)` / `domain_names.pack(name)`, expressed with C25's name codec
                   (`scanRaw`, `decLabel`, `packName`); Python's `idna` codec for ACE / non-ASCII labels stays C25's `Idna` parameter
    A              `str(IPv4Address(data))` / `IPv4Address(text).packed`, expressed with C21's `textV4` and C22's `parseV4`
  Texts of names are byte texts as in C25 (`Text`); in the JSON string they appear as their byte values.
-/
import MitmVerif.Model.C50
import MitmVerif.Model.C35_Str
import MitmVerif.Model.C25
import MitmVerif.Model.C22
namespace MitmVerif.C50.Codecs
open MitmVerif MitmVerif.C50

def isEscape (c : Nat) : Bool := 0xDC80 ≤ c && c ≤ 0xDCFF

/-- `bytes.decode("utf-8")`, strict; `none` = UnicodeDecodeError -/
def utf8Dec (b : Bytes) : Option (List Nat) :=
  if (C35.native b).any isEscape then none else some (C35.native b)

/-- `str.encode("utf-8")`, strict; `none` = UnicodeEncodeError -/
def utf8Enc (s : List Nat) : Option Bytes :=
  if s.any isEscape then none else C35.encodeSE s

/-- `domain_names.unpack(buffer)`: an uncompressed name that fills the whole buffer; `none` = struct.error -/
def unpackPlain (I : C25.Idna) (buf : Bytes) : Option C25.Text :=
  match C25.scanRaw buf with
  | some (ls, n, none) => if n = buf.length then (C25.mapLabels I ls).map C25.joinDot else none
  | _ => none

def textOf (t : C25.Text) : List Nat := t.map (·.toNat)
def bytesOf (s : List Nat) : Bytes := s.map UInt8.ofNat

def isNameType (t : Nat) : Bool := t == 2 || t == 5 || t == 12

/-- the codec of `ResourceRecord` with TXT and NS/CNAME/PTR transcribed; `O` supplies the remaining types (A, AAAA, HTTPS) -/
def realCodec (I : C25.Idna) (O : Codec) : Codec where
  dec := fun t b =>
    if t = 16 then (utf8Dec b).map DataJ.str
    else if isNameType t then (unpackPlain I b).map (fun n => DataJ.str (textOf n))
    else O.dec t b
  enc := fun t j =>
    if t = 16 then (match j with | .str s => utf8Enc s | .obj _ => none)
    else if isNameType t then (match j with | .str s => C25.packName I (bytesOf s) | .obj _ => none)
    else O.enc t j

/-- an `Idna` that knows no ACE / non-ASCII label: used by the driver on inputs without `xn--` -/
def asciiIdna : C25.Idna := ⟨fun _ => none, fun _ => none⟩

end MitmVerif.C50.Codecs

/-! ### A records: `str(IPv4Address(data))` / `IPv4Address(text).packed` -/
namespace MitmVerif.C50.Codecs
open MitmVerif MitmVerif.C50

/-- `str(int)` of an octet -/
def renderOctet (v : Nat) : Bytes :=
  if v < 10 then [UInt8.ofNat (48 + v)]
  else if v < 100 then [UInt8.ofNat (48 + v / 10), UInt8.ofNat (48 + v % 10)]
  else [UInt8.ofNat (48 + v / 100), UInt8.ofNat (48 + v / 10 % 10), UInt8.ofNat (48 + v % 10)]

/-- `'.'.join(map(str, packed))` -/
def dotted (a b c d : Nat) : Bytes :=
  renderOctet a ++ 0x2e :: (renderOctet b ++ 0x2e :: (renderOctet c ++ 0x2e :: renderOctet d))

/-- `str(IPv4Address(data))`; `none` = AddressValueError (not 4 bytes) -/
def ip4Dec (data : Bytes) : Option (List Nat) :=
  match data with
  | [a, b, c, d] => some (textOf (dotted a.toNat b.toNat c.toNat d.toNat))
  | _ => none

/-- `int.to_bytes(4, "big")` -/
def be32 (n : Nat) : Bytes :=
  [UInt8.ofNat (n / 16777216), UInt8.ofNat (n / 65536 % 256), UInt8.ofNat (n / 256 % 256), UInt8.ofNat (n % 256)]

/-- `IPv4Address(text).packed` with C22's transcription of `_ip_int_from_string`; non-ASCII text is rejected there
    (`isascii() and isdigit()`); `none` = AddressValueError -/
def ip4Enc (s : List Nat) : Option Bytes :=
  if s.all (· < 128) then (C22.parseV4 (bytesOf s)).map be32 else none

/-- `realCodec` with the A-record codec transcribed as well; `O` is left with AAAA and HTTPS -/
def realCodecA (I : C25.Idna) (O : Codec) : Codec where
  dec := fun t b => if t = 1 then (ip4Dec b).map DataJ.str else (realCodec I O).dec t b
  enc := fun t j =>
    if t = 1 then (match j with | .str s => ip4Enc s | .obj _ => none) else (realCodec I O).enc t j

end MitmVerif.C50.Codecs
