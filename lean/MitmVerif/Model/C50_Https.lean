/-
  C50 — transcription of mitmproxy/net/dns/https_records.py (HTTPS / SVCB rdata, RFC 9460) and of
  HTTPSRecord.to_json / from_json:
    unpack  = SvcPriority ('!h', signed) · TargetName (domain_names.unpack_from) · SvcParams (key, length, value)*,
              a repeated SvcParamKey is rejected
    to_json = {target_name, priority, <key name or number>: bytes_to_escaped_str(value) …}
    from_json / pack = the inverse direction ('!h', domain_names.pack, '!H' key, '!H' length, value)
  The domain-name codec is the only parameter (`NameCodec`); the driver instantiates it with the ASCII, non-ACE case.
  `none` = the Python code raises.
-/
import MitmVerif.Model.C51
import MitmVerif.Gen.C50
namespace MitmVerif.C50.Https
open MitmVerif

def dec16 (a b : UInt8) : Nat := a.toNat * 256 + b.toNat
def enc16 (n : Nat) : Bytes := [UInt8.ofNat (n / 256), UInt8.ofNat (n % 256)]

/-- struct.unpack("!h") of a 16-bit value -/
def toSigned (n : Nat) : Int := if n < 32768 then (n : Int) else (n : Int) - 65536

/-- struct.pack("!h", p): struct.error outside the signed 16-bit range -/
def packSigned (p : Int) : Option Bytes :=
  if -32768 ≤ p ∧ p < 32768 then some (enc16 (p % 65536).toNat) else none

/-- domain_names.unpack_from (name, rest of the buffer) and domain_names.pack -/
structure NameCodec where
  unpackFrom : Bytes → Option (List Nat × Bytes)
  pack : List Nat → Option Bytes

/-- `_unpack_params`: (key, length, value)* until the end of the data -/
def parseParams (f : Nat) (l : Bytes) : Option (List (Nat × Bytes)) :=
  match f, l with
  | _, [] => some []
  | 0, _ :: _ => none
  | _ + 1, [_] => none
  | _ + 1, [_, _] => none
  | _ + 1, [_, _, _] => none
  | f + 1, a :: b :: c :: d :: rest =>
    if dec16 c d ≤ rest.length then
      (parseParams f (rest.drop (dec16 c d))).map ((dec16 a b, rest.take (dec16 c d)) :: ·)
    else none

def hasDup : List (Nat × Bytes) → Bool
  | [] => false
  | (k, _) :: r => r.any (·.1 == k) || hasDup r

structure Rec where
  pri : Int
  name : List Nat
  params : List (Nat × Bytes)
  deriving DecidableEq, Repr

/-- https_records.unpack -/
def unpack (N : NameCodec) (data : Bytes) : Option Rec :=
  match data with
  | a :: b :: rest =>
    match N.unpackFrom rest with
    | some (nm, rest') =>
      match parseParams rest'.length rest' with
      | some ps => if hasDup ps then none else some ⟨toSigned (dec16 a b), nm, ps⟩
      | none => none
    | none => none
  | _ => none

/-- `_pack_params` -/
def packParams : List (Nat × Bytes) → Option Bytes
  | [] => some []
  | (k, v) :: r =>
    if k < 65536 ∧ v.length < 65536 then (packParams r).map (enc16 k ++ enc16 v.length ++ v ++ ·) else none

/-- https_records.pack -/
def pack (N : NameCodec) (r : Rec) : Option Bytes :=
  match packSigned r.pri, N.pack r.name, packParams r.params with
  | some p, some n, some ps => some (p ++ n ++ ps)
  | _, _, _ => none

/-- a key of the JSON object: the lower-case SVCParamKeys name, or the number -/
inductive JKey where
  | name (s : String)
  | num (n : Nat)
  deriving DecidableEq, Repr

structure J where
  target : List Nat
  priority : Int
  params : List (JKey × Bytes)        -- value = bytes_to_escaped_str(v), ASCII text as bytes (C51's model)
  deriving DecidableEq, Repr

def keyToJson (k : Nat) : JKey :=
  match Gen.C50.svcKeyNames.lookup k with
  | some s => .name s
  | none => .num k

def nameToKey (tab : List (Nat × String)) (s : String) : Option Nat :=
  match tab with
  | [] => none
  | (n, nm) :: r => if nm = s then some n else nameToKey r s

/-- `SVCParamKeys[k.upper()].value` for str keys (KeyError = none), the number itself otherwise -/
def keyFromJson : JKey → Option Nat
  | .name s => nameToKey Gen.C50.svcKeyNames s
  | .num n => some n

/-- HTTPSRecord.to_json -/
def toJson (r : Rec) : J := ⟨r.name, r.pri, r.params.map (fun kv => (keyToJson kv.1, C51.enc false false kv.2))⟩

def paramsFromJson : List (JKey × Bytes) → Option (List (Nat × Bytes))
  | [] => some []
  | (jk, t) :: r =>
    match keyFromJson jk, C51.dec t, paramsFromJson r with
    | some k, some v, some ps => some ((k, v) :: ps)
    | _, _, _ => none

/-- HTTPSRecord.from_json -/
def fromJson (j : J) : Option Rec := (paramsFromJson j.params).map (fun ps => ⟨j.priority, j.target, ps⟩)

/-- data of ResourceRecord.from_json(to_json(record)) for an HTTPS record the decoder accepts -/
def reencode (N : NameCodec) (data : Bytes) : Option Bytes :=
  match unpack N data with
  | some r => (fromJson (toJson r)).bind (pack N)
  | none => none

/-! concrete name codec for the driver: ASCII labels that are not ACE ("xn--") labels and contain no dot,
    for which the IDNA codec is the identity -/

def labelOk (l : Bytes) : Bool := l.all (fun b => b.toNat < 128 && b != 0x2e)

def isAce (l : Bytes) : Bool :=
  match l with
  | a :: b :: c :: d :: _ => (a == 0x78 || a == 0x58) && (b == 0x6e || b == 0x4e) && c == 0x2d && d == 0x2d
  | _ => false

/-- labels of an uncompressed name; `none` = struct.error -/
def readLabels : Nat → Bytes → Option (List Bytes × Bytes)
  | 0, _ => none
  | _ + 1, [] => none
  | f + 1, n :: rest =>
    if n = 0 then some ([], rest)
    else if 64 ≤ n.toNat then none
    else if rest.length < n.toNat then none
    else if labelOk (rest.take n.toNat) then
      (readLabels f (rest.drop n.toNat)).map (fun p => (rest.take n.toNat :: p.1, p.2))
    else none

def joinDots : List Bytes → List Nat
  | [] => []
  | [l] => l.map (·.toNat)
  | l :: r => l.map (·.toNat) ++ 46 :: joinDots r

def splitDots (s : List Nat) : List (List Nat) :=
  s.foldr (fun c acc => if c = 46 then [] :: acc else match acc with | [] => [[c]] | h :: t => (c :: h) :: t) [[]]

def asciiCodec : NameCodec where
  unpackFrom := fun b => (readLabels (b.length + 1) b).map (fun p => (joinDots p.1, p.2))
  pack := fun s =>
    if s.isEmpty then some [0]
    else
      let ls := splitDots s
      if ls.all (fun l => 0 < l.length && l.length < 64 && l.all (· < 128)) then
        some (ls.flatMap (fun l => UInt8.ofNat l.length :: l.map UInt8.ofNat) ++ [0])
      else none

/-- does the buffer (after the priority) start with a name the ASCII codec models exactly? -/
def inAsciiDomain (b : Bytes) : Bool :=
  match readLabels (b.length + 1) b with
  | some (ls, _) => ls.all (fun l => !isAce l)
  | none => true       -- the label loop fails before any IDNA question arises … unless a label has non-ASCII bytes

end MitmVerif.C50.Https
