/-
  C50 — AAAA records: `str(IPv6Address(data))` (ipaddress `_string_from_ip_int` + `_compress_hextets`) and
  `IPv6Address(text).packed` (C22's transcription of the reader).
  The writer: eight "%x" hextets, the leftmost longest run of at least two zero hextets replaced by "::"
  (the scan is the one C21 transcribed for inet_ntop6, `C21.bestRun`; CPython 3.12 has no embedded-IPv4 form).
-/
import MitmVerif.Model.C50_Codecs
import MitmVerif.Model.C21
namespace MitmVerif.C50.Codecs
open MitmVerif MitmVerif.C50

/-- the joined hextets from index `i` on, the compressed run contributing the single extra ':' -/
def emitPy (best : Option C21.Run) : List Nat → Nat → List Char
  | [], _ => []
  | w :: r, i =>
    match best with
    | some b =>
      if b.base ≤ i ∧ i < b.base + b.len then
        (if i = b.base then [':'] else []) ++ emitPy best r (i + 1)
      else (if i ≠ 0 then [':'] else []) ++ C21.hexWord w ++ emitPy best r (i + 1)
    | none => (if i ≠ 0 then [':'] else []) ++ C21.hexWord w ++ emitPy best r (i + 1)

/-- `str(IPv6Address(ad))` for 16 bytes -/
def pyTextV6 (ad : Bytes) : List Char :=
  let ws := C21.words16 ad
  let best := C21.bestRun ws
  emitPy best ws 0 ++ (match best with | some b => if b.base + b.len = 8 then [':'] else [] | none => [])

/-- `str(IPv6Address(data))`; `none` = AddressValueError (not 16 bytes) -/
def ip6Dec (data : Bytes) : Option (List Nat) :=
  if data.length = 16 then some ((pyTextV6 data).map Char.toNat) else none

/-- `int.to_bytes(k, "big")` (the reader only returns values below 2^128, so the OverflowError branch is not modelled) -/
def beBytes : Nat → Nat → Bytes
  | 0, _ => []
  | k + 1, n => beBytes k (n / 256) ++ [UInt8.ofNat (n % 256)]

def be128 (n : Nat) : Bytes := beBytes 16 n

/-- `IPv6Address(text).packed` (a scope id is accepted and dropped); `none` = AddressValueError -/
def ip6Enc (s : List Nat) : Option Bytes :=
  if s.all (· < 128) then
    match C22.parseV6 (bytesOf s) with
    | some (.v6 n _) => some (be128 n)
    | _ => none
  else none

/-- `realCodecA` with the AAAA codec transcribed as well; `O` is left with HTTPS only -/
def realCodec6 (I : C25.Idna) (O : Codec) : Codec where
  dec := fun t b => if t = 28 then (ip6Dec b).map DataJ.str else (realCodecA I O).dec t b
  enc := fun t j =>
    if t = 28 then (match j with | .str s => ip6Enc s | .obj _ => none) else (realCodecA I O).enc t j

end MitmVerif.C50.Codecs
