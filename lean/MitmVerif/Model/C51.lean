/-
  C51 — escaped binary text converts back to the same bytes.
  Model of `mitmproxy.utils.strutils.bytes_to_escaped_str` (as a per-byte emitter equal to
  `repr(b'"'+data)` followed by the two regex rewrites) and of `escaped_str_to_bytes`
  (= `codecs.escape_decode` on the UTF-8 encoding of the text).
  The escaped text is ASCII, so it is modelled by its bytes.
-/
import MitmVerif.Basic.Bytes
namespace MitmVerif.C51

def hexDigit (n : Nat) : UInt8 :=
  if n < 10 then UInt8.ofNat (48 + n) else UInt8.ofNat (87 + n)

def hexVal (c : UInt8) : Option Nat :=
  let n := c.toNat
  if 48 ≤ n ∧ n ≤ 57 then some (n - 48)
  else if 97 ≤ n ∧ n ≤ 102 then some (n - 87)
  else if 65 ≤ n ∧ n ≤ 70 then some (n - 55)
  else none

def octVal (c : UInt8) : Option Nat :=
  let n := c.toNat
  if 48 ≤ n ∧ n ≤ 55 then some (n - 48) else none

/-- one byte of `bytes_to_escaped_str(data, keep_spacing := k, escape_single_quotes := q)` -/
def encByte (k q : Bool) (b : UInt8) : Bytes :=
  if b = 0x5c then [0x5c, 0x5c]
  else if b = 0x27 then (if q then [0x5c, 0x27] else [0x27])
  else if b = 0x09 then (if k then [0x09] else [0x5c, 0x74])
  else if b = 0x0a then (if k then [0x0a] else [0x5c, 0x6e])
  else if b = 0x0d then (if k then [0x0d] else [0x5c, 0x72])
  else if 0x20 ≤ b.toNat ∧ b.toNat ≤ 0x7e then [b]
  else [0x5c, 0x78, hexDigit (b.toNat / 16), hexDigit (b.toNat % 16)]

def enc (k q : Bool) (bs : Bytes) : Bytes := bs.flatMap (encByte k q)

/-- simple one-character escapes of `codecs.escape_decode` -/
def simpleEsc (c : UInt8) : Option UInt8 :=
  if c = 0x5c then some 0x5c          -- \\
  else if c = 0x27 then some 0x27     -- \'
  else if c = 0x22 then some 0x22     -- \"
  else if c = 0x62 then some 0x08     -- \b
  else if c = 0x66 then some 0x0c     -- \f
  else if c = 0x74 then some 0x09     -- \t
  else if c = 0x6e then some 0x0a     -- \n
  else if c = 0x72 then some 0x0d     -- \r
  else if c = 0x76 then some 0x0b     -- \v
  else if c = 0x61 then some 0x07     -- \a
  else none

/-- what follows a backslash (the backslash already consumed); `k` continues on the rest -/
def decEsc (k : Bytes → Option Bytes) (c : UInt8) (rest : Bytes) : Option Bytes :=
  if c = 0x0a then k rest                                        -- line continuation
  else match simpleEsc c with
    | some v => (k rest).map (v :: ·)
    | none =>
      if c = 0x78 then                                           -- \xNN
        match rest with
        | h :: l :: rest' =>
          match hexVal h, hexVal l with
          | some a, some b => (k rest').map (UInt8.ofNat (a * 16 + b) :: ·)
          | _, _ => none
        | _ => none
      else match octVal c with
        | some d0 =>
          match rest with
          | c1 :: rest1 =>
            match octVal c1 with
            | some d1 =>
              match rest1 with
              | c2 :: rest2 =>
                match octVal c2 with
                | some d2 => (k rest2).map (UInt8.ofNat ((d0 * 64 + d1 * 8 + d2) % 256) :: ·)
                | none => (k rest1).map (UInt8.ofNat (d0 * 8 + d1) :: ·)
              | [] => some [UInt8.ofNat (d0 * 8 + d1)]
            | none => (k rest).map (UInt8.ofNat d0 :: ·)
          | [] => some [UInt8.ofNat d0]
        | none => (k rest).map (fun r => 0x5c :: c :: r)         -- unknown escape kept verbatim

/-- `codecs.escape_decode` on the bytes of the text; `none` = ValueError. Fuel ≥ input length. -/
def decF : Nat → Bytes → Option Bytes
  | _, [] => some []
  | 0, _ :: _ => none
  | f + 1, c :: rest =>
    if c ≠ 0x5c then (decF f rest).map (c :: ·)
    else match rest with
      | [] => none                                               -- trailing backslash
      | e :: rest' => decEsc (decF f) e rest'

def dec (s : Bytes) : Option Bytes := decF s.length s

/-- the claim about the escaped text: printable ASCII, plus TAB/LF/CR only when kept on request -/
def okChar (k : Bool) (c : UInt8) : Bool :=
  (0x20 ≤ c.toNat && c.toNat ≤ 0x7e) || (k && (c = 0x09 || c = 0x0a || c = 0x0d))

end MitmVerif.C51
