/-
  C52 — server replay (mitmproxy/addons/serverplayback.py).

  Model of `ServerPlayback`: `flowmap` (a Python dict key -> list of recorded flows, modelled as an
  association list in dict insertion order), `recorded` (the not yet served recordings in recording
  order, added by the fix for F-C52a), `add_flows` / `load_flows` / `clear`, `next_flow` (pop with
  skipping of response-less recordings vs. reuse), `request` (serve / kill / status / forward),
  `recompute_hashes` (run by `configure` when a matching option changed).

  The matching key is a *parameter* `hash : O → Req → Key` (in the code: SHA-256 of `repr` of the
  list of selected request fields under the options `O`).  `keyOf` below is the model of that field
  selection (`ServerPlayback._hash` before `repr`/SHA-256).
-/
import MitmVerif.Basic.Bytes
import MitmVerif.Model.C34
namespace MitmVerif.C52

/-- a recorded flow: `id` names the Python object, `hasResp` is `bool(flow.response)`,
    `isHttp` is `isinstance(flow, http.HTTPFlow)`, `resp` stands for the recorded response as it was loaded
    (status, headers, body).  A request that is served `r` receives a COPY of that response (`Outcome.served r`
    carries the recording's value); nothing in the addon writes to a recording, and what a later addon does to
    a served copy (`Event.edit`) does not reach the addon's state. -/
structure Rec (Req : Type) where
  id : Nat
  req : Req
  hasResp : Bool
  isHttp : Bool
  resp : Nat
deriving DecidableEq, Repr

/-- `server_replay_extra` -/
inductive Extra where
  | forward | kill | status (code : Nat)
deriving DecidableEq, Repr

/-- the options read by `next_flow`/`request` that do not take part in the key -/
structure RCfg where
  reuse : Bool       -- server_replay_reuse
  nopop : Bool       -- server_replay_nopop (deprecated alias)
  killExtra : Bool   -- server_replay_kill_extra (deprecated)
  extra : Extra      -- server_replay_extra
deriving DecidableEq, Repr

/-- what the `request` hook did to the flow -/
inductive Outcome (Req : Type) where
  | served (r : Rec Req)     -- f.response = copy of r.response, is_replay = "response"
  | killed                   -- f.kill()
  | status (code : Nat)      -- f.response = Response.make(code), is_replay = "response"
  | forwarded                -- flow untouched
  | crash                    -- `pop(0)` on an empty list (IndexError) — proved unreachable
deriving DecidableEq, Repr

abbrev FlowMap (Req Key : Type) := List (Key × List (Rec Req))

structure State (O Req Key : Type) where
  opts : O
  recorded : List (Rec Req)
  flowmap : FlowMap Req Key

section
variable {O Req Key : Type} [DecidableEq Req] [DecidableEq Key]

/-- `flowmap.get(k)` -/
def fmLookup : FlowMap Req Key → Key → Option (List (Rec Req))
  | [], _ => none
  | (k', l) :: rest, k => if k' = k then some l else fmLookup rest k

/-- `flowmap.setdefault(k, []).append(r)` -/
def fmAppend : FlowMap Req Key → Key → Rec Req → FlowMap Req Key
  | [], k, r => [(k, [r])]
  | (k', l) :: rest, k, r => if k' = k then (k', l ++ [r]) :: rest else (k', l) :: fmAppend rest k r

/-- the list object stored under `k` now has the contents `l` (after `pop(0)`s) -/
def fmSet : FlowMap Req Key → Key → List (Rec Req) → FlowMap Req Key
  | [], _, _ => []
  | (k', l') :: rest, k, l => if k' = k then (k', l) :: rest else (k', l') :: fmSet rest k l

/-- `del flowmap[k]` -/
def fmDel : FlowMap Req Key → Key → FlowMap Req Key
  | [], _ => []
  | (k', l') :: rest, k => if k' = k then rest else (k', l') :: fmDel rest k

/-- successive `recorded.remove(x)` -/
def eraseAll (l : List (Rec Req)) (ps : List (Rec Req)) : List (Rec Req) := ps.foldl List.erase l

variable (hash : O → Req → Key)

def addOne (s : State O Req Key) (r : Rec Req) : State O Req Key :=
  if r.isHttp then
    { s with flowmap := fmAppend s.flowmap (hash s.opts r.req) r, recorded := s.recorded ++ [r] }
  else s

/-- `add_flows` -/
def addFlows (s : State O Req Key) (rs : List (Rec Req)) : State O Req Key := rs.foldl (addOne hash) s

/-- `load_flows` -/
def loadFlows (s : State O Req Key) (rs : List (Rec Req)) : State O Req Key :=
  addFlows hash { s with flowmap := [], recorded := [] } rs

/-- `clear` -/
def clear (s : State O Req Key) : State O Req Key := { s with flowmap := [], recorded := [] }

/-- `recompute_hashes` (fixed code: rebuild from `recorded`, i.e. in recording order) -/
def recompute (s : State O Req Key) : State O Req Key := loadFlows hash s s.recorded

/-- `configure` with a changed matching option: the options object already holds the new values -/
def configure (s : State O Req Key) (o : O) : State O Req Key := recompute hash { s with opts := o }

inductive Next (Req : Type) where
  | found (r : Rec Req) | nothing | crash

/-- `next_flow` -/
def nextFlow (s : State O Req Key) (q : Req) (reuse : Bool) : State O Req Key × Next Req :=
  let k := hash s.opts q
  match fmLookup s.flowmap k with
  | none => (s, .nothing)
  | some bucket =>
    if reuse then
      match bucket.find? (·.hasResp) with
      | some r => (s, .found r)
      | none => (s, .nothing)
    else
      match bucket with
      | [] => (s, .crash)
      | _ :: _ =>
        let skipped := bucket.takeWhile (fun r => !r.hasResp)
        match bucket.dropWhile (fun r => !r.hasResp) with
        | [] => ({ s with flowmap := fmDel s.flowmap k, recorded := eraseAll s.recorded skipped }, .nothing)
        | r :: rest =>
          ({ s with flowmap := if rest.isEmpty then fmDel s.flowmap k else fmSet s.flowmap k rest,
                    recorded := eraseAll s.recorded (skipped ++ [r]) }, .found r)

/-- what happens to a request for which no replayable response was found -/
def unmatched (c : RCfg) : Outcome Req :=
  if c.killExtra || c.extra == .kill then .killed
  else match c.extra with
    | .status n => .status n
    | _ => .forwarded

/-- the `request` hook -/
def request (s : State O Req Key) (q : Req) (c : RCfg) : State O Req Key × Outcome Req :=
  if s.flowmap.isEmpty then (s, .forwarded)
  else
    match nextFlow hash s q (c.reuse || c.nopop) with
    | (s', .found r) => (s', .served r)
    | (s', .crash) => (s', .crash)
    | (s', .nothing) => (s', unmatched c)

inductive Event (O Req : Type) where
  | load (rs : List (Rec Req))
  | add (rs : List (Rec Req))
  | clear
  | configure (o : O)
  | request (q : Req) (c : RCfg)
  | edit (k : Nat) (content : Nat)   -- a later addon rewrites the response that the k-th request was given

def step (s : State O Req Key) : Event O Req → State O Req Key × Option (Outcome Req)
  | .load rs => (loadFlows hash s rs, none)
  | .add rs => (addFlows hash s rs, none)
  | .clear => (clear s, none)
  | .configure o => (configure hash s o, none)
  | .request q c => let (s', o) := request hash s q c; (s', some o)
  | .edit _ _ => (s, none)

/-- state after a history, and the outcomes of its requests in order -/
def runFrom (s : State O Req Key) : List (Event O Req) → State O Req Key × List (Outcome Req)
  | [] => (s, [])
  | e :: es =>
    let (s', o) := step hash s e
    let (s'', os) := runFrom s' es
    (s'', match o with | some x => x :: os | none => os)

def init (o : O) : State O Req Key := { opts := o, recorded := [], flowmap := [] }

def run (o : O) (es : List (Event O Req)) : State O Req Key × List (Outcome Req) := runFrom hash (init o) es

/-- `count()` -/
def count (s : State O Req Key) : Nat := (s.flowmap.map (fun e => e.2.length)).sum

end

/-! ### the matching key: which request fields `_hash` selects -/

structure HashOpts where
  ignoreContent : Bool
  ignoreHost : Bool
  ignorePort : Bool
  ignoreParams : List Bytes
  ignorePayloadParams : List Bytes
  useHeaders : List Bytes
deriving DecidableEq, Repr

/-- the fields of a request that `_hash` looks at, after the library parsers
    (`urlparse`, `parse_qsl`, `multipart_form`, `urlencoded_form`, `Headers.get`) -/
structure ReqF where
  scheme : Bytes
  method : Bytes
  path : Bytes
  query : List (Bytes × Bytes)
  host : Bytes                       -- pretty_host
  port : Nat
  body : Option Bytes                -- raw_content
  boundary : Option Bytes            -- the boundary parameter of a multipart/form-data content-type (none: not multipart)
  urlencoded : List (Bytes × Bytes)  -- r.urlencoded_form.items(multi=True)
  headers : List (Bytes × Bytes)     -- r.headers.fields: (name, value) as received, in order
deriving DecidableEq, Repr

/-- `Request._get_multipart_form` (mitmproxy/http.py) over `multipart.decode_multipart` (net/http/multipart.py, the
    transcription `C34.decodeMultipart`: split at `--boundary`, the part's name is `re.search(rb'\bname="([^"]+)"')` on
    its first header line, the value is what follows the first empty line): `[]` when the content-type is not
    multipart/form-data, there is no content, or the decoder raises ValueError -/
def ReqF.multipart (r : ReqF) : List (Bytes × Bytes) :=
  match r.boundary, r.body with
  | some b, some c => (C34.decodeMultipart b c).getD []
  | _, _ => []

/-- what `_hash` adds to the key for the content: either `str(raw_content)`, or one tuple per non-ignored
    form field.  Multipart fields are tuples of `bytes`, urlencoded fields tuples of `str` (the `Bool` tag), so
    fields of different kinds never compare equal — but two forms without any non-ignored field both add
    nothing, whatever their kind. -/
inductive Content where
  | body (b : Option Bytes)
  | form (l : List (Bool × Bytes × Bytes))
deriving DecidableEq, Repr

structure MKey where
  scheme : Bytes
  method : Bytes
  path : Bytes
  content : Option Content
  host : Option Bytes
  port : Option Nat
  query : List (Bytes × Bytes)
  headers : Option (List (Bytes × Option Bytes))
deriving DecidableEq, Repr

/-- `", ".join(values)` -/
def joinCommaSpace : List Bytes → Bytes
  | [] => []
  | [v] => v
  | v :: vs => v ++ [44, 32] ++ joinCommaSpace vs

/-- `Headers.get(name)` (mitmproxy/http.py + coretypes/multidict.py): all fields whose name equals `name`
    case-insensitively (`_kconv = lower`, ASCII names), folded with ", " (`_reduce_values`); `None` when there is none -/
def hdrGet (hs : List (Bytes × Bytes)) (name : Bytes) : Option Bytes :=
  match (hs.filter (fun p => asciiLower p.1 == asciiLower name)).map (·.2) with
  | [] => none
  | vs => some (joinCommaSpace vs)

def contentOf (o : HashOpts) (r : ReqF) : Content :=
  if !o.ignorePayloadParams.isEmpty && !r.multipart.isEmpty then
    .form ((r.multipart.filter (fun p => !o.ignorePayloadParams.contains p.1)).map (fun p => (true, p.1, p.2)))
  else if !o.ignorePayloadParams.isEmpty && !r.urlencoded.isEmpty then
    .form ((r.urlencoded.filter (fun p => !o.ignorePayloadParams.contains p.1)).map (fun p => (false, p.1, p.2)))
  else .body r.body

/-- `ServerPlayback._hash` up to `repr`/SHA-256 -/
def keyOf (o : HashOpts) (r : ReqF) : MKey :=
  { scheme := r.scheme, method := r.method, path := r.path,
    content := if o.ignoreContent then none else some (contentOf o r),
    host := if o.ignoreHost then none else some r.host,
    port := if o.ignorePort then none else some r.port,
    query := r.query.filter (fun p => !o.ignoreParams.contains p.1),
    headers := if o.useHeaders.isEmpty then none else some (o.useHeaders.map (fun i => (i, hdrGet r.headers i))) }

end MitmVerif.C52
