/-
  C53 — client replay runs queued flows sequentially and cleans up.

  Model of `mitmproxy.addons.clientplayback.ClientPlayback` (check, start_replay, stop_replay, the
  playback loop with client_replay_concurrency = 1) and of `ReplayHandler.done` being set by the
  response / error hook.  `asyncio.Queue` is a FIFO list (put at the tail, get at the head — trusted);
  The option `client_replay_concurrency` is part of the state (`seq`: it is not -1) and can be switched at
  any time (`setopt`); the playback loop reads it when it DISPATCHES a dequeued flow (`take`): sequential →
  the loop awaits the replay (`inflight`), otherwise the replay runs as a background task (`bg`) and the
  loop goes on.
  `Flow.backup()` / `Flow.revert()` are transcribed from mitmproxy/flow.py: `backup` keeps an existing
  backup, `revert` restores it and clears it.  A flow's state is split into what `check` reads
  (`Attr`, fixed) and what replay and the user change (`Cur`: response / error / is_replay and an edit
  counter standing for every other editable field).  Tickets, `fresh`, `pre` and `log` are ghost state.
-/
namespace MitmVerif.C53

structure Attr where
  live : Bool
  intercepted : Bool
  isHttp : Bool
  hasReq : Bool
  hasContent : Bool
  ws : Bool
  deriving DecidableEq, Repr

structure Cur where
  resp : Bool
  err : Bool
  marked : Bool      -- is_replay = "request"
  ver : Nat          -- user edits
  deriving DecidableEq, Repr

structure FState where
  cur : Cur
  backup : Option Cur
  lv : Bool := false     -- `flow.live`: set when a replay of the flow starts, cleared when a replay of it ends
  deriving DecidableEq, Repr

/-- one queued occurrence of a flow -/
structure Entry where
  ticket : Nat       -- ghost: order of put_nowait
  idx : Nat          -- which flow
  fresh : Bool       -- ghost: the flow had no backup when start_replay prepared it
  pre : Cur          -- ghost: its state right before start_replay prepared it
  bk : Cur := pre    -- ghost: the backup the flow carries from that moment on (`pre` itself if it had none: `fresh`)
  deriving DecidableEq, Repr

inductive Phase where | taken | sent
  deriving DecidableEq, Repr

inductive Ev where
  | start (t : Nat)   -- the playback loop took ticket t and started a ReplayHandler
  | sent (t : Nat)    -- its request reached the server
  | fin (t : Nat)     -- its response/error hook completed (ReplayHandler.done set)
  deriving DecidableEq, Repr

/-- everything that happens, in both modes: a replay is started (with the option value read at dispatch) / has
    finished -/
inductive GEv where
  | gstart (t : Nat) (sequential : Bool)
  | gfin (t : Nat) (sequential : Bool)
  deriving DecidableEq, Repr

structure St where
  attrs : List Attr
  fs : List FState
  queue : List Entry
  inflight : Option (Entry × Phase)
  next : Nat
  log : List Ev              -- newest first; the replays the loop awaited (sequential mode)
  seq : Bool                 -- client_replay_concurrency != -1
  bg : List (Entry × Phase)  -- replays running as background tasks (concurrency -1)
  glog : List GEv            -- newest first; every replay of either mode
  deriving DecidableEq, Repr

inductive Op where
  | start (idxs : List Nat)  -- replay.client flows
  | stop                     -- replay.client.stop
  | take                     -- playback loop: queue.get returned, ReplayHandler created
  | send                     -- the request is written to the server
  | finish (response : Bool) -- response hook (true) / error hook (false) completes
  | edit (i : Nat)           -- the user edits flow i (Flow.backup(), then a change)
  | setopt (sequential : Bool)       -- client_replay_concurrency is set to 1 (true) / -1 (false)
  | bsend (t : Nat)                  -- the request of background replay t is written to the server
  | bfinish (t : Nat) (response : Bool)  -- the response / error hook of background replay t completes
  deriving DecidableEq, Repr

/-- `f == self.inflight` -/
def isInflight (s : St) (i : Nat) : Bool :=
  match s.inflight with
  | some (e, _) => e.idx == i
  | none => false

/-- `flow.live` as the HTTP layer left it: true from the start of a replay of the flow until a replay of it ends -/
def isLive (s : St) (i : Nat) : Bool :=
  match s.fs[i]? with
  | some f => f.lv
  | none => false

/-- ClientPlayback.check: none = replayable, some n = the n-th refusal -/
def check (s : St) (i : Nat) : Option Nat :=
  match s.attrs[i]? with
  | none => some 0
  | some a =>
    if a.live || isLive s i || isInflight s i then some 1
    else if a.intercepted then some 2
    else if !a.isHttp then some 6
    else if !a.hasReq then some 3
    else if !a.hasContent then some 4
    else if a.ws then some 5
    else none

/-- Flow.backup(); is_replay = "request"; response = None; error = None; queue.put_nowait -/
def prepare (s : St) (i : Nat) : St :=
  match s.fs[i]? with
  | none => s
  | some f =>
    let b := match f.backup with | none => f.cur | some b => b
    { s with
      fs := s.fs.set i { f with cur := { f.cur with resp := false, err := false, marked := true }, backup := some b },
      queue := s.queue ++ [{ ticket := s.next, idx := i, fresh := f.backup.isNone, pre := f.cur, bk := b }],
      next := s.next + 1 }

def startOne (s : St) (i : Nat) : St := if check s i = none then prepare s i else s

def startReplay (s : St) (idxs : List Nat) : St := idxs.foldl startOne s

/-- Flow.revert() -/
def revert (fs : List FState) (i : Nat) : List FState :=
  match fs[i]? with
  | some f => match f.backup with
    | some b => fs.set i { f with cur := b, backup := none }
    | none => fs
  | none => fs

def revertAll (fs : List FState) (idxs : List Nat) : List FState := idxs.foldl revert fs

def stopReplay (s : St) : St :=
  { s with fs := revertAll s.fs (s.queue.map (·.idx)), queue := [] }

def editFlow (fs : List FState) (i : Nat) : List FState :=
  match fs[i]? with
  | some f =>
    let b := match f.backup with | none => f.cur | some b => b
    fs.set i { f with cur := { f.cur with ver := f.cur.ver + 1 }, backup := some b }
  | none => fs

def finishFlow (fs : List FState) (i : Nat) (response : Bool) : List FState :=
  match fs[i]? with
  | some f => fs.set i { f with cur := (if response then { f.cur with resp := true } else { f.cur with err := true }), lv := false }
  | none => fs

/-- flow `i` has a replay running whose request is out, i.e. whose server connection is open -/
def openConn (s : St) (i : Nat) : Bool :=
  (match s.inflight with | some (e, .sent) => e.idx == i | _ => false) ||
    s.bg.any (fun p => p.1.idx == i && p.2 == .sent)

/-- a still-queued flow also has a replay running over an open server connection (awaited by the loop, or a
    background task): `revert()` then rewrites the live connection object of the running replay (and raises if the
    backed-up server address differs) — findings F-C53b / F-C53c; outside the modelled domain.  A queued flow whose
    running replay has not connected yet is reverted like any other. -/
def stopBlocked (s : St) : Bool := s.queue.any (fun e => openConn s e.idx)

/-- the HTTP layer marks the flow live when its replay starts -/
def markLive (fs : List FState) (i : Nat) : List FState :=
  match fs[i]? with
  | some f => fs.set i { f with lv := true }
  | none => fs

/-- the request of background replay `t` has been written -/
def markSent (t : Nat) (p : Entry × Phase) : Entry × Phase :=
  if p.1.ticket == t && p.2 == .taken then (p.1, .sent) else p

def step (s : St) : Op → Option St
  | .start idxs => some (startReplay s idxs)
  | .stop => if stopBlocked s then none else some (stopReplay s)
  | .take =>
    match s.inflight, s.queue with
    | none, e :: rest =>
      -- `if ctx.options.client_replay_concurrency == -1` is evaluated here, after the flow has been dequeued
      if s.seq then
        some { s with inflight := some (e, .taken), queue := rest, log := .start e.ticket :: s.log,
                      glog := .gstart e.ticket true :: s.glog, fs := markLive s.fs e.idx }
      else
        some { s with queue := rest, bg := s.bg ++ [(e, .taken)], glog := .gstart e.ticket false :: s.glog,
                      fs := markLive s.fs e.idx }
    | _, _ => none
  | .send =>
    match s.inflight with
    | some (e, .taken) => some { s with inflight := some (e, .sent), log := .sent e.ticket :: s.log }
    | _ => none
  | .finish r =>
    match s.inflight with
    | some (e, _) => some { s with inflight := none, fs := finishFlow s.fs e.idx r, log := .fin e.ticket :: s.log,
                                     glog := .gfin e.ticket true :: s.glog }
    | none => none
  | .edit i => some { s with fs := editFlow s.fs i }
  | .setopt b => some { s with seq := b }
  | .bsend t =>
    if s.bg.any (fun p => p.1.ticket == t && p.2 == .taken) then
      some { s with bg := s.bg.map (markSent t) }
    else none
  | .bfinish t r =>
    match s.bg.find? (fun p => p.1.ticket == t) with
    | some p => some { s with bg := s.bg.filter (fun q => !(q.1.ticket == t)), fs := finishFlow s.fs p.1.idx r,
                              glog := .gfin t false :: s.glog }
    | none => none

def run (s : St) : List Op → Option St
  | [] => some s
  | o :: os => match step s o with
    | some s' => run s' os
    | none => none

def init (attrs : List Attr) (fs : List FState) : St :=
  { attrs, fs, queue := [], inflight := none, next := 0, log := [], seq := true, bg := [], glog := [] }

def Reach (attrs : List Attr) (fs : List FState) (s : St) : Prop := ∃ os, run (init attrs fs) os = some s

/-! ### the properties as checkable predicates -/

inductive Status where | idle | started (t : Nat) | sentS (t : Nat)
  deriving DecidableEq, Repr

/-- reads the log oldest-first (the list is newest-first): every replay is start, [sent], fin, and nothing
    of another replay happens in between -/
def logStatus : List Ev → Option Status
  | [] => some .idle
  | e :: rest =>
    match logStatus rest, e with
    | some .idle, .start t => some (.started t)
    | some (.started t), .sent t' => if t = t' then some (.sentS t) else none
    | some (.started t), .fin t' => if t = t' then some .idle else none
    | some (.sentS t), .fin t' => if t = t' then some .idle else none
    | _, _ => none

def statusOf : Option (Entry × Phase) → Status
  | none => .idle
  | some (e, .taken) => .started e.ticket
  | some (e, .sent) => .sentS e.ticket

def startTickets : List Ev → List Nat
  | [] => []
  | .start t :: rest => t :: startTickets rest
  | _ :: rest => startTickets rest

def finTickets : List Ev → List Nat
  | [] => []
  | .fin t :: rest => t :: finTickets rest
  | _ :: rest => finTickets rest

/-- the operations of the playback loop and of the server side (no new submissions, stops or edits) -/
def isLoopOp : Op → Bool
  | .take | .send | .finish _ | .bsend _ | .bfinish _ _ => true
  | _ => false

/-- variant: work left for the playback loop — three units per queued flow (take, send, finish), two for a
    replay that has been taken, one for a replay whose request has been sent -/
def phaseWork : Phase → Nat
  | .taken => 2
  | .sent => 1

def bgWork : List (Entry × Phase) → Nat
  | [] => 0
  | p :: ps => phaseWork p.2 + bgWork ps

def variant (s : St) : Nat :=
  3 * s.queue.length +
    (match s.inflight with
     | none => 0
     | some (_, .taken) => 2
     | some (_, .sent) => 1) + bgWork s.bg

/-- nothing left to replay -/
def quiescent (s : St) : Bool := s.inflight.isNone && s.queue.isEmpty

/-- reads the global log oldest-first: while a replay that was started with the option at 1 has not finished, no
    other replay is started; the result is that replay's ticket, if one is open -/
def seqStatus : List GEv → Option (Option Nat)
  | [] => some none
  | e :: rest =>
    match seqStatus rest, e with
    | some none, .gstart t true => some (some t)
    | some none, .gstart _ false => some none
    | some (some t), .gfin t' true => if t = t' then some none else none
    | some (some t), .gfin _ false => some (some t)         -- a background replay ends: no effect
    | some none, .gfin _ false => some none
    | _, _ => none

def gstartTickets : List GEv → List Nat
  | [] => []
  | .gstart t _ :: rest => t :: gstartTickets rest
  | _ :: rest => gstartTickets rest

def gfinTickets : List GEv → List Nat
  | [] => []
  | .gfin t _ :: rest => t :: gfinTickets rest
  | _ :: rest => gfinTickets rest

/-- the ticket of the replay the loop is awaiting -/
def openTicket (s : St) : Option Nat := s.inflight.map (·.1.ticket)

def replayable (a : Attr) : Bool :=
  !a.live && !a.intercepted && a.isHttp && a.hasReq && a.hasContent && !a.ws

end MitmVerif.C53
