/-
  C54 — executable model of mitmproxy/addons/stickycookie.py (ckey, domain_match, path_match,
  StickyCookie.response / request) over structured Set-Cookie values, plus the RFC 6265 specification
  (§5.1.3 domain-match with the §5.2.3 leading-dot rule, §5.1.4 path-match).

  Strings are ASCII byte strings.  `http.cookiejar.domain_match` / `is_HDN` / `IPV4_RE` are transcribed.
  `cookies.is_expired(attrs)` depends on the clock and is a parameter: the `expired` flag of a cookie.
  `flowfilter.match(self.flt, flow)` is the `flt` flag of a request.
-/
import MitmVerif.Basic.Bytes
namespace MitmVerif.C54

def dot : UInt8 := 0x2e
def slash : UInt8 := 0x2f
def qmark : UInt8 := 0x3f

/-! ### http.cookiejar (CPython) -/

def isDigit (c : UInt8) : Bool := 0x30 ≤ c.toNat && c.toNat ≤ 0x39

/-- `IPV4_RE.search(text)` with `IPV4_RE = re.compile(r"\.\d+$")`, on the reversed text -/
def ipv4reRev : Bytes → Bool
  | [] => false
  | c :: rest =>
    if isDigit c then
      match rest with
      | [] => false
      | c2 :: _ => if c2 = dot then true else ipv4reRev rest
    else false

def ipv4re (t : Bytes) : Bool := ipv4reRev t.reverse

/-- `http.cookiejar.is_HDN` -/
def isHDN (t : Bytes) : Bool :=
  if ipv4re t then false
  else if t = [] then false
  else if t.head? = some dot || t.getLast? = some dot then false
  else true

/-- `A.rfind(B)`: scan left to right, remember the last position at which `b` is a prefix -/
def rfindGo (b : Bytes) : Bytes → Nat → Option Nat → Option Nat
  | [], i, acc => if b.isPrefixOf [] then some i else acc
  | x :: xs, i, acc => rfindGo b xs (i + 1) (if b.isPrefixOf (x :: xs) then some i else acc)

def rfind (a b : Bytes) : Option Nat := rfindGo b a 0 none

/-- `http.cookiejar.domain_match(A, B)` on already lower-cased arguments -/
def cjMatch (a b : Bytes) : Bool :=
  if a = b then true
  else if !isHDN a then false
  else if rfind a b = none || rfind a b = some 0 then false
  else if b.head? ≠ some dot then false
  else isHDN b.tail

/-! ### stickycookie.py -/

/-- `b.removeprefix(".")` -/
def dropDot : Bytes → Bytes
  | c :: t => if c = dot then t else c :: t
  | [] => []

/-- `stickycookie.domain_match(a, b)` (host `a`, cookie domain `b`) -/
def implDomainMatch (a b : Bytes) : Bool :=
  let a := asciiLower a
  let b := asciiLower b
  if b.isSuffixOf a && cjMatch a b then true
  else if a = dropDot b then true
  else false

/-- `request_path.split("?", 1)[0]` -/
def uriPath (p : Bytes) : Bytes := p.takeWhile (· ≠ qmark)

/-- `stickycookie.path_match(request_path, cookie_path)` -/
def implPathMatch (req cpath : Bytes) : Bool :=
  let r := uriPath req
  if r = cpath then true
  else if cpath.isPrefixOf r then cpath.getLast? = some slash || r[cpath.length]? = some slash
  else false

/-- a cookie value; `none` = the name was sent without "=value" (Python `None`) -/
abbrev Val := Option Bytes

structure Cookie where
  name : Bytes
  value : Val
  attrs : List (Bytes × Option Bytes)   -- attribute (key, value) pairs in header order, keys as sent; `none` = no "=value"
  expired : Bool                        -- cookies.is_expired(attrs)
deriving DecidableEq, Repr

/-- `key in attrs` / `attrs[key]` of the case-insensitive `CookieAttrs` multidict: `none` if the attribute is absent,
    otherwise the last value (`_reduce_values`), which is `none` for an attribute sent without "=value" -/
def attrGet (key : Bytes) : List (Bytes × Option Bytes) → Option (Option Bytes)
  | [] => none
  | (k, v) :: rest =>
    match attrGet key rest with
    | some r => some r
    | none => if asciiLower k = key then some v else none

def kDomain : Bytes := [0x64, 0x6f, 0x6d, 0x61, 0x69, 0x6e]   -- "domain"
def kPath : Bytes := [0x70, 0x61, 0x74, 0x68]                 -- "path"
def kMaxAge : Bytes := [0x6d, 0x61, 0x78, 0x2d, 0x61, 0x67, 0x65]   -- "max-age"
def kExpires : Bytes := [0x65, 0x78, 0x70, 0x69, 0x72, 0x65, 0x73]  -- "expires"

structure JKey where
  domain : Bytes
  port : Nat
  path : Bytes
deriving DecidableEq, Repr

/-- `ckey(attrs, flow)` -/
def ckey (c : Cookie) (host : Bytes) (port : Nat) : JKey :=
  { domain := match attrGet kDomain c.attrs with | some (some d) => d | _ => host,     -- `attrs.get("domain") is not None`
    port := port,
    path := match attrGet kPath c.attrs with | some (some p) => p | _ => [slash] }

abbrev Dict := List (Bytes × Val)
abbrev Jar := List (JKey × Dict)

def jarLookup (k : JKey) : Jar → Option Dict
  | [] => none
  | (k', d) :: rest => if k' = k then some d else jarLookup k rest

/-- `d[name] = value` on an insertion-ordered dict -/
def dictSet (name : Bytes) (value : Val) : Dict → Dict
  | [] => [(name, value)]
  | (n, v) :: rest => if n = name then (n, value) :: rest else (n, v) :: dictSet name value rest

/-- one iteration of the loop in `StickyCookie.response` -/
def setCookie (jar : Jar) (host : Bytes) (port : Nat) (c : Cookie) : Jar :=
  let k := ckey c host port
  if implDomainMatch host k.domain then
    match jarLookup k jar with
    | none =>
      -- expired: the defaultdict entry is created and removed again
      if c.expired then jar else jar ++ [(k, [(c.name, c.value)])]
    | some d =>
      if c.expired then
        let d' := d.filter (fun p => decide (p.1 ≠ c.name))
        if d' = [] then jar.filter (fun p => decide (p.1 ≠ k))
        else jar.map (fun p => if p.1 = k then (p.1, d') else p)
      else jar.map (fun p => if p.1 = k then (p.1, dictSet c.name c.value d) else p)
  else jar

def response (jar : Jar) (host : Bytes) (port : Nat) (cs : List Cookie) : Jar :=
  cs.foldl (fun j c => setCookie j host port c) jar

/-- the cookie list `StickyCookie.request` collects -/
def attached (jar : Jar) (flt : Bool) (host : Bytes) (port : Nat) (path : Bytes) : Dict :=
  if flt then
    jar.flatMap (fun p =>
      if implDomainMatch host p.1.domain && decide (port = p.1.port) && implPathMatch path p.1.path then p.2 else [])
  else []

/-- `format_cookie_header` for values without special characters (`name` alone for a value-less cookie);
    the full `_format_pairs` with quoting is `cookieHeaderText` in Model/C54_Header.lean -/
def pairText : Bytes × Val → Bytes
  | (n, none) => n
  | (n, some v) => n ++ [0x3d] ++ v

def cookieHeader : Dict → Bytes
  | [] => []
  | [p] => pairText p
  | p :: rest => pairText p ++ [0x3b, 0x20] ++ cookieHeader rest

inductive Event where
  | resp (host : Bytes) (port : Nat) (cookies : List Cookie)
  | req (flt : Bool) (host : Bytes) (port : Nat) (path : Bytes)
deriving Repr

def stepJar (jar : Jar) : Event → Jar
  | .resp host port cs => response jar host port cs
  | .req _ _ _ _ => jar

def runJar (jar : Jar) (evs : List Event) : Jar := evs.foldl stepJar jar

/-! ### cookies.get_expiration_ts / is_expired (the clock and the date parser are the only parameters) -/

def isSpace (c : UInt8) : Bool := c = 9 || c = 10 || c = 11 || c = 12 || c = 13 || c = 32   -- Py_ISSPACE (ASCII str fast path of int())

def strip (s : Bytes) : Bytes := ((s.dropWhile isSpace).reverse.dropWhile isSpace).reverse

/-- decimal digits with single underscores between digits (`int()` grammar) -/
def parseDigits (acc : Nat) (lastDigit : Bool) : Bytes → Option Nat
  | [] => if lastDigit then some acc else none
  | c :: rest =>
    if isDigit c then parseDigits (acc * 10 + (c.toNat - 0x30)) true rest
    else if c = 0x5f && lastDigit then parseDigits acc false rest
    else none

/-- Python `int(s)` for an ASCII `str`: `none` = ValueError -/
def pyInt (s : Bytes) : Option Int :=
  match strip s with
  | [] => none
  | c :: rest =>
    if c = 0x2b then (parseDigits 0 false rest).map Int.ofNat
    else if c = 0x2d then (parseDigits 0 false rest).map (fun n => - Int.ofNat n)
    else (parseDigits 0 false (c :: rest)).map Int.ofNat

/-- `cookies.get_expiration_ts(attrs)`: Max-Age (if `int()` accepts it) before Expires; `dateTs` is
    `mktime_tz(parsedate_tz(attrs["expires"]))` (`none` when the date does not parse) — email.utils is a parameter -/
def expirationTs (now : Int) (attrs : List (Bytes × Option Bytes)) (dateTs : Option Int) : Option Int :=
  match (match attrGet kMaxAge attrs with | some (some v) => pyInt v | _ => none) with
  | some n => some (now + n)
  | none =>
    match attrGet kExpires attrs with
    | some _ => dateTs
    | none => none

/-- `cookies.is_expired(attrs)` at clock `now` -/
def isExpired (now : Int) (attrs : List (Bytes × Option Bytes)) (dateTs : Option Int) : Bool :=
  match expirationTs now attrs dateTs with
  | none => false
  | some t => decide (t ≤ now)

/-- a Set-Cookie as parsed (name, value, attribute pairs) plus the date-parser's verdict on its Expires value -/
structure RawCookie where
  name : Bytes
  value : Val
  attrs : List (Bytes × Option Bytes)
  dateTs : Option Int
deriving Repr

def RawCookie.toCookie (now : Int) (r : RawCookie) : Cookie :=
  { name := r.name, value := r.value, attrs := r.attrs, expired := isExpired now r.attrs r.dateTs }

/-- histories with a clock: every response is processed at its own time -/
inductive RawEvent where
  | resp (now : Int) (host : Bytes) (port : Nat) (cookies : List RawCookie)
  | req (flt : Bool) (host : Bytes) (port : Nat) (path : Bytes)
deriving Repr

def RawEvent.toEvent : RawEvent → Event
  | .resp now host port cs => .resp host port (cs.map (RawCookie.toCookie now))
  | .req f h p pa => .req f h p pa

def runRaw (jar : Jar) (evs : List RawEvent) : Jar := runJar jar (evs.map RawEvent.toEvent)

/-! ### the jar as a function of the history -/

def dictGet (n : Bytes) : Dict → Option Val
  | [] => none
  | (n', v) :: rest => if n' = n then some v else dictGet n rest

/-- `self.jar[k][n]` if present -/
def jarGet (jar : Jar) (k : JKey) (n : Bytes) : Option Val :=
  (jarLookup k jar).bind (dictGet n)

/-- the effect of one Set-Cookie on the slot `(k, n)` -/
def writeCookie (host : Bytes) (port : Nat) (k : JKey) (n : Bytes) (cur : Option Val) (c : Cookie) : Option Val :=
  if implDomainMatch host (ckey c host port).domain && decide (ckey c host port = k) && decide (c.name = n) then
    (if c.expired then none else some c.value)
  else cur

/-- the last accepted Set-Cookie for `(k, n)` in the history decides: its value, or nothing if it was expired -/
def lastWriteFrom (cur : Option Val) (evs : List Event) (k : JKey) (n : Bytes) : Option Val :=
  evs.foldl (fun cur ev =>
    match ev with
    | .resp host port cs => cs.foldl (writeCookie host port k n) cur
    | .req _ _ _ _ => cur) cur

def lastWrite (evs : List Event) (k : JKey) (n : Bytes) : Option Val := lastWriteFrom none evs k n

/-! ### RFC 6265 -/

/-- §5.1.3 with the cookie domain canonicalised as in §5.2.3 (lower case, one leading dot ignored):
    the host is identical to the domain, or the domain is a suffix of the host that starts right
    after a dot and the host is not an IP address (`isIP`).
    An EMPTY cookie domain (Domain value "" or ".") is not a domain at all: RFC 6265 §5.2.3 / §5.3 step 4 make such a cookie
    host-only, so nothing suffix-matches it — only the (degenerate) host string identical to the attribute itself does. -/
def domainMatch6265 (isIP : Bytes → Bool) (host dom : Bytes) : Bool :=
  let h := asciiLower host
  let d := dropDot (asciiLower dom)
  decide (h = d) ||
    (if d = [] then decide (h = asciiLower dom) else ((dot :: d).isSuffixOf h && !isIP h))

/-- §5.1.4 path-match of a request path (the path part of the request target) against a cookie path -/
def pathMatch6265 (r c : Bytes) : Bool :=
  decide (r = c) ||
  (c.isPrefixOf r && decide (c.getLast? = some slash)) ||
  (c.isPrefixOf r && decide (r[c.length]? = some slash))

/-- a concrete notion of "the host is an IP address" (over-approximating IPv4 / IPv6 literals): digits and dots
    starting with a digit and ending in `.<digits>`, or anything containing a colon that, if it contains a
    dot, ends in `.<digits>` (IPv6 with an embedded IPv4 tail). -/
def isIPv4Like (h : Bytes) : Bool :=
  (match h with | c :: _ => isDigit c | [] => false) && h.all (fun c => isDigit c || c = dot) && ipv4re h
def isIPv6Like (h : Bytes) : Bool :=
  h.contains 0x3a && (h.head? ≠ some dot) && (!h.contains dot || ipv4re h)
def stdIP (h : Bytes) : Bool := isIPv4Like h || isIPv6Like h

/-- what the code did before the repairs (kept for the regression examples) -/
def oldPathMatch (req cpath : Bytes) : Bool := cpath.isPrefixOf req
def oldDomainMatch (a b : Bytes) : Bool :=
  let strip (x : Bytes) := ((x.dropWhile (· = dot)).reverse.dropWhile (· = dot)).reverse
  cjMatch (asciiLower a) (asciiLower b) || cjMatch (asciiLower a) (strip (asciiLower b))

end MitmVerif.C54
