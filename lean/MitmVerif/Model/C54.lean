/-
  C54 — executable model of mitmproxy/addons/stickycookie.py (ckey, domain_match, path_match,
  StickyCookie.response / request) over structured Set-Cookie values, plus the RFC 6265 specification
  (§5.1.3 domain-match with the §5.2.3 leading-dot rule, §5.1.4 path-match).

  Strings are ASCII byte strings.  `http.cookiejar.domain_match` / `is_HDN` / `IPV4_RE` are transcribed.
  `cookies.is_expired(attrs)` depends on the clock and is a parameter: the `expired` flag of a cookie.
  `flowfilter.match(self.flt, flow)` is the `flt` flag of a request.
-/
import MitmVerif.Basic.Bytes
namespace MitmVerif.C54

def dot : UInt8 := 0x2e
def slash : UInt8 := 0x2f
def qmark : UInt8 := 0x3f

/-! ### http.cookiejar (CPython) -/

def isDigit (c : UInt8) : Bool := 0x30 ≤ c.toNat && c.toNat ≤ 0x39

/-- `IPV4_RE.search(text)` with `IPV4_RE = re.compile(r"\.\d+$")`, on the reversed text -/
def ipv4reRev : Bytes → Bool
  | [] => false
  | c :: rest =>
    if isDigit c then
      match rest with
      | [] => false
      | c2 :: _ => if c2 = dot then true else ipv4reRev rest
    else false

def ipv4re (t : Bytes) : Bool := ipv4reRev t.reverse

/-- `http.cookiejar.is_HDN` -/
def isHDN (t : Bytes) : Bool :=
  if ipv4re t then false
  else if t = [] then false
  else if t.head? = some dot || t.getLast? = some dot then false
  else true

/-- `A.rfind(B)`: scan left to right, remember the last position at which `b` is a prefix -/
def rfindGo (b : Bytes) : Bytes → Nat → Option Nat → Option Nat
  | [], i, acc => if b.isPrefixOf [] then some i else acc
  | x :: xs, i, acc => rfindGo b xs (i + 1) (if b.isPrefixOf (x :: xs) then some i else acc)

def rfind (a b : Bytes) : Option Nat := rfindGo b a 0 none

/-- `http.cookiejar.domain_match(A, B)` on already lower-cased arguments -/
def cjMatch (a b : Bytes) : Bool :=
  if a = b then true
  else if !isHDN a then false
  else if rfind a b = none || rfind a b = some 0 then false
  else if b.head? ≠ some dot then false
  else isHDN b.tail

/-! ### stickycookie.py -/

/-- `b.removeprefix(".")` -/
def dropDot : Bytes → Bytes
  | c :: t => if c = dot then t else c :: t
  | [] => []

/-- `stickycookie.domain_match(a, b)` (host `a`, cookie domain `b`) -/
def implDomainMatch (a b : Bytes) : Bool :=
  let a := asciiLower a
  let b := asciiLower b
  if b.isSuffixOf a && cjMatch a b then true
  else if a = dropDot b then true
  else false

/-- `request_path.split("?", 1)[0]` -/
def uriPath (p : Bytes) : Bytes := p.takeWhile (· ≠ qmark)

/-- `stickycookie.path_match(request_path, cookie_path)` -/
def implPathMatch (req cpath : Bytes) : Bool :=
  let r := uriPath req
  if r = cpath then true
  else if cpath.isPrefixOf r then cpath.getLast? = some slash || r[cpath.length]? = some slash
  else false

structure Cookie where
  name : Bytes
  value : Bytes
  attrs : List (Bytes × Bytes)     -- attribute (key, value) pairs in header order, keys as sent
  expired : Bool                   -- cookies.is_expired(attrs)
deriving DecidableEq, Repr

/-- `attrs[key]` of the case-insensitive `CookieAttrs` multidict: the last value (`_reduce_values`) -/
def attrGet (key : Bytes) : List (Bytes × Bytes) → Option Bytes
  | [] => none
  | (k, v) :: rest =>
    match attrGet key rest with
    | some r => some r
    | none => if asciiLower k = key then some v else none

def kDomain : Bytes := [0x64, 0x6f, 0x6d, 0x61, 0x69, 0x6e]   -- "domain"
def kPath : Bytes := [0x70, 0x61, 0x74, 0x68]                 -- "path"

structure JKey where
  domain : Bytes
  port : Nat
  path : Bytes
deriving DecidableEq, Repr

/-- `ckey(attrs, flow)` -/
def ckey (c : Cookie) (host : Bytes) (port : Nat) : JKey :=
  { domain := (attrGet kDomain c.attrs).getD host, port := port, path := (attrGet kPath c.attrs).getD [slash] }

abbrev Dict := List (Bytes × Bytes)
abbrev Jar := List (JKey × Dict)

def jarLookup (k : JKey) : Jar → Option Dict
  | [] => none
  | (k', d) :: rest => if k' = k then some d else jarLookup k rest

/-- `d[name] = value` on an insertion-ordered dict -/
def dictSet (name value : Bytes) : Dict → Dict
  | [] => [(name, value)]
  | (n, v) :: rest => if n = name then (n, value) :: rest else (n, v) :: dictSet name value rest

/-- one iteration of the loop in `StickyCookie.response` -/
def setCookie (jar : Jar) (host : Bytes) (port : Nat) (c : Cookie) : Jar :=
  let k := ckey c host port
  if implDomainMatch host k.domain then
    match jarLookup k jar with
    | none =>
      -- expired: the defaultdict entry is created and removed again
      if c.expired then jar else jar ++ [(k, [(c.name, c.value)])]
    | some d =>
      if c.expired then
        let d' := d.filter (fun p => decide (p.1 ≠ c.name))
        if d' = [] then jar.filter (fun p => decide (p.1 ≠ k))
        else jar.map (fun p => if p.1 = k then (p.1, d') else p)
      else jar.map (fun p => if p.1 = k then (p.1, dictSet c.name c.value d) else p)
  else jar

def response (jar : Jar) (host : Bytes) (port : Nat) (cs : List Cookie) : Jar :=
  cs.foldl (fun j c => setCookie j host port c) jar

/-- the cookie list `StickyCookie.request` collects -/
def attached (jar : Jar) (flt : Bool) (host : Bytes) (port : Nat) (path : Bytes) : Dict :=
  if flt then
    jar.flatMap (fun p =>
      if implDomainMatch host p.1.domain && decide (port = p.1.port) && implPathMatch path p.1.path then p.2 else [])
  else []

/-- `format_cookie_header` for values without special characters -/
def cookieHeader : Dict → Bytes
  | [] => []
  | [(n, v)] => n ++ [0x3d] ++ v
  | (n, v) :: rest => n ++ [0x3d] ++ v ++ [0x3b, 0x20] ++ cookieHeader rest

inductive Event where
  | resp (host : Bytes) (port : Nat) (cookies : List Cookie)
  | req (flt : Bool) (host : Bytes) (port : Nat) (path : Bytes)
deriving Repr

def stepJar (jar : Jar) : Event → Jar
  | .resp host port cs => response jar host port cs
  | .req _ _ _ _ => jar

def runJar (jar : Jar) (evs : List Event) : Jar := evs.foldl stepJar jar

/-! ### RFC 6265 -/

/-- §5.1.3 with the cookie domain canonicalised as in §5.2.3 (lower case, one leading dot ignored):
    the host is identical to the domain, or the domain is a suffix of the host that starts right
    after a dot and the host is not an IP address (`isIP`). -/
def domainMatch6265 (isIP : Bytes → Bool) (host dom : Bytes) : Bool :=
  let h := asciiLower host
  let d := dropDot (asciiLower dom)
  decide (h = d) || ((dot :: d).isSuffixOf h && !isIP h)

/-- §5.1.4 path-match of a request path (the path part of the request target) against a cookie path -/
def pathMatch6265 (r c : Bytes) : Bool :=
  decide (r = c) ||
  (c.isPrefixOf r && decide (c.getLast? = some slash)) ||
  (c.isPrefixOf r && decide (r[c.length]? = some slash))

/-- a concrete notion of "the host is an IP address" (over-approximating IPv4 / IPv6 literals): digits and dots
    starting with a digit and ending in `.<digits>`, or anything containing a colon that, if it contains a
    dot, ends in `.<digits>` (IPv6 with an embedded IPv4 tail). -/
def isIPv4Like (h : Bytes) : Bool :=
  (match h with | c :: _ => isDigit c | [] => false) && h.all (fun c => isDigit c || c = dot) && ipv4re h
def isIPv6Like (h : Bytes) : Bool :=
  h.contains 0x3a && (h.head? ≠ some dot) && (!h.contains dot || ipv4re h)
def stdIP (h : Bytes) : Bool := isIPv4Like h || isIPv6Like h

/-- what the code did before the repairs (kept for the regression examples) -/
def oldPathMatch (req cpath : Bytes) : Bool := cpath.isPrefixOf req
def oldDomainMatch (a b : Bytes) : Bool :=
  let strip (x : Bytes) := ((x.dropWhile (· = dot)).reverse.dropWhile (· = dot)).reverse
  cjMatch (asciiLower a) (asciiLower b) || cjMatch (asciiLower a) (strip (asciiLower b))

end MitmVerif.C54
