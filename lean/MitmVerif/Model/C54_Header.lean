/-
  C54 — the Set-Cookie header text inside the model: `Response._get_cookies` = the transcription of
  `cookies._read_set_cookie_pairs` / `parse_set_cookie_header(s)` that C34 maintains (`C34.parseSetCookie`, tied to the code by
  C34's own driver op and here by `hresp`), followed by the raw-cookie layer of Model/C54.lean.  The only remaining
  parameter of a response is `dateOf`: email.utils' verdict (`mktime_tz(parsedate_tz(v))`) on an Expires value.
  Header texts are ASCII (code points < 128).
-/
import MitmVerif.Model.C54
import MitmVerif.Model.C34
namespace MitmVerif.C54

def strToBytes (s : C34.Str) : Bytes := s.map (fun c => UInt8.ofNat c)
def bytesToStr (b : Bytes) : C34.Str := b.map (fun c => c.toNat)

/-- `parse_set_cookie_header(h)`: every non-empty pair list is a cookie — first pair = name/value, the rest = `CookieAttrs`.
    A cookie name without "=value" has value `none` (Python `None`). -/
def cookiesOfHeader (dateOf : Bytes → Option Int) (h : C34.Str) : List RawCookie :=
  (C34.parseSetCookie h).filterMap (fun pairs =>
    match pairs with
    | [] => none
    | (n, v) :: attrs =>
      let as := attrs.map (fun p => (strToBytes p.1, p.2.map strToBytes))
      some { name := strToBytes n, value := v.map strToBytes, attrs := as,
             dateTs := match attrGet kExpires as with
               | some (some e) => dateOf e
               | _ => none })

/-- histories of responses given by their Set-Cookie header values, and requests -/
inductive HdrEvent where
  | resp (now : Int) (host : Bytes) (port : Nat) (headers : List C34.Str)
  | req (flt : Bool) (host : Bytes) (port : Nat) (path : Bytes)

def HdrEvent.toRaw (dateOf : Bytes → Option Int) : HdrEvent → RawEvent
  | .resp now host port hs => .resp now host port (hs.flatMap (cookiesOfHeader dateOf))
  | .req f h p pa => .req f h p pa

/-- `format_cookie_header(cookie_list)` = `_format_pairs` with quoting of special values (C34's transcription) -/
def cookieHeaderText (d : Dict) : C34.Str :=
  C34.joinSep (d.map (fun p => C34.fmtPair [] (bytesToStr p.1) (p.2.map bytesToStr)))

def runHdr (dateOf : Bytes → Option Int) (jar : Jar) (evs : List HdrEvent) : Jar :=
  runRaw jar (evs.map (HdrEvent.toRaw dateOf))

end MitmVerif.C54
