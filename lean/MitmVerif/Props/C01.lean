/-
  C01 — HTTP/1 forwarding is framing-consistent: property theorems.
  Model: MitmVerif/Model/C01.lean (mitmproxy's functions + `Ref`, the strict RFC 9112 reader used as SPEC).
-/
import MitmVerif.Lemmas.C01_Roundtrip
import MitmVerif.Lemmas.C01_Fold
import MitmVerif.Lemmas.C01_FoldG2
import MitmVerif.Lemmas.C01_Lines
import MitmVerif.Lemmas.C01_Raw
import MitmVerif.Lemmas.C01_RawResp
namespace MitmVerif.Props.C01
open MitmVerif MitmVerif.C01

/-- what the proxy decides for the body (`expected_http_body_size`) -/
def proxySize (kind : Kind) (reqMethod : Bytes) (fs : List Field) : Option BodySize :=
  match kind with
  | .request => sizeFromHeaders false fs
  | .response st => responseBodySize reqMethod ⟨[], st, [], fs⟩

/-- the proxy's framing decision and the reference reader's denote the same body delimitation -/
def Agree : BodySize → Ref.Framing → Prop
  | .len n, .cl m => n = m
  | .len n, .none => n = 0
  | .chunked, .chunked => True
  | .untilEof, .eof => True
  | _, _ => False

private theorem valueOk_last : ∀ {v : Bytes}, valueOk v = true → v.getLast? ≠ some 10
  | [], _ => by simp
  | [c], h => by
    simp only [valueOk] at h
    intro hc; simp at hc; subst hc; simp at h
  | c :: d :: rest, h => by
    have : valueOk (d :: rest) = true := by
      rw [valueOk] at h
      by_cases h0 : c = 0
      · simp [h0] at h
      · by_cases h13 : c = 13
        · simp [h13] at h; exact h.2
        · by_cases h10 : c = 10
          · simp [h10] at h; exact h.2
          · simpa [h0, h13, h10] using h
    have ih := valueOk_last this
    simpa [List.getLast?_cons_cons] using ih

private theorem dropFinalLF_id {v : Bytes} (h : v.getLast? ≠ some 10) : dropFinalLF v = v := by
  unfold dropFinalLF
  cases hl : v.getLast? with
  | none => rfl
  | some c =>
    have : c ≠ 10 := fun e => h (by rw [hl, e])
    simp [this]

private theorem digit_not_ows (c : UInt8) (h : isDigit c = true) : (!isOws c) = true := by
  have hh : ∀ n : Fin 256, isDigit (UInt8.ofNat n.val) = true → (!isOws (UInt8.ofNat n.val)) = true := by decide +kernel
  have := hh ⟨c.toNat, UInt8.toNat_lt c⟩
  simpa using this (by simpa using h)

private theorem digit_ne_comma (c : UInt8) (h : isDigit c = true) : c ≠ 44 := by
  intro e; subst e; revert h; decide

/-- a value accepted by `parse_content_length` (without the `$` quirk) is 1*DIGIT and denotes the same number -/
private theorem clDigits_spec {c : Bytes} {n : Nat} (h : clDigits c = some n) :
    c ≠ [] ∧ c.all isDigit = true ∧ n = natOfDigits c := by
  unfold clDigits at h
  split at h
  · simp at h
  · simp at h; subst h; decide
  · rename_i x rest _ _
    split at h
    · rename_i hc
      simp at h hc
      refine ⟨by simp, ?_, h.symm⟩
      simp [hc.1.1]; exact hc.2
    · simp at h

private theorem cl_items_single {c : Bytes} (hne : c ≠ []) (hd : c.all isDigit = true) :
    Ref.clItems [c] = [c] ∧ Ref.allDigits c = true := by
  have hno : (44 : UInt8) ∉ c := by
    intro hm
    have := List.all_eq_true.mp hd 44 hm
    exact digit_ne_comma 44 this rfl
  have hs : stripBy isOws c = c := stripBy_all_false (by
    apply List.all_eq_true.mpr
    intro x hx
    exact digit_not_ows x (List.all_eq_true.mp hd x hx))
  constructor
  · simp [Ref.clItems, splitOn_no_sep hno, hs]
  · simp [Ref.allDigits, hd]; cases c <;> simp_all

/-- what `validate_headers` guarantees, as a case split -/
private theorem validate_cases {kind : Kind} {version reason : Bytes} {fs : List Field}
    (hv : validateHeaders kind version reason fs = true) :
    (∀ f ∈ fs, nameOk f.1 = true ∧ valueOk f.2 = true) ∧
    ((∃ t cls w, getAll fs sTE = [t] ∧ getAll fs sCL = [] ∧ version = sHttp11 ∧ parseTE t = some (cls, w) ∧
        (match kind with
         | .request => cls = .chunkedFinal
         | .response st => ¬((100 ≤ st ∧ st ≤ 199) ∨ st = 204))) ∨
     (∃ c n, getAll fs sTE = [] ∧ getAll fs sCL = [c] ∧ parseCL c = some n) ∨
     (getAll fs sTE = [] ∧ getAll fs sCL = [])) := by
  unfold validateHeaders at hv
  simp only [Bool.and_eq_true] at hv
  obtain ⟨⟨_, hall⟩, hrest⟩ := hv
  refine ⟨fun f hf => by simpa using List.all_eq_true.mp hall f hf, ?_⟩
  generalize getAll fs sTE = te at hrest
  generalize getAll fs sCL = cl at hrest
  cases te with
  | nil =>
    cases cl with
    | nil => exact Or.inr (Or.inr ⟨rfl, rfl⟩)
    | cons c more =>
      simp at hrest
      obtain ⟨hm, hp⟩ := hrest
      subst hm
      obtain ⟨n, hn⟩ := Option.isSome_iff_exists.mp hp
      exact Or.inr (Or.inl ⟨c, n, rfl, rfl, hn⟩)
  | cons t more =>
    cases cl with
    | cons c cs => simp at hrest
    | nil =>
      simp at hrest
      obtain ⟨⟨⟨hm, hver⟩, hk⟩, hp⟩ := hrest
      subst hm
      left
      cases hpt : parseTE t with
      | none => simp [hpt] at hp
      | some r =>
        obtain ⟨cls, w⟩ := r
        refine ⟨t, cls, w, rfl, rfl, hver, hpt, ?_⟩
        cases kind with
        | request =>
          cases cls with
          | chunkedFinal => rfl
          | other => simp [hpt] at hp
        | response st =>
          simp at hk
          intro hh
          rcases hh with ⟨h1, h2⟩ | h2
          · omega
          · exact hk.2 h2

private theorem getJoined_single {fs : List Field} {n v : Bytes} (h : getAll fs n = [v]) : getJoined fs n = some v := by
  simp [getJoined, h, joinWith]

private theorem getJoined_none {fs : List Field} {n : Bytes} (h : getAll fs n = []) : getJoined fs n = none := by
  simp [getJoined, h]

private theorem parseTE_nonempty {t w : Bytes} {cls : TE} (h : parseTE t = some (cls, w)) : t ≠ [] := by
  intro e; subst e
  have : parseTE [] = none := by decide
  rw [this] at h; simp at h

private theorem codingsOf_single (t : Bytes) : Ref.codingsOf [t] = refCodingsOf t := by
  simp [Ref.codingsOf, refCodingsOf]

private theorem te_eval_chunked : ∀ w ∈ Gen.C01.teChunked,
    (splitOn 44 w).getLast? = some sChunked ∧
    Ref.teErrorC (splitOn 44 w) sHttp11 .request = none ∧
    ∀ st, Ref.teErrorC (splitOn 44 w) sHttp11 (.response st) =
      if (100 ≤ st && st ≤ 199) || st = 204 then some Ref.cTe1xx204 else none := by
  intro w hw
  simp [Gen.C01.teChunked] at hw
  rcases hw with rfl | rfl | rfl | rfl <;>
    refine ⟨by decide, by decide, fun st => ?_⟩ <;>
    (unfold Ref.teErrorC; rw [if_neg (by decide), if_neg (by decide), if_neg (by decide)])

private theorem te_eval_other : ∀ w ∈ Gen.C01.teOther,
    (splitOn 44 w).getLast? ≠ some sChunked ∧
    ∀ st, Ref.teErrorC (splitOn 44 w) sHttp11 (.response st) =
      if (100 ≤ st && st ≤ 199) || st = 204 then some Ref.cTe1xx204 else none := by
  intro w hw
  simp [Gen.C01.teOther] at hw
  rcases hw with rfl | rfl | rfl | rfl <;>
    refine ⟨by decide, fun st => ?_⟩ <;>
    (unfold Ref.teErrorC; rw [if_neg (by decide), if_neg (by decide), if_neg (by decide)])

private theorem noBody_request (m : Bytes) : Ref.noBody .request m = false := rfl

private theorem proxy_nobody {st : Nat} {m : Bytes} (fs : List Field)
    (hnb : Ref.noBody (.response st) m = true) : proxySize (.response st) m fs = some (.len 0) := by
  simp only [Ref.noBody, Bool.or_eq_true, Bool.and_eq_true, decide_eq_true_eq, noBodyStatus] at hnb
  simp only [proxySize, responseBodySize]
  rcases hnb with (h | h) | h
  · simp [h]
  · split
    · rfl
    · split
      · rfl
      · split
        · rfl
        · rename_i h1 h2 h3
          exfalso
          rcases h with (h | h) | h
          · exact h2 (by simpa using h)
          · exact h3 (Or.inl (by simpa using h))
          · exact h3 (Or.inr (by simpa using h))
  · split
    · rfl
    · split
      · rfl
      · split
        · rfl
        · simp [h.1.2, h.2, h.1.1]

private theorem proxy_body {st : Nat} {m : Bytes} (fs : List Field)
    (hnb' : Ref.noBody (.response st) m = false) : proxySize (.response st) m fs = sizeFromHeaders true fs := by
  simp only [Ref.noBody, noBodyStatus, Bool.or_eq_false_iff, Bool.and_eq_false_iff, decide_eq_false_iff_not] at hnb'
  obtain ⟨⟨h1, h2⟩, h3⟩ := hnb'
  simp only [proxySize, responseBodySize]
  rw [if_neg h1]
  have h2a : ¬(100 ≤ st ∧ st ≤ 199) := by
    intro hh; have := h2.1.1; simp [hh.1, hh.2] at this
  have h2b : ¬(st = 204 ∨ st = 304) := by
    intro hh; rcases hh with hh | hh
    · exact h2.1.2 hh
    · exact h2.2 hh
  rw [if_neg h2a, if_neg h2b]
  split
  · rename_i hh
    exfalso
    rcases h3 with (h3 | h3) | h3
    · exact h3 hh.2.2
    · omega
    · omega
  · rfl

private theorem getAll_mem {fs : List Field} {n c : Bytes} (h : c ∈ getAll fs n) : ∃ f ∈ fs, f.2 = c := by
  simp only [getAll, List.mem_map, List.mem_filter] at h
  obtain ⟨f, ⟨hf, _⟩, rfl⟩ := h
  exact ⟨f, hf, rfl⟩

/-- **Framing agreement** (requests and responses): for every field list that `validate_headers` accepts, the strict
    reference reader does not find the framing ambiguous, and it delimits the body exactly as
    `expected_http_body_size` does.  `ambiguous_rejected` is the contrapositive. -/
theorem framing_agrees (kind : Kind) (version reason reqMethod : Bytes) (fs : List Field)
    (hv : validateHeaders kind version reason fs = true) :
    ∃ sz fr, proxySize kind reqMethod fs = some sz ∧ Ref.framing fs version kind reqMethod = .ok fr ∧ Agree sz fr := by
  obtain ⟨hall, hc⟩ := validate_cases hv
  rcases hc with ⟨t, cls, w, hte, hcl, hver, hpt, hk⟩ | ⟨c, n, hte, hcl, hpc⟩ | ⟨hte, hcl⟩
  · -- Transfer-Encoding only
    obtain ⟨hcod, hmem⟩ := parseTE_codings hpt
    have htne := parseTE_nonempty hpt
    have hj := getJoined_single hte
    subst hver
    have hfr : ∀ k, Ref.framing fs sHttp11 k reqMethod =
        match Ref.teErrorC (splitOn 44 w) sHttp11 k with
        | some c => .error (.ambiguous c)
        | none => if Ref.noBody k reqMethod then .ok .none
                  else if (splitOn 44 w).getLast? = some sChunked then .ok .chunked else .ok .eof := by
      intro k
      have hcl0 : Ref.clError [] = none := by decide
      unfold Ref.framing Ref.teError
      simp only [hte, hcl, List.isEmpty_cons, List.isEmpty_nil, Bool.not_false, Bool.not_true, Bool.and_false,
        Bool.false_eq_true, ↓reduceIte, codingsOf_single, hcod, hcl0]
      rfl
    rw [hfr]
    cases kind with
    | request =>
      subst hk
      rcases hmem with ⟨_, hm⟩ | ⟨h, _⟩
      · obtain ⟨hl, he, _⟩ := te_eval_chunked w hm
        refine ⟨.chunked, .chunked, ?_, ?_, trivial⟩
        · simp [proxySize, sizeFromHeaders, hj, htne, hpt]
        · simp [he, noBody_request, hl]
      · cases h
    | response st =>
      have hst : ((100 ≤ st && st ≤ 199) || st = 204) = false := by
        simp only [Bool.or_eq_false_iff, Bool.and_eq_false_iff]
        constructor
        · by_cases h1 : 100 ≤ st
          · by_cases h2 : st ≤ 199
            · exact absurd (Or.inl ⟨h1, h2⟩) hk
            · right; simpa using h2
          · left; simpa using h1
        · simpa using fun h => hk (Or.inr h)
      have hte_none : Ref.teErrorC (splitOn 44 w) sHttp11 (.response st) = none := by
        rcases hmem with ⟨_, hm⟩ | ⟨_, hm⟩
        · rw [(te_eval_chunked w hm).2.2 st, hst]; rfl
        · rw [(te_eval_other w hm).2 st, hst]; rfl
      simp only [hte_none]
      by_cases hnb : Ref.noBody (.response st) reqMethod = true
      · -- HEAD / 304 / CONNECT-2xx: both sides say "no body"
        have hp := proxy_nobody fs hnb
        exact ⟨.len 0, .none, hp, by simp [hnb], rfl⟩
      · have hnb' : Ref.noBody (.response st) reqMethod = false := by simpa using hnb
        have hshort := proxy_body fs hnb'
        rcases hmem with ⟨hc, hm⟩ | ⟨hc, hm⟩
        · subst hc
          refine ⟨.chunked, .chunked, ?_, ?_, trivial⟩
          · rw [hshort]; simp [sizeFromHeaders, hj, htne, hpt]
          · simp [hnb', (te_eval_chunked w hm).1]
        · subst hc
          refine ⟨.untilEof, .eof, ?_, ?_, trivial⟩
          · rw [hshort]; simp [sizeFromHeaders, hj, htne, hpt]
          · simp [hnb', (te_eval_other w hm).1]
  · -- Content-Length only
    have hcv : valueOk c = true := by
      obtain ⟨f, hf, rfl⟩ := getAll_mem (n := sCL) (by rw [hcl]; simp : c ∈ getAll fs sCL)
      exact (hall f hf).2
    have hpc' : clDigits c = some n := by
      have := dropFinalLF_id (valueOk_last hcv)
      simpa [parseCL, this] using hpc
    obtain ⟨hne, hd, hn⟩ := clDigits_spec hpc'
    obtain ⟨hitems, hdig⟩ := cl_items_single hne hd
    have hcle : Ref.clError [c] = none := by
      simp [Ref.clError, hitems, hdig]
    have hfr : Ref.framing fs version kind reqMethod =
        if Ref.noBody kind reqMethod then .ok .none else .ok (.cl n) := by
      unfold Ref.framing Ref.teError
      simp [hte, hcl, hcle, hitems, hn]
    have hsz : ∀ b, sizeFromHeaders b fs = some (.len n) := by
      intro b
      simp [sizeFromHeaders, getJoined_none hte, getJoined_single hcl, hne, hpc]
    rw [hfr]
    cases kind with
    | request => exact ⟨.len n, .cl n, by simp [proxySize, hsz], by simp [noBody_request], rfl⟩
    | response st =>
      by_cases hnb : Ref.noBody (.response st) reqMethod = true
      · exact ⟨.len 0, .none, proxy_nobody fs hnb, by simp [hnb], rfl⟩
      · have hnb' : Ref.noBody (.response st) reqMethod = false := by simpa using hnb
        exact ⟨.len n, .cl n, by rw [proxy_body fs hnb', hsz], by simp [hnb'], rfl⟩
  · -- neither
    clear hv hall
    have hfr : Ref.framing fs version kind reqMethod =
        if Ref.noBody kind reqMethod then .ok .none
        else match kind with | .request => .ok .none | .response _ => .ok .eof := by
      have hcl0 : Ref.clError [] = none := by decide
      unfold Ref.framing Ref.teError
      simp [hte, hcl, hcl0, Ref.clItems]
      cases kind <;> rfl
    rw [hfr]
    cases kind with
    | request =>
      exact ⟨.len 0, .none, by simp [proxySize, sizeFromHeaders, getJoined_none hte, getJoined_none hcl], by simp [noBody_request], rfl⟩
    | response st =>
      by_cases hnb : Ref.noBody (.response st) reqMethod = true
      · exact ⟨.len 0, .none, proxy_nobody fs hnb, by simp [hnb], rfl⟩
      · have hnb' : Ref.noBody (.response st) reqMethod = false := by simpa using hnb
        refine ⟨.untilEof, .eof, ?_, by simp [hnb'], trivial⟩
        rw [proxy_body fs hnb']
        simp [sizeFromHeaders, getJoined_none hte, getJoined_none hcl]

/-- **ambiguous_rejected** (requests and responses): if the reference reader finds the framing of a field list ambiguous
    (Content-Length with Transfer-Encoding, differing / malformed Content-Length, unknown or misplaced transfer coding,
    non-chunked request coding, Transfer-Encoding on HTTP/1.0 or on 1xx/204), `validate_headers` rejects the message. -/
theorem ambiguous_rejected (kind : Kind) (version reason reqMethod : Bytes) (fs : List Field) (cls : Nat)
    (h : Ref.framing fs version kind reqMethod = .error (.ambiguous cls)) :
    validateHeaders kind version reason fs = false := by
  cases hv : validateHeaders kind version reason fs with
  | false => rfl
  | true =>
    obtain ⟨_, fr, _, hfr, _⟩ := framing_agrees kind version reason reqMethod fs hv
    rw [hfr] at h; cases h

/-- invalid field names are rejected as well (the remaining ambiguity class of the reference reader) -/
theorem bad_field_name_rejected (kind : Kind) (version reason : Bytes) (fs : List Field) (f : Field)
    (hf : f ∈ fs) (hn : nameOk f.1 = false) : validateHeaders kind version reason fs = false := by
  cases hv : validateHeaders kind version reason fs with
  | false => rfl
  | true =>
    have := (validate_cases hv).1 f hf
    rw [hn] at this; simp at this

/-! non-vacuity: the hypotheses are satisfiable, and the functions are not constant -/
example : validateHeaders .request sHttp11 [] [(sTE, sChunked)] = true := by decide
example : validateHeaders (.response 200) sHttp11 [79, 75] [(sCL, [52, 50])] = true := by decide
example : validateHeaders .request sHttp11 [] [(sTE, sChunked), (sCL, [53])] = false := by decide
example : Ref.framing [(sTE, sChunked), (sCL, [53])] sHttp11 .request [] = .error (.ambiguous Ref.cClTe) := by rfl
example : Ref.framing [(sCL, [53]), (sCL, [54])] sHttp11 .request [] = .error (.ambiguous Ref.cClConflict) := by rfl
example : Ref.framing [(sTE, [103, 122, 105, 112])] sHttp11 .request [] = .error (.ambiguous Ref.cTeReqNotChunked) := by rfl


/-! ### Round trip of forwarded messages

`ForwardRequestRoundtrip` / `ForwardStreamRoundtrip` below are the full statements of DESIGN §5 C01; they are PROVED at the end
of this file as `forward_request_roundtrip` and `forward_stream_roundtrip` (no fold-freeness, no decomposition of the values
assumed: every value `validate_headers` accepts is split by `dec` into parts separated by CR LF or a bare LF — `dec_ok`,
`joinG_dec` — and read back as `Ref.unfold` of it), together with `relay_response_roundtrip_full` for responses.
Earlier, more special forms are kept: `…_nofold` (values without line breaks), `…_fold` / `…_obsfold` (values given by
CRLF-separated parts), `framing_fields_plain` (Content-Length / Transfer-Encoding are never folded).
`ObsFoldNormalisation` is the byte-level single-field formulation; its content is `obs_fold_field` + `unfold_joinG` + `dec_ok`. -/

/-- byte-level formulation of the obs-fold lemma (stated; proved in the structural form `obs_fold_field`) -/
def ObsFoldNormalisation : Prop :=
  ∀ (name v tail : Bytes) (ls : List Bytes) (acc : List Field),
    isToken name = true → valueOk v = true →
    Ref.headLines ((name ++ colonSp ++ v ++ crlf ++ crlf ++ tail).length + 1) (name ++ colonSp ++ v ++ crlf ++ crlf ++ tail) = .ok (ls, tail) →
    Ref.fieldsAux ls acc = .ok (acc.reverse ++ [(name, Ref.unfold v)])

/-- a body is consistent with the request's headers (what `set_content` maintains): chunked → any body; otherwise the
    Content-Length value is the body length, and no Content-Length means no body -/
def BodyConsistent (r : ReqHead) (body : Bytes) : Prop :=
  match requestBodySize r with
  | some .chunked => True
  | some (.len n) => body.length = n
  | _ => False

/-- what `_read_request_line` (`line.split()`) guarantees for the parts of the request line, and `_read_headers`
    (lines are split at LF) for the names -/
def RequestLineOk (r : ReqHead) : Prop :=
  r.method ≠ [] ∧ (∀ c ∈ r.method, isPyWs c = false) ∧
  requestTarget r ≠ [] ∧ (∀ c ∈ requestTarget r, isPyWs c = false) ∧
  versionOk r.version = true ∧ (∀ f ∈ r.fields, (10 : UInt8) ∉ f.1)

/-- forward_request_roundtrip / edit_stable: for every request the proxy would forward (validate_headers true — whether the
    fields come from the wire or from an addon edit) and every consistent body, the reference reader reads the written
    bytes back as exactly this request, followed by whatever comes next.
    Reading of "including any addon edits" (audit round 6): the theorem covers an edited message exactly when the EDITED head
    still passes `validateHeaders` and `BodyConsistent` still holds.  The code checks validate_headers before the hooks only
    (HttpStream.check_invalid) and does not re-check before Http1Client.send, so for edits that write Content-Length /
    Transfer-Encoding / a non-token name the hypothesis can fail and nothing is claimed — finding F-C01a in known/C01.json. -/
def ForwardRequestRoundtrip : Prop :=
  ∀ (r : ReqHead) (body rest : Bytes),
    validateHeaders .request r.version [] r.fields = true → RequestLineOk r → BodyConsistent r body →
    ∃ fr, Ref.parseRequest (forwardRequest r body ++ rest) =
      .ok (⟨r.method, requestTarget r, r.version, r.fields.map (fun f => (f.1, Ref.unfold f.2)), body, fr⟩, rest)

/-- forward_stream_roundtrip: the pipelined version (induction over the list of messages): same number and order, and for every
    message the same method, target, version, header fields (obs-folds read as SP, as the reference reader does) and body.
    (Strengthened in audit round 6: the conclusion used to compare method, target and body only.) -/
def ForwardStreamRoundtrip : Prop :=
  ∀ (ms : List (ReqHead × Bytes)),
    (∀ m ∈ ms, validateHeaders .request m.1.version [] m.1.fields = true ∧ RequestLineOk m.1 ∧ BodyConsistent m.1 m.2) →
    let wire := (ms.map fun m => forwardRequest m.1 m.2).flatten
    (Ref.parseRequests (wire.length + 1) wire).2 = none ∧
    (Ref.parseRequests (wire.length + 1) wire).1.map (fun m => (m.a, m.b, m.c, m.fields, m.body)) =
      ms.map (fun m => (m.1.method, requestTarget m.1, m.1.version, m.1.fields.map (fun f => (f.1, Ref.unfold f.2)), m.2))

private theorem noPyWs_facts {b : Bytes} (hne : b ≠ []) (h : ∀ c ∈ b, isPyWs c = false) :
    (32 : UInt8) ∉ b ∧ (13 : UInt8) ∉ b ∧ (10 : UInt8) ∉ b ∧ Ref.noWs b = true := by
  refine ⟨fun hm => by have := h _ hm; revert this; decide, fun hm => by have := h _ hm; revert this; decide,
          fun hm => by have := h _ hm; revert this; decide, ?_⟩
  simp only [Ref.noWs, Bool.and_eq_true, Bool.not_eq_true', List.all_eq_true]
  refine ⟨by cases b <;> simp at hne ⊢, fun c hc => ?_⟩
  have := h c hc
  have key : ∀ n : Fin 256, isPyWs (UInt8.ofNat n.val) = false →
      (!(decide (UInt8.ofNat n.val = 9) || decide (UInt8.ofNat n.val = 11) || decide (UInt8.ofNat n.val = 12))) = true := by
    decide +kernel
  have := key ⟨c.toNat, UInt8.toNat_lt c⟩ (by simpa using this)
  simpa using this

private theorem version_facts {v : Bytes} (h : versionOk v = true) :
    (32 : UInt8) ∉ v ∧ (13 : UInt8) ∉ v ∧ (10 : UInt8) ∉ v := by
  unfold versionOk at h
  split at h
  · rename_i a b
    simp only [Bool.and_eq_true] at h
    have ha : a ≠ 32 ∧ a ≠ 13 ∧ a ≠ 10 := by
      refine ⟨?_, ?_, ?_⟩ <;> (intro e; subst e; exact absurd h.1 (by decide))
    have hb : b ≠ 32 ∧ b ≠ 13 ∧ b ≠ 10 := by
      refine ⟨?_, ?_, ?_⟩ <;> (intro e; subst e; exact absurd h.2 (by decide))
    simp only [List.mem_cons, List.not_mem_nil, or_false, not_or]
    refine ⟨⟨by decide, by decide, by decide, by decide, by decide, fun e => ha.1 e.symm, by decide, fun e => hb.1 e.symm⟩,
            ⟨by decide, by decide, by decide, by decide, by decide, fun e => ha.2.1 e.symm, by decide, fun e => hb.2.1 e.symm⟩,
            ⟨by decide, by decide, by decide, by decide, by decide, fun e => ha.2.2 e.symm, by decide, fun e => hb.2.2 e.symm⟩⟩
  · simp at h

private theorem requestLine_assembled {m t v : Bytes} (hm : m ≠ []) (hmw : ∀ c ∈ m, isPyWs c = false)
    (ht : t ≠ []) (htw : ∀ c ∈ t, isPyWs c = false) (hv : versionOk v = true) :
    Ref.requestLine (m ++ [32] ++ t ++ [32] ++ v) = some (m, t, v) ∧
    cleanLine (m ++ [32] ++ t ++ [32] ++ v) ∧ m ++ [32] ++ t ++ [32] ++ v ≠ [] := by
  obtain ⟨m32, m13, m10, mws⟩ := noPyWs_facts hm hmw
  obtain ⟨t32, t13, t10, tws⟩ := noPyWs_facts ht htw
  obtain ⟨v32, v13, v10⟩ := version_facts hv
  refine ⟨?_, ⟨?_, ?_⟩, by cases m <;> simp at hm ⊢⟩
  · have : m ++ [32] ++ t ++ [32] ++ v = m ++ 32 :: (t ++ 32 :: v) := by simp
    simp only [Ref.requestLine, this, splitOn_append_sep m32, splitOn_append_sep t32, splitOn_no_sep v32, mws, tws, hv,
      Bool.and_self, ↓reduceIte]
  · simp [m13, t13, v13]
  · simp [m10, t10, v10]

private theorem valueOk_no_nul : ∀ {v : Bytes}, valueOk v = true → (0 : UInt8) ∉ v
  | [], _ => by simp
  | [c], h => by
    simp only [valueOk] at h
    intro hm; simp at hm; subst hm; simp at h
  | c :: d :: rest, h => by
    have h' := h
    rw [valueOk] at h
    have h0 : c ≠ 0 := by intro e; subst e; simp at h
    have hr : valueOk (d :: rest) = true := by
      by_cases h13 : c = 13
      · simp [h13] at h; exact h.2
      · by_cases h10 : c = 10
        · simp [h10] at h; exact h.2
        · simpa [h0, h13, h10] using h
    have ih := valueOk_no_nul hr
    intro hm
    simp only [List.mem_cons] at hm ih
    rcases hm with e | e
    · exact h0 e.symm
    · exact ih e

/-- the reference reader reads an assembled request head back (request line parts whitespace-free, names tokens,
    values without line break and without surrounding OWS) -/
private theorem head_parse (r : ReqHead) (hv : validateHeaders .request r.version [] r.fields = true)
    (hl : RequestLineOk r) (hplain : ∀ f ∈ r.fields, cleanLine f.2 ∧ stripBy isOws f.2 = f.2) (tail : Bytes) :
    ∃ line, Ref.headLines ((assembleRequestHead r ++ tail).length + 1) (assembleRequestHead r ++ tail) =
        .ok (line :: r.fields.map fieldLine, tail) ∧
      Ref.requestLine line = some (r.method, requestTarget r, r.version) ∧
      Ref.fields (r.fields.map fieldLine) = .ok r.fields := by
  obtain ⟨hm, hmw, ht, htw, hver, hnames⟩ := hl
  obtain ⟨hreq, hclean, hlne⟩ := requestLine_assembled hm hmw ht htw hver
  have hvc := (validate_cases hv).1
  have hfields : ∀ f ∈ r.fields, isToken f.1 = true ∧ stripBy isOws f.2 = f.2 := by
    intro f hf
    refine ⟨?_, (hplain f hf).2⟩
    have h1 := (hvc f hf).1
    have h2 : dropFinalLF f.1 = f.1 := by
      apply dropFinalLF_id
      intro e
      exact hnames f hf (List.mem_of_getLast? e)
    simpa [nameOk, h2] using h1
  obtain ⟨line, hline⟩ : ∃ l, l = r.method ++ [32] ++ requestTarget r ++ [32] ++ r.version := ⟨_, rfl⟩
  rw [← hline] at hreq hclean hlne
  have hwire : assembleRequestHead r ++ tail = renderLines (line :: r.fields.map fieldLine) ++ crlf ++ tail := by
    simp only [assembleRequestHead, assembleFields_eq, renderLines, hline, List.append_assoc]
  have hlines : ∀ l ∈ line :: r.fields.map fieldLine, cleanLine l ∧ l ≠ [] := by
    intro l hl
    simp only [List.mem_cons, List.mem_map] at hl
    rcases hl with rfl | ⟨f, hf, rfl⟩
    · exact ⟨hclean, hlne⟩
    · obtain ⟨hcol, h13, h10, hne, _⟩ := token_no_colon (hfields f hf).1
      have hvv := (hplain f hf).1
      refine ⟨⟨?_, ?_⟩, ?_⟩
      · simp [fieldLine, colonSp, h13, hvv.1]
      · simp [fieldLine, colonSp, h10, hvv.2]
      · cases hn : f.1 with
        | nil => exact absurd hn hne
        | cons c cs => simp [fieldLine, hn]
  refine ⟨line, ?_, hreq, ?_⟩
  · rw [hwire]
    apply headLines_render _ _ _ hlines
    have := renderLines_length (line :: r.fields.map fieldLine)
    simp only [List.length_append] at this ⊢
    omega
  · have := fieldsAux_render r.fields [] hfields
    simp only [List.reverse_nil, List.nil_append] at this
    rw [Ref.fields, this]
    have hnul : (r.fields.all fun f => !f.2.contains 0) = true := by
      apply List.all_eq_true.mpr
      intro f hf
      have := valueOk_no_nul (hvc f hf).2
      simpa using this
    simp only [hnul, ↓reduceIte]

/-- **forward_request_roundtrip_partial** (requests without Transfer-Encoding, field values without obs-fold):
    for every request that `validate_headers` accepts — from the wire or after addon edits (edit_stable) — whose request
    line parts are whitespace-free, whose values contain no line break and no surrounding OWS, and every body of the
    length the headers announce, the strict reference reader reads the bytes written by `Http1Client.send` back as
    exactly this method, target, version, field list and body, and leaves exactly what follows. -/
theorem forward_request_roundtrip_partial (r : ReqHead) (body rest : Bytes)
    (hv : validateHeaders .request r.version [] r.fields = true) (hl : RequestLineOk r)
    (hte : getAll r.fields sTE = [])
    (hplain : ∀ f ∈ r.fields, cleanLine f.2 ∧ stripBy isOws f.2 = f.2)
    (hb : BodyConsistent r body) :
    ∃ fr, Ref.parseRequest (forwardRequest r body ++ rest) =
      .ok (⟨r.method, requestTarget r, r.version, r.fields, body, fr⟩, rest) := by
  have hnc : sendsChunked r.fields = false := by simp [sendsChunked, getJoined_none hte]
  have hwire : forwardRequest r body ++ rest = assembleRequestHead r ++ (body ++ rest) := by
    simp [forwardRequest, hnc, List.append_assoc]
  obtain ⟨line, hhead, hreq, hflds⟩ := head_parse r hv hl hplain (body ++ rest)
  obtain ⟨sz, fr, hsz, hfr, hag⟩ := framing_agrees .request r.version [] [] r.fields hv
  have hsz' : requestBodySize r = some sz := by simpa [proxySize, requestBodySize] using hsz
  unfold Ref.parseRequest
  rw [hwire, hhead]
  simp only [hreq, hflds, hfr]
  unfold BodyConsistent at hb
  rw [hsz'] at hb
  cases sz with
  | chunked =>
    exfalso
    simp [requestBodySize, sizeFromHeaders, getJoined_none hte] at hsz'
    cases hc : getJoined r.fields sCL with
    | none => simp [hc] at hsz'
    | some cl =>
      simp [hc] at hsz'
      split at hsz'
      · simp at hsz'
      · cases hp : parseCL cl <;> simp [hp] at hsz'
  | untilEof => exact absurd hb (by simp)
  | len n =>
    simp only at hb
    cases fr with
    | none =>
      simp only [Agree] at hag
      subst hag
      have : body = [] := by cases body <;> simp at hb ⊢
      subst this
      exact ⟨.none, by simp⟩
    | cl m =>
      simp only [Agree] at hag
      subst hag
      refine ⟨.cl n, ?_⟩
      have h1 : ¬ (body ++ rest).length < n := by simp; omega
      simp only [h1, ↓reduceIte]
      rw [List.take_append_of_le_length (by omega), List.drop_append_of_le_length (by omega)]
      simp [← hb]
    | chunked => simp [Agree] at hag
    | eof => simp [Agree] at hag

/-- **forward_request_roundtrip_chunked_partial** (requests with Transfer-Encoding, values without obs-fold): the body the
    proxy buffered — whatever its length, also after an addon replaced it — is re-framed as one chunk plus the last-chunk,
    and the strict reference reader reads head and body back exactly.
    Together with `forward_request_roundtrip_partial` this is `ForwardRequestRoundtrip` for all requests whose field values
    contain no obs-fold. -/
theorem forward_request_roundtrip_chunked_partial (r : ReqHead) (body rest : Bytes)
    (hv : validateHeaders .request r.version [] r.fields = true) (hl : RequestLineOk r)
    (hte : getAll r.fields sTE ≠ [])
    (hplain : ∀ f ∈ r.fields, cleanLine f.2 ∧ stripBy isOws f.2 = f.2) :
    Ref.parseRequest (forwardRequest r body ++ rest) =
      .ok (⟨r.method, requestTarget r, r.version, r.fields, body, .chunked⟩, rest) := by
  -- validate_headers leaves exactly one Transfer-Encoding value, classified "chunked final"
  obtain ⟨_, hc⟩ := validate_cases hv
  rcases hc with ⟨t, cls, w, hte1, hcl, hver, hpt, hk⟩ | ⟨c, n, hte0, _, _⟩ | ⟨hte0, _⟩
  · simp only at hk
    subst hk
    have hsc : sendsChunked r.fields = true := by
      simp [sendsChunked, getJoined_single hte1, sendsChunked_of_parseTE hpt]
    obtain ⟨sz, fr, hsz, hfr, hag⟩ := framing_agrees .request r.version [] [] r.fields hv
    have hsz' : sz = .chunked := by
      have htne : t ≠ [] := parseTE_nonempty hpt
      simp [proxySize, sizeFromHeaders, getJoined_single hte1, htne, hpt] at hsz
      exact hsz.symm
    subst hsz'
    have hfr' : Ref.framing r.fields r.version .request [] = .ok .chunked := by
      cases fr <;> simp [Agree] at hag
      exact hfr
    let payload := (if body.isEmpty then [] else chunk body) ++ lastChunk
    have hwire : forwardRequest r body ++ rest = assembleRequestHead r ++ (payload ++ rest) := by
      simp [forwardRequest, hsc, payload, List.append_assoc]
    obtain ⟨line, hhead, hreq, hflds⟩ := head_parse r hv hl hplain (payload ++ rest)
    unfold Ref.parseRequest
    rw [hwire, hhead]
    simp only [hreq, hflds, hfr']
    have hchunk : Ref.chunkedBody ((payload ++ rest).length + 1) (payload ++ rest) [] false = .ok (body, rest) := by
      by_cases hb : body = []
      · subst hb
        have hl5 : (payload ++ rest).length + 1 = (rest.length + 4) + 2 := by simp [payload, lastChunk]
        rw [hl5]
        simpa [payload] using chunkedBody_last (rest.length + 4) [] rest
      · have hbe : body.isEmpty = false := by cases body <;> simp at hb ⊢
        have hp : payload ++ rest = chunk body ++ lastChunk ++ rest := by simp [payload, hbe]
        rw [hp]
        have : (chunk body ++ lastChunk ++ rest).length + 1 = ((chunk body ++ lastChunk ++ rest).length - 2) + 3 := by
          simp [lastChunk]; omega
        rw [this]
        exact chunkedBody_chunk _ body rest hb
    rw [hchunk]
  · exact absurd hte0 hte
  · exact absurd hte0 hte

private theorem unfold_plain {v : Bytes} (h : cleanLine v ∧ stripBy isOws v = v) : Ref.unfold v = v := by
  have hs : splitOn 10 v = [v] := splitOn_no_sep h.1.2
  simp [Ref.unfold, hs, h.2]

/-- a validated request whose values contain no obs-fold (and no surrounding OWS, as `_read_headers` leaves them) -/
def NoFold (r : ReqHead) : Prop := ∀ f ∈ r.fields, cleanLine f.2 ∧ stripBy isOws f.2 = f.2

/-- **forward_request_roundtrip_nofold**: `ForwardRequestRoundtrip` (and with it `edit_stable`: the hypothesis is only that
    `validate_headers` holds for the fields that are sent) for every request without obs-fold in its field values -/
theorem forward_request_roundtrip_nofold (r : ReqHead) (body rest : Bytes)
    (hv : validateHeaders .request r.version [] r.fields = true) (hl : RequestLineOk r) (hnf : NoFold r)
    (hb : BodyConsistent r body) :
    ∃ fr, Ref.parseRequest (forwardRequest r body ++ rest) =
      .ok (⟨r.method, requestTarget r, r.version, r.fields.map (fun f => (f.1, Ref.unfold f.2)), body, fr⟩, rest) := by
  have hmap : r.fields.map (fun f => (f.1, Ref.unfold f.2)) = r.fields := by
    have : ∀ f ∈ r.fields, (fun f : Field => (f.1, Ref.unfold f.2)) f = f := by
      intro f hf; simp [unfold_plain (hnf f hf)]
    rw [List.map_congr_left this]; simp
  rw [hmap]
  by_cases hte : getAll r.fields sTE = []
  · exact forward_request_roundtrip_partial r body rest hv hl hte hnf hb
  · exact ⟨.chunked, forward_request_roundtrip_chunked_partial r body rest hv hl hte hnf⟩

/-- every forwarded request starts with a byte that is neither CR nor LF and is non-empty -/
private theorem forward_head {r : ReqHead} (hl : RequestLineOk r) (body : Bytes) :
    ∃ c tl, forwardRequest r body = c :: tl ∧ c ≠ 10 ∧ c ≠ 13 := by
  obtain ⟨hm, hmw, _⟩ := hl
  cases hmm : r.method with
  | nil => exact absurd hmm hm
  | cons c cs =>
    have hc := hmw c (by rw [hmm]; simp)
    refine ⟨c, cs ++ ([32] ++ requestTarget r ++ [32] ++ r.version ++ crlf ++ assembleFields r.fields ++ crlf ++
        (if sendsChunked r.fields then (if body.isEmpty then [] else chunk body) ++ lastChunk else body)), ?_, ?_, ?_⟩
    · simp [forwardRequest, assembleRequestHead, hmm, List.append_assoc]
    · intro e; subst e; revert hc; decide
    · intro e; subst e; revert hc; decide

/-- **forward_stream_roundtrip_nofold** (induction over pipelined messages): the concatenation of what the proxy writes for a
    list of validated, fold-free requests with consistent bodies is read by the reference reader as exactly that list — same
    number and order, same method, target and body — and nothing is left over -/
theorem forward_stream_roundtrip_nofold : ∀ (ms : List (ReqHead × Bytes)) (f : Nat),
    (∀ m ∈ ms, validateHeaders .request m.1.version [] m.1.fields = true ∧ RequestLineOk m.1 ∧ NoFold m.1 ∧
       BodyConsistent m.1 m.2) →
    ms.length < f →
    (Ref.parseRequests f (ms.map fun m => forwardRequest m.1 m.2).flatten).2 = none ∧
    (Ref.parseRequests f (ms.map fun m => forwardRequest m.1 m.2).flatten).1.map (fun m => (m.a, m.b, m.fields, m.body)) =
      ms.map (fun m => (m.1.method, requestTarget m.1, m.1.fields, m.2))
  | [], f, _, hf => by
    cases f with
    | zero => omega
    | succ f => simp [Ref.parseRequests]
  | (r, body) :: ms, f, h, hf => by
    cases f with
    | zero => omega
    | succ f =>
      obtain ⟨hv, hl, hnf, hb⟩ := h (r, body) (by simp)
      obtain ⟨ih1, ih2⟩ := forward_stream_roundtrip_nofold ms f (fun m hm => h m (by simp [hm])) (by simp at hf; omega)
      obtain ⟨c, tl, hct, h10, h13⟩ := forward_head hl body
      obtain ⟨fr, hp⟩ := forward_request_roundtrip_nofold r body (ms.map fun m => forwardRequest m.1 m.2).flatten hv hl hnf hb
      have hmap : r.fields.map (fun f => (f.1, Ref.unfold f.2)) = r.fields := by
        have : ∀ f ∈ r.fields, (fun f : Field => (f.1, Ref.unfold f.2)) f = f := by
          intro f hf; simp [unfold_plain (hnf f hf)]
        rw [List.map_congr_left this]; simp
      rw [hmap] at hp
      simp only [List.map_cons, List.flatten_cons]
      have hdata : forwardRequest r body ++ (ms.map fun m => forwardRequest m.1 m.2).flatten =
          c :: (tl ++ (ms.map fun m => forwardRequest m.1 m.2).flatten) := by rw [hct]; rfl
      rw [Ref.parseRequests.eq_def]
      simp only
      rw [hdata]
      simp only [h10, h13, false_and, ↓reduceIte]
      rw [← hdata, hp]
      simp only
      exact ⟨ih1, by simp [ih2]⟩

/-! ### responses relayed to the client -/

/-- generic head reading: a clean first line, validated fold-free fields -/
private theorem head_lines_fields {kind : Kind} {version reason : Bytes} (first : Bytes) (fs : List Field)
    (hv : validateHeaders kind version reason fs = true) (hfirst : cleanLine first ∧ first ≠ [])
    (hnames : ∀ f ∈ fs, (10 : UInt8) ∉ f.1) (hplain : ∀ f ∈ fs, cleanLine f.2 ∧ stripBy isOws f.2 = f.2) (tail : Bytes) :
    Ref.headLines ((first ++ crlf ++ assembleFields fs ++ crlf ++ tail).length + 1) (first ++ crlf ++ assembleFields fs ++ crlf ++ tail) =
        .ok (first :: fs.map fieldLine, tail) ∧
    Ref.fields (fs.map fieldLine) = .ok fs := by
  have hvc := (validate_cases hv).1
  have hfields : ∀ f ∈ fs, isToken f.1 = true ∧ stripBy isOws f.2 = f.2 := by
    intro f hf
    refine ⟨?_, (hplain f hf).2⟩
    have h1 := (hvc f hf).1
    have h2 : dropFinalLF f.1 = f.1 := by
      apply dropFinalLF_id
      intro e
      exact hnames f hf (List.mem_of_getLast? e)
    simpa [nameOk, h2] using h1
  have hwire : first ++ crlf ++ assembleFields fs ++ crlf ++ tail = renderLines (first :: fs.map fieldLine) ++ crlf ++ tail := by
    simp only [assembleFields_eq, renderLines, List.append_assoc]
  have hlines : ∀ l ∈ first :: fs.map fieldLine, cleanLine l ∧ l ≠ [] := by
    intro l hl
    simp only [List.mem_cons, List.mem_map] at hl
    rcases hl with rfl | ⟨f, hf, rfl⟩
    · exact hfirst
    · obtain ⟨hcol, h13, h10, hne, _⟩ := token_no_colon (hfields f hf).1
      have hvv := (hplain f hf).1
      refine ⟨⟨?_, ?_⟩, ?_⟩
      · simp [fieldLine, colonSp, h13, hvv.1]
      · simp [fieldLine, colonSp, h10, hvv.2]
      · cases hn : f.1 with
        | nil => exact absurd hn hne
        | cons c cs => simp [fieldLine, hn]
  constructor
  · rw [hwire]
    apply headLines_render _ _ _ hlines
    have := renderLines_length (first :: fs.map fieldLine)
    simp only [List.length_append] at this ⊢
    omega
  · have := fieldsAux_render fs [] hfields
    simp only [List.reverse_nil, List.nil_append] at this
    rw [Ref.fields, this]
    have hnul : (fs.all fun f => !f.2.contains 0) = true := by
      apply List.all_eq_true.mpr
      intro f hf
      have := valueOk_no_nul (hvc f hf).2
      simpa using this
    simp only [hnul, ↓reduceIte]

private theorem statusLine_assembled {v reason : Bytes} {st : Nat} (hv : versionOk v = true)
    (hst : 100 ≤ st ∧ st ≤ 999) (hr : cleanLine reason) :
    let line := v ++ [32] ++ decDigits st ++ [32] ++ reason
    Ref.statusLine line = some (v, st, reason) ∧ (line.drop 9).take 3 = decDigits st ∧ cleanLine line ∧ line ≠ [] := by
  obtain ⟨a, b, c, hd, ha, hb, hc, hn⟩ := decDigits_spec st hst
  obtain ⟨_, v13, v10⟩ := version_facts hv
  have hshape : ∃ x y, v = [72, 84, 84, 80, 47, x, 46, y] := by
    unfold versionOk at hv
    split at hv
    · exact ⟨_, _, rfl⟩
    · simp at hv
  obtain ⟨x, y, rfl⟩ := hshape
  have dig : ∀ d : UInt8, isDigit d = true → d ≠ 13 ∧ d ≠ 10 := by
    intro d hd'
    constructor <;> (intro e; subst e; revert hd'; decide)
  simp only [hd]
  refine ⟨?_, by simp, ⟨?_, ?_⟩, by simp⟩
  · simp [Ref.statusLine, hv, ha, hb, hc, hn]
  · have := hr.1
    simp only [List.mem_append, List.mem_cons, List.not_mem_nil, or_false, not_or] at v13 ⊢
    exact ⟨⟨⟨⟨v13, by decide⟩, fun e => (dig a ha).1 e.symm, fun e => (dig b hb).1 e.symm, fun e => (dig c hc).1 e.symm⟩, by decide⟩, this⟩
  · have := hr.2
    simp only [List.mem_append, List.mem_cons, List.not_mem_nil, or_false, not_or] at v10 ⊢
    exact ⟨⟨⟨⟨v10, by decide⟩, fun e => (dig a ha).2 e.symm, fun e => (dig b hb).2 e.symm, fun e => (dig c hc).2 e.symm⟩, by decide⟩, this⟩

/-- a body is consistent with a response in the context of its request method -/
def RespBodyConsistent (reqMethod : Bytes) (r : RespHead) (body rest : Bytes) (eof : Bool) : Prop :=
  match responseBodySize reqMethod r with
  | some (.len n) => body.length = n
  | some .chunked => True
  | some .untilEof => eof = true ∧ rest = []        -- delimited by the end of the stream: nothing follows
  | none => False

/-- what `_read_response_line` / `_read_headers` guarantee: `HTTP/d.d`, status 100..999, reason and values without line
    breaks, names without LF, values without surrounding OWS -/
def RespHeadOk (r : RespHead) : Prop :=
  versionOk r.version = true ∧ (100 ≤ r.status ∧ r.status ≤ 999) ∧ cleanLine r.reason ∧
  (∀ f ∈ r.fields, (10 : UInt8) ∉ f.1) ∧ (∀ f ∈ r.fields, cleanLine f.2 ∧ stripBy isOws f.2 = f.2)

/-- **relay_response_roundtrip**: for every response `validate_headers` accepts — from the wire or after addon edits — in the
    context of the method of the request it answers, and every body consistent with it (incl. the HEAD / 1xx / 204 / 304
    shortcuts, Content-Length, the one-chunk + last-chunk re-framing, and read-until-close), the strict reference reader reads
    the bytes written by `Http1Server.send` back as exactly this version, status, reason, field list and body, and leaves
    exactly what follows.  (A 2xx answer to CONNECT is produced by the proxy itself and opens a tunnel: excluded.) -/
theorem relay_response_roundtrip (reqMethod : Bytes) (r : RespHead) (body rest : Bytes) (eof : Bool)
    (hv : validateHeaders (.response r.status) r.version r.reason r.fields = true) (hok : RespHeadOk r)
    (hconn : ¬(asciiUpper reqMethod = sCONNECT ∧ 200 ≤ r.status ∧ r.status ≤ 299))
    (hb : RespBodyConsistent reqMethod r body rest eof) :
    ∃ fr, Ref.parseResponse reqMethod eof (relayResponse reqMethod r body ++ rest) =
      .ok (⟨r.version, decDigits r.status, r.reason, r.fields, body, fr⟩, rest) := by
  obtain ⟨hver, hst, hreason, hnames, hplain⟩ := hok
  obtain ⟨line, hline⟩ : ∃ l, l = r.version ++ [32] ++ decDigits r.status ++ [32] ++ r.reason := ⟨_, rfl⟩
  obtain ⟨hsl, hdig, hclean, hlne⟩ := statusLine_assembled hver hst hreason
  rw [← hline] at hsl hdig hclean hlne
  -- payload written after the head
  obtain ⟨payload, hpay⟩ : ∃ p, relayResponse reqMethod r body = assembleResponseHead r ++ p := ⟨_, rfl⟩
  have hhead_eq : assembleResponseHead r = line ++ crlf ++ assembleFields r.fields ++ crlf := by
    simp [assembleResponseHead, hline, List.append_assoc]
  obtain ⟨hhead, hflds⟩ := head_lines_fields line r.fields hv ⟨hclean, hlne⟩ hnames hplain (payload ++ rest)
  have hwire : relayResponse reqMethod r body ++ rest = line ++ crlf ++ assembleFields r.fields ++ crlf ++ (payload ++ rest) := by
    rw [hpay, hhead_eq]; simp [List.append_assoc]
  obtain ⟨sz, fr, hsz, hfr, hag⟩ := framing_agrees (.response r.status) r.version r.reason reqMethod r.fields hv
  have hsz' : responseBodySize reqMethod r = some sz := by
    have : (⟨[], r.status, [], r.fields⟩ : RespHead) = ⟨[], r.status, [], r.fields⟩ := rfl
    simpa [proxySize, responseBodySize] using hsz
  unfold Ref.parseResponse
  rw [hwire, hhead]
  simp only [hsl, hflds, hfr, hdig]
  unfold RespBodyConsistent at hb
  rw [hsz'] at hb
  -- what the payload is
  have hpay' : payload =
      (if sendsChunked r.fields then
         (if (!body.isEmpty && !(asciiUpper reqMethod = sHEAD || r.status = 204 || r.status = 304)) then chunk body else []) ++
         (if asciiUpper reqMethod ≠ sHEAD ∧ !noBodyStatus r.status then lastChunk else [])
       else (if (!body.isEmpty && !(asciiUpper reqMethod = sHEAD || r.status = 204 || r.status = 304)) then body else [])) := by
    have := hpay
    simp only [relayResponse] at this
    exact (List.append_cancel_left this).symm
  by_cases hnb : Ref.noBody (.response r.status) reqMethod = true
  · -- HEAD / 1xx / 204 / 304: nothing follows the head
    have hp0 := proxy_nobody r.fields hnb
    rw [hsz] at hp0
    simp at hp0; subst hp0
    simp only at hb
    have hbody : body = [] := by cases body <;> simp at hb ⊢
    subst hbody
    have hfr0 : fr = .none := by
      have := hfr
      unfold Ref.framing at this
      -- with noBody the reference reader answers `none` once the checks passed: read it off `Agree`
      cases fr <;> simp [Agree] at hag ⊢
      · rename_i m
        -- `.cl m` is impossible when noBody holds
        exfalso
        revert this
        simp only [hnb]
        intro this
        split at this
        · simp at this
        · split at this
          · simp at this
          · split at this
            · simp at this
            · simp at this
    subst hfr0
    have hnl : (asciiUpper reqMethod ≠ sHEAD ∧ (!noBodyStatus r.status) = true) → False := by
      intro hh
      simp only [Ref.noBody, Bool.or_eq_true, Bool.and_eq_true, decide_eq_true_eq] at hnb
      rcases hnb with (h | h) | h
      · exact hh.1 h
      · simp [h] at hh
      · exact hconn ⟨h.1.1, h.1.2, h.2⟩
    have : payload = [] := by
      rw [hpay']
      by_cases hsc : sendsChunked r.fields = true
      · simp [hsc]
        intro h1 h2
        exact (hnl ⟨h1, by simpa using h2⟩).elim
      · simp [hsc]
    subst this
    exact ⟨.none, by simp⟩
  · have hnb' : Ref.noBody (.response r.status) reqMethod = false := by simpa using hnb
    -- data is written whenever the body is non-empty
    have hnh : asciiUpper reqMethod ≠ sHEAD ∧ noBodyStatus r.status = false := by
      simp only [Ref.noBody, Bool.or_eq_false_iff, Bool.and_eq_false_iff, decide_eq_false_iff_not] at hnb'
      exact ⟨hnb'.1.1, hnb'.1.2⟩
    have hnot : (asciiUpper reqMethod = sHEAD || r.status = 204 || r.status = 304) = false := by
      have h2 := hnh.2
      simp only [noBodyStatus, Bool.or_eq_false_iff, decide_eq_false_iff_not] at h2
      simp [hnh.1, h2.1.2, h2.2]
    have h204 : r.status ≠ 204 ∧ r.status ≠ 304 := by
      have h2 := hnh.2
      simp only [noBodyStatus, Bool.or_eq_false_iff, decide_eq_false_iff_not] at h2
      exact ⟨h2.1.2, h2.2⟩
    obtain ⟨_, hcases⟩ := validate_cases hv
    cases sz with
    | len n =>
      simp only at hb
      -- no Transfer-Encoding
      have hte : getAll r.fields sTE = [] := by
        rcases hcases with ⟨t, cls, w, hte1, _, _, hpt, _⟩ | ⟨c, m, hte0, _, _⟩ | ⟨hte0, _⟩
        · exfalso
          have htne := parseTE_nonempty hpt
          rw [proxy_body r.fields hnb'] at hsz
          cases cls <;> simp [sizeFromHeaders, getJoined_single hte1, htne, hpt] at hsz
        · exact hte0
        · exact hte0
      have hnc : sendsChunked r.fields = false := by simp [sendsChunked, getJoined_none hte]
      have hp : payload = body := by
        rw [hpay']; simp [hnc, hnh.1, h204.1, h204.2] <;> (intro hbe; cases body <;> simp_all)
      subst hp
      cases fr with
      | none =>
        simp only [Agree] at hag; subst hag
        have : payload = [] := by cases payload <;> simp at hb ⊢
        subst this
        exact ⟨.none, by simp⟩
      | cl m =>
        simp only [Agree] at hag; subst hag
        refine ⟨.cl n, ?_⟩
        have h1 : ¬ (payload ++ rest).length < n := by simp; omega
        simp only [h1, ↓reduceIte]
        rw [List.take_append_of_le_length (by omega), List.drop_append_of_le_length (by omega)]
        simp [← hb]
      | chunked => simp [Agree] at hag
      | eof => simp [Agree] at hag
    | chunked =>
      have hfrc : fr = .chunked := by cases fr <;> simp [Agree] at hag ⊢
      subst hfrc
      have hsc : sendsChunked r.fields = true := by
        rcases hcases with ⟨t, cls, w, hte1, _, _, hpt, _⟩ | ⟨c, m, hte0, hcl1, hpc⟩ | ⟨hte0, hcl0⟩
        · have htne := parseTE_nonempty hpt
          rw [proxy_body r.fields hnb'] at hsz
          cases cls with
          | chunkedFinal => simp [sendsChunked, getJoined_single hte1, sendsChunked_of_parseTE hpt]
          | other => simp [sizeFromHeaders, getJoined_single hte1, htne, hpt] at hsz
        · exfalso
          rw [proxy_body r.fields hnb'] at hsz
          have hcne : c ≠ [] := by intro e; subst e; simp [parseCL, dropFinalLF, clDigits] at hpc
          simp [sizeFromHeaders, getJoined_none hte0, getJoined_single hcl1, hcne, hpc] at hsz
        · exfalso
          rw [proxy_body r.fields hnb'] at hsz
          simp [sizeFromHeaders, getJoined_none hte0, getJoined_none hcl0] at hsz
      have hlast : (asciiUpper reqMethod ≠ sHEAD ∧ (!noBodyStatus r.status) = true) := ⟨hnh.1, by simp [hnh.2]⟩
      refine ⟨.chunked, ?_⟩
      have hchunk : Ref.chunkedBody ((payload ++ rest).length + 1) (payload ++ rest) [] false = .ok (body, rest) := by
        by_cases hbe : body = []
        · subst hbe
          have hp : payload = lastChunk := by rw [hpay']; simp [hsc, hlast]
          subst hp
          have hl5 : (lastChunk ++ rest).length + 1 = (rest.length + 4) + 2 := by simp [lastChunk]
          rw [hl5]
          exact chunkedBody_last (rest.length + 4) [] rest
        · have hbne : body.isEmpty = false := by cases body <;> simp at hbe ⊢
          have hp : payload = chunk body ++ lastChunk := by rw [hpay']; simp [hsc, hlast, hbne, hnh.1, h204.1, h204.2]
          subst hp
          have : (chunk body ++ lastChunk ++ rest).length + 1 = ((chunk body ++ lastChunk ++ rest).length - 2) + 3 := by
            simp [lastChunk]; omega
          rw [this]
          exact chunkedBody_chunk _ body rest hbe
      rw [hchunk]
    | untilEof =>
      obtain ⟨heof, hrest⟩ := hb
      subst heof; subst hrest
      have hfre : fr = .eof := by cases fr <;> simp [Agree] at hag ⊢
      subst hfre
      have hnc : sendsChunked r.fields = false := by
        rcases hcases with ⟨t, cls, w, hte1, _, _, hpt, _⟩ | ⟨c, m, hte0, _, _⟩ | ⟨hte0, _⟩
        · have htne := parseTE_nonempty hpt
          rw [proxy_body r.fields hnb'] at hsz
          cases cls with
          | chunkedFinal => simp [sizeFromHeaders, getJoined_single hte1, htne, hpt] at hsz
          | other => simp [sendsChunked, getJoined_single hte1, not_sendsChunked_of_parseTE_other hpt]
        · simp [sendsChunked, getJoined_none hte0]
        · simp [sendsChunked, getJoined_none hte0]
      have hp : payload = body := by
        rw [hpay']; simp [hnc, hnh.1, h204.1, h204.2] <;> (intro hbe; cases body <;> simp_all)
      subst hp
      exact ⟨.eof, by simp⟩

/-! ### obs-fold: the same round trips for field values given by their CRLF-separated parts -/

/-- generic head reading for folded fields: a clean first line, validated fields whose values are `PField`s -/
private theorem head_lines_fields_fold {kind : Kind} {version reason : Bytes} (first : Bytes) (pfs : List PField)
    (hv : validateHeaders kind version reason (pfs.map PField.field) = true) (hfirst : cleanLine first ∧ first ≠ [])
    (hnames : ∀ pf ∈ pfs, (10 : UInt8) ∉ pf.name) (hok : ∀ pf ∈ pfs, pf.ok) (tail : Bytes) :
    Ref.headLines ((first ++ crlf ++ assembleFields (pfs.map PField.field) ++ crlf ++ tail).length + 1)
        (first ++ crlf ++ assembleFields (pfs.map PField.field) ++ crlf ++ tail) =
        .ok (first :: pfs.flatMap PField.lines, tail) ∧
    Ref.fields (pfs.flatMap PField.lines) = .ok (pfs.map PField.ufield) := by
  have hvc := (validate_cases hv).1
  have htok : ∀ pf ∈ pfs, isToken pf.name = true ∧ pf.ok := by
    intro pf hpf
    refine ⟨?_, hok pf hpf⟩
    have h1 := (hvc pf.field (List.mem_map_of_mem hpf)).1
    have h2 : dropFinalLF pf.name = pf.name := by
      apply dropFinalLF_id
      intro e
      exact hnames pf hpf (List.mem_of_getLast? e)
    simpa [nameOk, PField.field, h2] using h1
  have hwire : first ++ crlf ++ assembleFields (pfs.map PField.field) ++ crlf ++ tail =
      renderLines (first :: pfs.flatMap PField.lines) ++ crlf ++ tail := by
    simp only [assembleFields_fold, renderLines, List.append_assoc]
  have hlines : ∀ l ∈ first :: pfs.flatMap PField.lines, cleanLine l ∧ l ≠ [] := by
    intro l hl
    simp only [List.mem_cons, List.mem_flatMap] at hl
    rcases hl with rfl | ⟨pf, hpf, hl⟩
    · exact hfirst
    · exact lines_clean pf (htok pf hpf).1 (hok pf hpf) l hl
  constructor
  · rw [hwire]
    apply headLines_render _ _ _ hlines
    have := renderLines_length (first :: pfs.flatMap PField.lines)
    simp only [List.length_append] at this ⊢
    omega
  · have := fieldsAux_fold pfs [] htok
    simp only [List.reverse_nil, List.nil_append] at this
    rw [Ref.fields, this]
    have hnul : ((pfs.map PField.ufield).all fun f => !f.2.contains 0) = true := by
      apply List.all_eq_true.mpr
      intro f hf
      obtain ⟨pf, hpf, rfl⟩ := List.mem_map.mp hf
      have := ufield_no_nul pf (hok pf hpf)
      simpa using this
    simp only [hnul, ↓reduceIte]

private theorem head_parse_fold (r : ReqHead) (hv : validateHeaders .request r.version [] r.fields = true)
    (hl : RequestLineOk r) (pfs : List PField) (hpf : r.fields = pfs.map PField.field) (hok : ∀ pf ∈ pfs, pf.ok) (tail : Bytes) :
    ∃ line, Ref.headLines ((assembleRequestHead r ++ tail).length + 1) (assembleRequestHead r ++ tail) =
        .ok (line :: pfs.flatMap PField.lines, tail) ∧
      Ref.requestLine line = some (r.method, requestTarget r, r.version) ∧
      Ref.fields (pfs.flatMap PField.lines) = .ok (pfs.map PField.ufield) := by
  obtain ⟨hm, hmw, ht, htw, hver, hnames⟩ := hl
  obtain ⟨hreq, hclean, hlne⟩ := requestLine_assembled hm hmw ht htw hver
  have hnames' : ∀ pf ∈ pfs, (10 : UInt8) ∉ pf.name := by
    intro pf h
    have := hnames pf.field (by rw [hpf]; exact List.mem_map_of_mem h)
    simpa [PField.field] using this
  rw [hpf] at hv
  obtain ⟨h1, h2⟩ := head_lines_fields_fold (r.method ++ [32] ++ requestTarget r ++ [32] ++ r.version) pfs hv ⟨hclean, hlne⟩ hnames' hok tail
  refine ⟨_, ?_, hreq, h2⟩
  have : assembleRequestHead r ++ tail =
      r.method ++ [32] ++ requestTarget r ++ [32] ++ r.version ++ crlf ++ assembleFields (pfs.map PField.field) ++ crlf ++ tail := by
    simp [assembleRequestHead, hpf, List.append_assoc]
  rw [this]; exact h1

private theorem frr_fold_nte (r : ReqHead) (body rest : Bytes)
    (hv : validateHeaders .request r.version [] r.fields = true) (hl : RequestLineOk r)
    (hte : getAll r.fields sTE = [])
    (pfs : List PField) (hpf : r.fields = pfs.map PField.field) (hok : ∀ pf ∈ pfs, pf.ok) (hfp : FramingFieldsPlain pfs)
    (hb : BodyConsistent r body) :
    ∃ fr, Ref.parseRequest (forwardRequest r body ++ rest) =
      .ok (⟨r.method, requestTarget r, r.version, pfs.map PField.ufield, body, fr⟩, rest) := by
  have hnc : sendsChunked r.fields = false := by simp [sendsChunked, getJoined_none hte]
  have hwire : forwardRequest r body ++ rest = assembleRequestHead r ++ (body ++ rest) := by
    simp [forwardRequest, hnc, List.append_assoc]
  obtain ⟨line, hhead, hreq, hflds⟩ := head_parse_fold r hv hl pfs hpf hok (body ++ rest)
  obtain ⟨sz, fr, hsz, hfr, hag⟩ := framing_agrees .request r.version [] [] r.fields hv
  have hsz' : requestBodySize r = some sz := by simpa [proxySize, requestBodySize] using hsz
  unfold Ref.parseRequest
  rw [hwire, hhead]
  have hfrF : Ref.framing (pfs.map PField.ufield) r.version .request [] = .ok fr := by
    rw [framing_fold pfs hok hfp, ← hpf]; exact hfr
  simp only [hreq, hflds, hfrF]
  unfold BodyConsistent at hb
  rw [hsz'] at hb
  cases sz with
  | chunked =>
    exfalso
    simp [requestBodySize, sizeFromHeaders, getJoined_none hte] at hsz'
    cases hc : getJoined r.fields sCL with
    | none => simp [hc] at hsz'
    | some cl =>
      simp [hc] at hsz'
      split at hsz'
      · simp at hsz'
      · cases hp : parseCL cl <;> simp [hp] at hsz'
  | untilEof => exact absurd hb (by simp)
  | len n =>
    simp only at hb
    cases fr with
    | none =>
      simp only [Agree] at hag
      subst hag
      have : body = [] := by cases body <;> simp at hb ⊢
      subst this
      exact ⟨.none, by simp⟩
    | cl m =>
      simp only [Agree] at hag
      subst hag
      refine ⟨.cl n, ?_⟩
      have h1 : ¬ (body ++ rest).length < n := by simp; omega
      simp only [h1, ↓reduceIte]
      rw [List.take_append_of_le_length (by omega), List.drop_append_of_le_length (by omega)]
      simp [← hb]
    | chunked => simp [Agree] at hag
    | eof => simp [Agree] at hag


private theorem frr_fold_te (r : ReqHead) (body rest : Bytes)
    (hv : validateHeaders .request r.version [] r.fields = true) (hl : RequestLineOk r)
    (hte : getAll r.fields sTE ≠ [])
    (pfs : List PField) (hpf : r.fields = pfs.map PField.field) (hok : ∀ pf ∈ pfs, pf.ok) (hfp : FramingFieldsPlain pfs) :
    Ref.parseRequest (forwardRequest r body ++ rest) =
      .ok (⟨r.method, requestTarget r, r.version, pfs.map PField.ufield, body, .chunked⟩, rest) := by
  -- validate_headers leaves exactly one Transfer-Encoding value, classified "chunked final"
  obtain ⟨_, hc⟩ := validate_cases hv
  rcases hc with ⟨t, cls, w, hte1, hcl, hver, hpt, hk⟩ | ⟨c, n, hte0, _, _⟩ | ⟨hte0, _⟩
  · simp only at hk
    subst hk
    have hsc : sendsChunked r.fields = true := by
      simp [sendsChunked, getJoined_single hte1, sendsChunked_of_parseTE hpt]
    obtain ⟨sz, fr, hsz, hfr, hag⟩ := framing_agrees .request r.version [] [] r.fields hv
    have hsz' : sz = .chunked := by
      have htne : t ≠ [] := parseTE_nonempty hpt
      simp [proxySize, sizeFromHeaders, getJoined_single hte1, htne, hpt] at hsz
      exact hsz.symm
    subst hsz'
    have hfr' : Ref.framing r.fields r.version .request [] = .ok .chunked := by
      cases fr <;> simp [Agree] at hag
      exact hfr
    let payload := (if body.isEmpty then [] else chunk body) ++ lastChunk
    have hwire : forwardRequest r body ++ rest = assembleRequestHead r ++ (payload ++ rest) := by
      simp [forwardRequest, hsc, payload, List.append_assoc]
    obtain ⟨line, hhead, hreq, hflds⟩ := head_parse_fold r hv hl pfs hpf hok (payload ++ rest)
    unfold Ref.parseRequest
    rw [hwire, hhead]
    have hfrF : Ref.framing (pfs.map PField.ufield) r.version .request [] = .ok .chunked := by
      rw [framing_fold pfs hok hfp, ← hpf]; exact hfr'
    simp only [hreq, hflds, hfrF]
    have hchunk : Ref.chunkedBody ((payload ++ rest).length + 1) (payload ++ rest) [] false = .ok (body, rest) := by
      by_cases hb : body = []
      · subst hb
        have hl5 : (payload ++ rest).length + 1 = (rest.length + 4) + 2 := by simp [payload, lastChunk]
        rw [hl5]
        simpa [payload] using chunkedBody_last (rest.length + 4) [] rest
      · have hbe : body.isEmpty = false := by cases body <;> simp at hb ⊢
        have hp : payload ++ rest = chunk body ++ lastChunk ++ rest := by simp [payload, hbe]
        rw [hp]
        have : (chunk body ++ lastChunk ++ rest).length + 1 = ((chunk body ++ lastChunk ++ rest).length - 2) + 3 := by
          simp [lastChunk]; omega
        rw [this]
        exact chunkedBody_chunk _ body rest hb
    rw [hchunk]
  · exact absurd hte0 hte
  · exact absurd hte0 hte


/-- **forward_request_roundtrip_fold**: `ForwardRequestRoundtrip` for field values WITH obs-fold: the recorded fields are
    `(name, q0 CRLF q1 CRLF … qk)` with every continuation `qi` starting with SP/HTAB (the shape `_read_headers` builds), and the
    reference reader reads them back as `(name, Ref.unfold value)`; method, target, version and body exactly; Content-Length,
    no body and the chunked re-framing.  Hypothesis `FramingFieldsPlain`: Transfer-Encoding / Content-Length themselves are not
    folded (validate_headers rejects a folded one; that implication is not derived here). -/
theorem forward_request_roundtrip_fold (r : ReqHead) (body rest : Bytes)
    (hv : validateHeaders .request r.version [] r.fields = true) (hl : RequestLineOk r)
    (pfs : List PField) (hpf : r.fields = pfs.map PField.field) (hok : ∀ pf ∈ pfs, pf.ok) (hfp : FramingFieldsPlain pfs)
    (hb : BodyConsistent r body) :
    ∃ fr, Ref.parseRequest (forwardRequest r body ++ rest) =
      .ok (⟨r.method, requestTarget r, r.version, pfs.map PField.ufield, body, fr⟩, rest) := by
  by_cases hte : getAll r.fields sTE = []
  · exact frr_fold_nte r body rest hv hl hte pfs hpf hok hfp hb
  · exact ⟨.chunked, frr_fold_te r body rest hv hl hte pfs hpf hok hfp⟩

/-- **relay_response_roundtrip_fold**: `relay_response_roundtrip` for field values with obs-fold (fields read back as
    `Ref.unfold` of the recorded ones), same hypotheses otherwise -/
theorem relay_response_roundtrip_fold (reqMethod : Bytes) (r : RespHead) (body rest : Bytes) (eof : Bool)
    (hv : validateHeaders (.response r.status) r.version r.reason r.fields = true)
    (hhd : versionOk r.version = true ∧ (100 ≤ r.status ∧ r.status ≤ 999) ∧ cleanLine r.reason)
    (pfs : List PField) (hpf : r.fields = pfs.map PField.field) (hnm : ∀ pf ∈ pfs, (10 : UInt8) ∉ pf.name) (hokf : ∀ pf ∈ pfs, pf.ok)
    (hfp : FramingFieldsPlain pfs)
    (hconn : ¬(asciiUpper reqMethod = sCONNECT ∧ 200 ≤ r.status ∧ r.status ≤ 299))
    (hb : RespBodyConsistent reqMethod r body rest eof) :
    ∃ fr, Ref.parseResponse reqMethod eof (relayResponse reqMethod r body ++ rest) =
      .ok (⟨r.version, decDigits r.status, r.reason, pfs.map PField.ufield, body, fr⟩, rest) := by
  obtain ⟨hver, hst, hreason⟩ := hhd
  have hvF : validateHeaders (.response r.status) r.version r.reason (pfs.map PField.field) = true := by rw [← hpf]; exact hv
  obtain ⟨line, hline⟩ : ∃ l, l = r.version ++ [32] ++ decDigits r.status ++ [32] ++ r.reason := ⟨_, rfl⟩
  obtain ⟨hsl, hdig, hclean, hlne⟩ := statusLine_assembled hver hst hreason
  rw [← hline] at hsl hdig hclean hlne
  -- payload written after the head
  obtain ⟨payload, hpay⟩ : ∃ p, relayResponse reqMethod r body = assembleResponseHead r ++ p := ⟨_, rfl⟩
  have hhead_eq : assembleResponseHead r = line ++ crlf ++ assembleFields r.fields ++ crlf := by
    simp [assembleResponseHead, hline, List.append_assoc]
  obtain ⟨hhead, hflds⟩ := head_lines_fields_fold line pfs hvF ⟨hclean, hlne⟩ hnm hokf (payload ++ rest)
  rw [← hpf] at hhead
  have hwire : relayResponse reqMethod r body ++ rest = line ++ crlf ++ assembleFields r.fields ++ crlf ++ (payload ++ rest) := by
    rw [hpay, hhead_eq]; simp [List.append_assoc]
  obtain ⟨sz, fr, hsz, hfr, hag⟩ := framing_agrees (.response r.status) r.version r.reason reqMethod r.fields hv
  have hsz' : responseBodySize reqMethod r = some sz := by
    have : (⟨[], r.status, [], r.fields⟩ : RespHead) = ⟨[], r.status, [], r.fields⟩ := rfl
    simpa [proxySize, responseBodySize] using hsz
  unfold Ref.parseResponse
  rw [hwire, hhead]
  have hfrF : Ref.framing (pfs.map PField.ufield) r.version (.response r.status) reqMethod = .ok fr := by
    rw [framing_fold pfs hokf hfp, ← hpf]; exact hfr
  simp only [hsl, hflds, hfrF, hdig]
  unfold RespBodyConsistent at hb
  rw [hsz'] at hb
  -- what the payload is
  have hpay' : payload =
      (if sendsChunked r.fields then
         (if (!body.isEmpty && !(asciiUpper reqMethod = sHEAD || r.status = 204 || r.status = 304)) then chunk body else []) ++
         (if asciiUpper reqMethod ≠ sHEAD ∧ !noBodyStatus r.status then lastChunk else [])
       else (if (!body.isEmpty && !(asciiUpper reqMethod = sHEAD || r.status = 204 || r.status = 304)) then body else [])) := by
    have := hpay
    simp only [relayResponse] at this
    exact (List.append_cancel_left this).symm
  by_cases hnb : Ref.noBody (.response r.status) reqMethod = true
  · -- HEAD / 1xx / 204 / 304: nothing follows the head
    have hp0 := proxy_nobody r.fields hnb
    rw [hsz] at hp0
    simp at hp0; subst hp0
    simp only at hb
    have hbody : body = [] := by cases body <;> simp at hb ⊢
    subst hbody
    have hfr0 : fr = .none := by
      have := hfr
      unfold Ref.framing at this
      -- with noBody the reference reader answers `none` once the checks passed: read it off `Agree`
      cases fr <;> simp [Agree] at hag ⊢
      · rename_i m
        -- `.cl m` is impossible when noBody holds
        exfalso
        revert this
        simp only [hnb]
        intro this
        split at this
        · simp at this
        · split at this
          · simp at this
          · split at this
            · simp at this
            · simp at this
    subst hfr0
    have hnl : (asciiUpper reqMethod ≠ sHEAD ∧ (!noBodyStatus r.status) = true) → False := by
      intro hh
      simp only [Ref.noBody, Bool.or_eq_true, Bool.and_eq_true, decide_eq_true_eq] at hnb
      rcases hnb with (h | h) | h
      · exact hh.1 h
      · simp [h] at hh
      · exact hconn ⟨h.1.1, h.1.2, h.2⟩
    have : payload = [] := by
      rw [hpay']
      by_cases hsc : sendsChunked r.fields = true
      · simp [hsc]
        intro h1 h2
        exact (hnl ⟨h1, by simpa using h2⟩).elim
      · simp [hsc]
    subst this
    exact ⟨.none, by simp⟩
  · have hnb' : Ref.noBody (.response r.status) reqMethod = false := by simpa using hnb
    -- data is written whenever the body is non-empty
    have hnh : asciiUpper reqMethod ≠ sHEAD ∧ noBodyStatus r.status = false := by
      simp only [Ref.noBody, Bool.or_eq_false_iff, Bool.and_eq_false_iff, decide_eq_false_iff_not] at hnb'
      exact ⟨hnb'.1.1, hnb'.1.2⟩
    have hnot : (asciiUpper reqMethod = sHEAD || r.status = 204 || r.status = 304) = false := by
      have h2 := hnh.2
      simp only [noBodyStatus, Bool.or_eq_false_iff, decide_eq_false_iff_not] at h2
      simp [hnh.1, h2.1.2, h2.2]
    have h204 : r.status ≠ 204 ∧ r.status ≠ 304 := by
      have h2 := hnh.2
      simp only [noBodyStatus, Bool.or_eq_false_iff, decide_eq_false_iff_not] at h2
      exact ⟨h2.1.2, h2.2⟩
    obtain ⟨_, hcases⟩ := validate_cases hv
    cases sz with
    | len n =>
      simp only at hb
      -- no Transfer-Encoding
      have hte : getAll r.fields sTE = [] := by
        rcases hcases with ⟨t, cls, w, hte1, _, _, hpt, _⟩ | ⟨c, m, hte0, _, _⟩ | ⟨hte0, _⟩
        · exfalso
          have htne := parseTE_nonempty hpt
          rw [proxy_body r.fields hnb'] at hsz
          cases cls <;> simp [sizeFromHeaders, getJoined_single hte1, htne, hpt] at hsz
        · exact hte0
        · exact hte0
      have hnc : sendsChunked r.fields = false := by simp [sendsChunked, getJoined_none hte]
      have hp : payload = body := by
        rw [hpay']; simp [hnc, hnh.1, h204.1, h204.2] <;> (intro hbe; cases body <;> simp_all)
      subst hp
      cases fr with
      | none =>
        simp only [Agree] at hag; subst hag
        have : payload = [] := by cases payload <;> simp at hb ⊢
        subst this
        exact ⟨.none, by simp⟩
      | cl m =>
        simp only [Agree] at hag; subst hag
        refine ⟨.cl n, ?_⟩
        have h1 : ¬ (payload ++ rest).length < n := by simp; omega
        simp only [h1, ↓reduceIte]
        rw [List.take_append_of_le_length (by omega), List.drop_append_of_le_length (by omega)]
        simp [← hb]
      | chunked => simp [Agree] at hag
      | eof => simp [Agree] at hag
    | chunked =>
      have hfrc : fr = .chunked := by cases fr <;> simp [Agree] at hag ⊢
      subst hfrc
      have hsc : sendsChunked r.fields = true := by
        rcases hcases with ⟨t, cls, w, hte1, _, _, hpt, _⟩ | ⟨c, m, hte0, hcl1, hpc⟩ | ⟨hte0, hcl0⟩
        · have htne := parseTE_nonempty hpt
          rw [proxy_body r.fields hnb'] at hsz
          cases cls with
          | chunkedFinal => simp [sendsChunked, getJoined_single hte1, sendsChunked_of_parseTE hpt]
          | other => simp [sizeFromHeaders, getJoined_single hte1, htne, hpt] at hsz
        · exfalso
          rw [proxy_body r.fields hnb'] at hsz
          have hcne : c ≠ [] := by intro e; subst e; simp [parseCL, dropFinalLF, clDigits] at hpc
          simp [sizeFromHeaders, getJoined_none hte0, getJoined_single hcl1, hcne, hpc] at hsz
        · exfalso
          rw [proxy_body r.fields hnb'] at hsz
          simp [sizeFromHeaders, getJoined_none hte0, getJoined_none hcl0] at hsz
      have hlast : (asciiUpper reqMethod ≠ sHEAD ∧ (!noBodyStatus r.status) = true) := ⟨hnh.1, by simp [hnh.2]⟩
      refine ⟨.chunked, ?_⟩
      have hchunk : Ref.chunkedBody ((payload ++ rest).length + 1) (payload ++ rest) [] false = .ok (body, rest) := by
        by_cases hbe : body = []
        · subst hbe
          have hp : payload = lastChunk := by rw [hpay']; simp [hsc, hlast]
          subst hp
          have hl5 : (lastChunk ++ rest).length + 1 = (rest.length + 4) + 2 := by simp [lastChunk]
          rw [hl5]
          exact chunkedBody_last (rest.length + 4) [] rest
        · have hbne : body.isEmpty = false := by cases body <;> simp at hbe ⊢
          have hp : payload = chunk body ++ lastChunk := by rw [hpay']; simp [hsc, hlast, hbne, hnh.1, h204.1, h204.2]
          subst hp
          have : (chunk body ++ lastChunk ++ rest).length + 1 = ((chunk body ++ lastChunk ++ rest).length - 2) + 3 := by
            simp [lastChunk]; omega
          rw [this]
          exact chunkedBody_chunk _ body rest hbe
      rw [hchunk]
    | untilEof =>
      obtain ⟨heof, hrest⟩ := hb
      subst heof; subst hrest
      have hfre : fr = .eof := by cases fr <;> simp [Agree] at hag ⊢
      subst hfre
      have hnc : sendsChunked r.fields = false := by
        rcases hcases with ⟨t, cls, w, hte1, _, _, hpt, _⟩ | ⟨c, m, hte0, _, _⟩ | ⟨hte0, _⟩
        · have htne := parseTE_nonempty hpt
          rw [proxy_body r.fields hnb'] at hsz
          cases cls with
          | chunkedFinal => simp [sizeFromHeaders, getJoined_single hte1, htne, hpt] at hsz
          | other => simp [sendsChunked, getJoined_single hte1, not_sendsChunked_of_parseTE_other hpt]
        · simp [sendsChunked, getJoined_none hte0]
        · simp [sendsChunked, getJoined_none hte0]
      have hp : payload = body := by
        rw [hpay']; simp [hnc, hnh.1, h204.1, h204.2] <;> (intro hbe; cases body <;> simp_all)
      subst hp
      exact ⟨.eof, by simp⟩

/-! ### `FramingFieldsPlain` is not an assumption: it follows from `validate_headers` -/

private theorem mem_getAll {fs : List Field} {f : Field} {n : Bytes} (hf : f ∈ fs) (hn : asciiLower f.1 = n) : f.2 ∈ getAll fs n := by
  simp only [getAll, List.mem_map, List.mem_filter]
  exact ⟨f, ⟨hf, by simp [hn]⟩, rfl⟩

private theorem value_no_cr_plain (pf : PField) (h13 : (13 : UInt8) ∉ pf.value) (hs : stripBy isOws pf.value = pf.value) :
    pf.qs = [] ∧ stripBy isOws pf.q0 = pf.q0 := by
  cases hq : pf.qs with
  | nil => simp [PField.value, hq, joinWith] at hs; exact ⟨rfl, hs⟩
  | cons q r =>
    exfalso; apply h13
    simp [PField.value, hq, joinWith, crlf]

/-- **framing_fields_plain**: in a message `validate_headers` accepts, Content-Length and Transfer-Encoding are not folded and
    carry no surrounding OWS (a folded one contains CR LF, which neither `parse_content_length` nor the Transfer-Encoding
    whitelist lets through) -/
theorem framing_fields_plain (kind : Kind) (version reason : Bytes) (pfs : List PField)
    (hv : validateHeaders kind version reason (pfs.map PField.field) = true) : FramingFieldsPlain pfs := by
  intro pf hpf hname
  obtain ⟨hall, hc⟩ := validate_cases hv
  have hmem : pf.field ∈ pfs.map PField.field := List.mem_map_of_mem hpf
  have key : (13 : UInt8) ∉ pf.value ∧ stripBy isOws pf.value = pf.value := by
    rcases hname with hn | hn
    · have hv1 : pf.value ∈ getAll (pfs.map PField.field) sTE := mem_getAll hmem (by simpa [PField.field] using hn)
      rcases hc with ⟨t, cls, w, hte, _, _, hpt, _⟩ | ⟨c, n, hte, _, _⟩ | ⟨hte, _⟩
      · rw [hte] at hv1; simp at hv1; rw [hv1]; exact parseTE_plain hpt
      · rw [hte] at hv1; simp at hv1
      · rw [hte] at hv1; simp at hv1
    · have hv1 : pf.value ∈ getAll (pfs.map PField.field) sCL := mem_getAll hmem (by simpa [PField.field] using hn)
      rcases hc with ⟨t, cls, w, _, hcl, _, _, _⟩ | ⟨c, n, _, hcl, hpc⟩ | ⟨_, hcl⟩
      · rw [hcl] at hv1; simp at hv1
      · rw [hcl] at hv1; simp at hv1; subst hv1
        have hvo : valueOk pf.value = true := (hall pf.field hmem).2
        have hpc' : clDigits pf.value = some n := by
          have := dropFinalLF_id (valueOk_last hvo)
          simpa [parseCL, this] using hpc
        obtain ⟨_, hd, _⟩ := clDigits_spec hpc'
        constructor
        · intro hm
          have := List.all_eq_true.mp hd 13 hm
          revert this; decide
        · exact stripBy_all_false (by
            apply List.all_eq_true.mpr
            intro x hx
            exact digit_not_ows x (List.all_eq_true.mp hd x hx))
      · rw [hcl] at hv1; simp at hv1
  exact value_no_cr_plain pf key.1 key.2

/-- **forward_request_roundtrip_obsfold**: `forward_request_roundtrip_fold` without the `FramingFieldsPlain` hypothesis -/
theorem forward_request_roundtrip_obsfold (r : ReqHead) (body rest : Bytes)
    (hv : validateHeaders .request r.version [] r.fields = true) (hl : RequestLineOk r)
    (pfs : List PField) (hpf : r.fields = pfs.map PField.field) (hok : ∀ pf ∈ pfs, pf.ok)
    (hb : BodyConsistent r body) :
    ∃ fr, Ref.parseRequest (forwardRequest r body ++ rest) =
      .ok (⟨r.method, requestTarget r, r.version, pfs.map PField.ufield, body, fr⟩, rest) :=
  forward_request_roundtrip_fold r body rest hv hl pfs hpf hok
    (framing_fields_plain .request r.version [] pfs (by rw [← hpf]; exact hv)) hb

/-- **relay_response_roundtrip_obsfold**: `relay_response_roundtrip_fold` without the `FramingFieldsPlain` hypothesis -/
theorem relay_response_roundtrip_obsfold (reqMethod : Bytes) (r : RespHead) (body rest : Bytes) (eof : Bool)
    (hv : validateHeaders (.response r.status) r.version r.reason r.fields = true)
    (hhd : versionOk r.version = true ∧ (100 ≤ r.status ∧ r.status ≤ 999) ∧ cleanLine r.reason)
    (pfs : List PField) (hpf : r.fields = pfs.map PField.field) (hnm : ∀ pf ∈ pfs, (10 : UInt8) ∉ pf.name) (hokf : ∀ pf ∈ pfs, pf.ok)
    (hconn : ¬(asciiUpper reqMethod = sCONNECT ∧ 200 ≤ r.status ∧ r.status ≤ 299))
    (hb : RespBodyConsistent reqMethod r body rest eof) :
    ∃ fr, Ref.parseResponse reqMethod eof (relayResponse reqMethod r body ++ rest) =
      .ok (⟨r.version, decDigits r.status, r.reason, pfs.map PField.ufield, body, fr⟩, rest) :=
  relay_response_roundtrip_fold reqMethod r body rest eof hv hhd pfs hpf hnm hokf
    (framing_fields_plain (.response r.status) r.version r.reason pfs (by rw [← hpf]; exact hv)) hconn hb

/-- **forward_stream_roundtrip_obsfold**: the pipelined-stream theorem with obs-fold in the field values: the concatenation of
    what the proxy writes for a list of validated requests (fields given by their CRLF-separated parts) with consistent bodies
    is read by the reference reader as exactly that list — same number and order, method, target, unfolded fields, body —
    and nothing is left over -/
theorem forward_stream_roundtrip_obsfold : ∀ (ms : List (ReqHead × List PField × Bytes)) (f : Nat),
    (∀ m ∈ ms, validateHeaders .request m.1.version [] m.1.fields = true ∧ RequestLineOk m.1 ∧
       m.1.fields = m.2.1.map PField.field ∧ (∀ pf ∈ m.2.1, pf.ok) ∧ BodyConsistent m.1 m.2.2) →
    ms.length < f →
    (Ref.parseRequests f (ms.map fun m => forwardRequest m.1 m.2.2).flatten).2 = none ∧
    (Ref.parseRequests f (ms.map fun m => forwardRequest m.1 m.2.2).flatten).1.map (fun m => (m.a, m.b, m.fields, m.body)) =
      ms.map (fun m => (m.1.method, requestTarget m.1, m.2.1.map PField.ufield, m.2.2))
  | [], f, _, hf => by
    cases f with
    | zero => omega
    | succ f => simp [Ref.parseRequests]
  | (r, pfs, body) :: ms, f, h, hf => by
    cases f with
    | zero => omega
    | succ f =>
      obtain ⟨hv, hl, hpf, hok, hb⟩ := h (r, pfs, body) (by simp)
      obtain ⟨ih1, ih2⟩ := forward_stream_roundtrip_obsfold ms f (fun m hm => h m (by simp [hm])) (by simp at hf; omega)
      obtain ⟨c, tl, hct, h10, h13⟩ := forward_head hl body
      obtain ⟨fr, hp⟩ := forward_request_roundtrip_obsfold r body (ms.map fun m => forwardRequest m.1 m.2.2).flatten hv hl pfs hpf hok hb
      simp only [List.map_cons, List.flatten_cons]
      have hdata : forwardRequest r body ++ (ms.map fun m => forwardRequest m.1 m.2.2).flatten =
          c :: (tl ++ (ms.map fun m => forwardRequest m.1 m.2.2).flatten) := by rw [hct]; rfl
      rw [Ref.parseRequests.eq_def]
      simp only
      rw [hdata]
      simp only [h10, h13, false_and, ↓reduceIte]
      rw [← hdata, hp]
      simp only
      exact ⟨ih1, by simp [ih2]⟩

/-! ### byte level: every value `validate_headers` accepts (CR LF or bare-LF folds), no decomposition given -/

private theorem head_lines_fields_G {kind : Kind} {version reason : Bytes} (first : Bytes) (gs : List GField)
    (hv : validateHeaders kind version reason (gs.map GField.field) = true) (hfirst : cleanLine first ∧ first ≠ [])
    (hnames : ∀ g ∈ gs, (10 : UInt8) ∉ g.name) (hok : ∀ g ∈ gs, g.ok) (tail : Bytes) :
    Ref.headLines ((first ++ crlf ++ assembleFields (gs.map GField.field) ++ crlf ++ tail).length + 1)
        (first ++ crlf ++ assembleFields (gs.map GField.field) ++ crlf ++ tail) =
        .ok (first :: (gs.flatMap GField.tlines).map (·.1), tail) ∧
    Ref.fields ((gs.flatMap GField.tlines).map (·.1)) = .ok (gs.map GField.ufield) := by
  have hvc := (validate_cases hv).1
  have htok : ∀ g ∈ gs, isToken g.name = true ∧ g.ok := by
    intro g hg
    refine ⟨?_, hok g hg⟩
    have h1 := (hvc g.field (List.mem_map_of_mem hg)).1
    have h2 : dropFinalLF g.name = g.name := by
      apply dropFinalLF_id
      intro e
      exact hnames g hg (List.mem_of_getLast? e)
    simpa [nameOk, GField.field, h2] using h1
  have hwire : first ++ crlf ++ assembleFields (gs.map GField.field) ++ crlf ++ tail =
      renderG ((first, true) :: gs.flatMap GField.tlines) ++ crlf ++ tail := by
    simp only [assembleFields_G, renderG, sepOf, ↓reduceIte, crlf, List.append_assoc]
  have hlines : ∀ lt ∈ (first, true) :: gs.flatMap GField.tlines, cleanLine lt.1 ∧ lt.1 ≠ [] := by
    intro lt hl
    simp only [List.mem_cons, List.mem_flatMap] at hl
    rcases hl with rfl | ⟨g, hg, hl⟩
    · exact hfirst
    · exact tlines_clean g (htok g hg).1 (hok g hg) lt hl
  constructor
  · rw [hwire]
    have := headLines_renderG ((first, true) :: gs.flatMap GField.tlines) ((renderG ((first, true) :: gs.flatMap GField.tlines) ++ crlf ++ tail).length + 1) tail hlines (by
      have := renderG_length ((first, true) :: gs.flatMap GField.tlines)
      simp only [List.length_append] at this ⊢
      omega)
    simpa using this
  · have := fieldsAux_G gs [] htok
    simp only [List.reverse_nil, List.nil_append] at this
    rw [Ref.fields, this]
    have hnul : ((gs.map GField.ufield).all fun f => !f.2.contains 0) = true := by
      apply List.all_eq_true.mpr
      intro f hf
      obtain ⟨g, hg, rfl⟩ := List.mem_map.mp hf
      have := gufield_no_nul g (hok g hg)
      simpa using this
    simp only [hnul, ↓reduceIte]

private theorem head_parse_G (r : ReqHead) (hv : validateHeaders .request r.version [] r.fields = true)
    (hl : RequestLineOk r) (gs : List GField) (hpf : r.fields = gs.map GField.field) (hok : ∀ g ∈ gs, g.ok) (tail : Bytes) :
    ∃ line, Ref.headLines ((assembleRequestHead r ++ tail).length + 1) (assembleRequestHead r ++ tail) =
        .ok (line :: (gs.flatMap GField.tlines).map (·.1), tail) ∧
      Ref.requestLine line = some (r.method, requestTarget r, r.version) ∧
      Ref.fields ((gs.flatMap GField.tlines).map (·.1)) = .ok (gs.map GField.ufield) := by
  obtain ⟨hm, hmw, ht, htw, hver, hnames⟩ := hl
  obtain ⟨hreq, hclean, hlne⟩ := requestLine_assembled hm hmw ht htw hver
  have hnames' : ∀ g ∈ gs, (10 : UInt8) ∉ g.name := by
    intro g h
    have := hnames g.field (by rw [hpf]; exact List.mem_map_of_mem h)
    simpa [GField.field] using this
  rw [hpf] at hv
  obtain ⟨h1, h2⟩ := head_lines_fields_G (r.method ++ [32] ++ requestTarget r ++ [32] ++ r.version) gs hv ⟨hclean, hlne⟩ hnames' hok tail
  refine ⟨_, ?_, hreq, h2⟩
  have : assembleRequestHead r ++ tail =
      r.method ++ [32] ++ requestTarget r ++ [32] ++ r.version ++ crlf ++ assembleFields (gs.map GField.field) ++ crlf ++ tail := by
    simp [assembleRequestHead, hpf, List.append_assoc]
  rw [this]; exact h1

private theorem frr_G_nte (r : ReqHead) (body rest : Bytes)
    (hv : validateHeaders .request r.version [] r.fields = true) (hl : RequestLineOk r)
    (hte : getAll r.fields sTE = [])
    (gs : List GField) (hpf : r.fields = gs.map GField.field) (hok : ∀ pf ∈ gs, pf.ok) (hfp : FramingFieldsPlainG gs)
    (hb : BodyConsistent r body) :
    ∃ fr, Ref.parseRequest (forwardRequest r body ++ rest) =
      .ok (⟨r.method, requestTarget r, r.version, gs.map GField.ufield, body, fr⟩, rest) := by
  have hnc : sendsChunked r.fields = false := by simp [sendsChunked, getJoined_none hte]
  have hwire : forwardRequest r body ++ rest = assembleRequestHead r ++ (body ++ rest) := by
    simp [forwardRequest, hnc, List.append_assoc]
  obtain ⟨line, hhead, hreq, hflds⟩ := head_parse_G r hv hl gs hpf hok (body ++ rest)
  obtain ⟨sz, fr, hsz, hfr, hag⟩ := framing_agrees .request r.version [] [] r.fields hv
  have hsz' : requestBodySize r = some sz := by simpa [proxySize, requestBodySize] using hsz
  unfold Ref.parseRequest
  rw [hwire, hhead]
  have hfrF : Ref.framing (gs.map GField.ufield) r.version .request [] = .ok fr := by
    rw [framing_G gs hok hfp, ← hpf]; exact hfr
  simp only [hreq, hflds, hfrF]
  unfold BodyConsistent at hb
  rw [hsz'] at hb
  cases sz with
  | chunked =>
    exfalso
    simp [requestBodySize, sizeFromHeaders, getJoined_none hte] at hsz'
    cases hc : getJoined r.fields sCL with
    | none => simp [hc] at hsz'
    | some cl =>
      simp [hc] at hsz'
      split at hsz'
      · simp at hsz'
      · cases hp : parseCL cl <;> simp [hp] at hsz'
  | untilEof => exact absurd hb (by simp)
  | len n =>
    simp only at hb
    cases fr with
    | none =>
      simp only [Agree] at hag
      subst hag
      have : body = [] := by cases body <;> simp at hb ⊢
      subst this
      exact ⟨.none, by simp⟩
    | cl m =>
      simp only [Agree] at hag
      subst hag
      refine ⟨.cl n, ?_⟩
      have h1 : ¬ (body ++ rest).length < n := by simp; omega
      simp only [h1, ↓reduceIte]
      rw [List.take_append_of_le_length (by omega), List.drop_append_of_le_length (by omega)]
      simp [← hb]
    | chunked => simp [Agree] at hag
    | eof => simp [Agree] at hag


private theorem frr_G_te (r : ReqHead) (body rest : Bytes)
    (hv : validateHeaders .request r.version [] r.fields = true) (hl : RequestLineOk r)
    (hte : getAll r.fields sTE ≠ [])
    (gs : List GField) (hpf : r.fields = gs.map GField.field) (hok : ∀ pf ∈ gs, pf.ok) (hfp : FramingFieldsPlainG gs) :
    Ref.parseRequest (forwardRequest r body ++ rest) =
      .ok (⟨r.method, requestTarget r, r.version, gs.map GField.ufield, body, .chunked⟩, rest) := by
  -- validate_headers leaves exactly one Transfer-Encoding value, classified "chunked final"
  obtain ⟨_, hc⟩ := validate_cases hv
  rcases hc with ⟨t, cls, w, hte1, hcl, hver, hpt, hk⟩ | ⟨c, n, hte0, _, _⟩ | ⟨hte0, _⟩
  · simp only at hk
    subst hk
    have hsc : sendsChunked r.fields = true := by
      simp [sendsChunked, getJoined_single hte1, sendsChunked_of_parseTE hpt]
    obtain ⟨sz, fr, hsz, hfr, hag⟩ := framing_agrees .request r.version [] [] r.fields hv
    have hsz' : sz = .chunked := by
      have htne : t ≠ [] := parseTE_nonempty hpt
      simp [proxySize, sizeFromHeaders, getJoined_single hte1, htne, hpt] at hsz
      exact hsz.symm
    subst hsz'
    have hfr' : Ref.framing r.fields r.version .request [] = .ok .chunked := by
      cases fr <;> simp [Agree] at hag
      exact hfr
    let payload := (if body.isEmpty then [] else chunk body) ++ lastChunk
    have hwire : forwardRequest r body ++ rest = assembleRequestHead r ++ (payload ++ rest) := by
      simp [forwardRequest, hsc, payload, List.append_assoc]
    obtain ⟨line, hhead, hreq, hflds⟩ := head_parse_G r hv hl gs hpf hok (payload ++ rest)
    unfold Ref.parseRequest
    rw [hwire, hhead]
    have hfrF : Ref.framing (gs.map GField.ufield) r.version .request [] = .ok .chunked := by
      rw [framing_G gs hok hfp, ← hpf]; exact hfr'
    simp only [hreq, hflds, hfrF]
    have hchunk : Ref.chunkedBody ((payload ++ rest).length + 1) (payload ++ rest) [] false = .ok (body, rest) := by
      by_cases hb : body = []
      · subst hb
        have hl5 : (payload ++ rest).length + 1 = (rest.length + 4) + 2 := by simp [payload, lastChunk]
        rw [hl5]
        simpa [payload] using chunkedBody_last (rest.length + 4) [] rest
      · have hbe : body.isEmpty = false := by cases body <;> simp at hb ⊢
        have hp : payload ++ rest = chunk body ++ lastChunk ++ rest := by simp [payload, hbe]
        rw [hp]
        have : (chunk body ++ lastChunk ++ rest).length + 1 = ((chunk body ++ lastChunk ++ rest).length - 2) + 3 := by
          simp [lastChunk]; omega
        rw [this]
        exact chunkedBody_chunk _ body rest hb
    rw [hchunk]
  · exact absurd hte0 hte
  · exact absurd hte0 hte


private theorem relay_response_roundtrip_G (reqMethod : Bytes) (r : RespHead) (body rest : Bytes) (eof : Bool)
    (hv : validateHeaders (.response r.status) r.version r.reason r.fields = true)
    (hhd : versionOk r.version = true ∧ (100 ≤ r.status ∧ r.status ≤ 999) ∧ cleanLine r.reason)
    (gs : List GField) (hpf : r.fields = gs.map GField.field) (hnm : ∀ pf ∈ gs, (10 : UInt8) ∉ pf.name) (hokf : ∀ pf ∈ gs, pf.ok)
    (hfp : FramingFieldsPlainG gs)
    (hconn : ¬(asciiUpper reqMethod = sCONNECT ∧ 200 ≤ r.status ∧ r.status ≤ 299))
    (hb : RespBodyConsistent reqMethod r body rest eof) :
    ∃ fr, Ref.parseResponse reqMethod eof (relayResponse reqMethod r body ++ rest) =
      .ok (⟨r.version, decDigits r.status, r.reason, gs.map GField.ufield, body, fr⟩, rest) := by
  obtain ⟨hver, hst, hreason⟩ := hhd
  have hvF : validateHeaders (.response r.status) r.version r.reason (gs.map GField.field) = true := by rw [← hpf]; exact hv
  obtain ⟨line, hline⟩ : ∃ l, l = r.version ++ [32] ++ decDigits r.status ++ [32] ++ r.reason := ⟨_, rfl⟩
  obtain ⟨hsl, hdig, hclean, hlne⟩ := statusLine_assembled hver hst hreason
  rw [← hline] at hsl hdig hclean hlne
  -- payload written after the head
  obtain ⟨payload, hpay⟩ : ∃ p, relayResponse reqMethod r body = assembleResponseHead r ++ p := ⟨_, rfl⟩
  have hhead_eq : assembleResponseHead r = line ++ crlf ++ assembleFields r.fields ++ crlf := by
    simp [assembleResponseHead, hline, List.append_assoc]
  obtain ⟨hhead, hflds⟩ := head_lines_fields_G line gs hvF ⟨hclean, hlne⟩ hnm hokf (payload ++ rest)
  rw [← hpf] at hhead
  have hwire : relayResponse reqMethod r body ++ rest = line ++ crlf ++ assembleFields r.fields ++ crlf ++ (payload ++ rest) := by
    rw [hpay, hhead_eq]; simp [List.append_assoc]
  obtain ⟨sz, fr, hsz, hfr, hag⟩ := framing_agrees (.response r.status) r.version r.reason reqMethod r.fields hv
  have hsz' : responseBodySize reqMethod r = some sz := by
    have : (⟨[], r.status, [], r.fields⟩ : RespHead) = ⟨[], r.status, [], r.fields⟩ := rfl
    simpa [proxySize, responseBodySize] using hsz
  unfold Ref.parseResponse
  rw [hwire, hhead]
  have hfrF : Ref.framing (gs.map GField.ufield) r.version (.response r.status) reqMethod = .ok fr := by
    rw [framing_G gs hokf hfp, ← hpf]; exact hfr
  simp only [hsl, hflds, hfrF, hdig]
  unfold RespBodyConsistent at hb
  rw [hsz'] at hb
  -- what the payload is
  have hpay' : payload =
      (if sendsChunked r.fields then
         (if (!body.isEmpty && !(asciiUpper reqMethod = sHEAD || r.status = 204 || r.status = 304)) then chunk body else []) ++
         (if asciiUpper reqMethod ≠ sHEAD ∧ !noBodyStatus r.status then lastChunk else [])
       else (if (!body.isEmpty && !(asciiUpper reqMethod = sHEAD || r.status = 204 || r.status = 304)) then body else [])) := by
    have := hpay
    simp only [relayResponse] at this
    exact (List.append_cancel_left this).symm
  by_cases hnb : Ref.noBody (.response r.status) reqMethod = true
  · -- HEAD / 1xx / 204 / 304: nothing follows the head
    have hp0 := proxy_nobody r.fields hnb
    rw [hsz] at hp0
    simp at hp0; subst hp0
    simp only at hb
    have hbody : body = [] := by cases body <;> simp at hb ⊢
    subst hbody
    have hfr0 : fr = .none := by
      have := hfr
      unfold Ref.framing at this
      -- with noBody the reference reader answers `none` once the checks passed: read it off `Agree`
      cases fr <;> simp [Agree] at hag ⊢
      · rename_i m
        -- `.cl m` is impossible when noBody holds
        exfalso
        revert this
        simp only [hnb]
        intro this
        split at this
        · simp at this
        · split at this
          · simp at this
          · split at this
            · simp at this
            · simp at this
    subst hfr0
    have hnl : (asciiUpper reqMethod ≠ sHEAD ∧ (!noBodyStatus r.status) = true) → False := by
      intro hh
      simp only [Ref.noBody, Bool.or_eq_true, Bool.and_eq_true, decide_eq_true_eq] at hnb
      rcases hnb with (h | h) | h
      · exact hh.1 h
      · simp [h] at hh
      · exact hconn ⟨h.1.1, h.1.2, h.2⟩
    have : payload = [] := by
      rw [hpay']
      by_cases hsc : sendsChunked r.fields = true
      · simp [hsc]
        intro h1 h2
        exact (hnl ⟨h1, by simpa using h2⟩).elim
      · simp [hsc]
    subst this
    exact ⟨.none, by simp⟩
  · have hnb' : Ref.noBody (.response r.status) reqMethod = false := by simpa using hnb
    -- data is written whenever the body is non-empty
    have hnh : asciiUpper reqMethod ≠ sHEAD ∧ noBodyStatus r.status = false := by
      simp only [Ref.noBody, Bool.or_eq_false_iff, Bool.and_eq_false_iff, decide_eq_false_iff_not] at hnb'
      exact ⟨hnb'.1.1, hnb'.1.2⟩
    have hnot : (asciiUpper reqMethod = sHEAD || r.status = 204 || r.status = 304) = false := by
      have h2 := hnh.2
      simp only [noBodyStatus, Bool.or_eq_false_iff, decide_eq_false_iff_not] at h2
      simp [hnh.1, h2.1.2, h2.2]
    have h204 : r.status ≠ 204 ∧ r.status ≠ 304 := by
      have h2 := hnh.2
      simp only [noBodyStatus, Bool.or_eq_false_iff, decide_eq_false_iff_not] at h2
      exact ⟨h2.1.2, h2.2⟩
    obtain ⟨_, hcases⟩ := validate_cases hv
    cases sz with
    | len n =>
      simp only at hb
      -- no Transfer-Encoding
      have hte : getAll r.fields sTE = [] := by
        rcases hcases with ⟨t, cls, w, hte1, _, _, hpt, _⟩ | ⟨c, m, hte0, _, _⟩ | ⟨hte0, _⟩
        · exfalso
          have htne := parseTE_nonempty hpt
          rw [proxy_body r.fields hnb'] at hsz
          cases cls <;> simp [sizeFromHeaders, getJoined_single hte1, htne, hpt] at hsz
        · exact hte0
        · exact hte0
      have hnc : sendsChunked r.fields = false := by simp [sendsChunked, getJoined_none hte]
      have hp : payload = body := by
        rw [hpay']; simp [hnc, hnh.1, h204.1, h204.2] <;> (intro hbe; cases body <;> simp_all)
      subst hp
      cases fr with
      | none =>
        simp only [Agree] at hag; subst hag
        have : payload = [] := by cases payload <;> simp at hb ⊢
        subst this
        exact ⟨.none, by simp⟩
      | cl m =>
        simp only [Agree] at hag; subst hag
        refine ⟨.cl n, ?_⟩
        have h1 : ¬ (payload ++ rest).length < n := by simp; omega
        simp only [h1, ↓reduceIte]
        rw [List.take_append_of_le_length (by omega), List.drop_append_of_le_length (by omega)]
        simp [← hb]
      | chunked => simp [Agree] at hag
      | eof => simp [Agree] at hag
    | chunked =>
      have hfrc : fr = .chunked := by cases fr <;> simp [Agree] at hag ⊢
      subst hfrc
      have hsc : sendsChunked r.fields = true := by
        rcases hcases with ⟨t, cls, w, hte1, _, _, hpt, _⟩ | ⟨c, m, hte0, hcl1, hpc⟩ | ⟨hte0, hcl0⟩
        · have htne := parseTE_nonempty hpt
          rw [proxy_body r.fields hnb'] at hsz
          cases cls with
          | chunkedFinal => simp [sendsChunked, getJoined_single hte1, sendsChunked_of_parseTE hpt]
          | other => simp [sizeFromHeaders, getJoined_single hte1, htne, hpt] at hsz
        · exfalso
          rw [proxy_body r.fields hnb'] at hsz
          have hcne : c ≠ [] := by intro e; subst e; simp [parseCL, dropFinalLF, clDigits] at hpc
          simp [sizeFromHeaders, getJoined_none hte0, getJoined_single hcl1, hcne, hpc] at hsz
        · exfalso
          rw [proxy_body r.fields hnb'] at hsz
          simp [sizeFromHeaders, getJoined_none hte0, getJoined_none hcl0] at hsz
      have hlast : (asciiUpper reqMethod ≠ sHEAD ∧ (!noBodyStatus r.status) = true) := ⟨hnh.1, by simp [hnh.2]⟩
      refine ⟨.chunked, ?_⟩
      have hchunk : Ref.chunkedBody ((payload ++ rest).length + 1) (payload ++ rest) [] false = .ok (body, rest) := by
        by_cases hbe : body = []
        · subst hbe
          have hp : payload = lastChunk := by rw [hpay']; simp [hsc, hlast]
          subst hp
          have hl5 : (lastChunk ++ rest).length + 1 = (rest.length + 4) + 2 := by simp [lastChunk]
          rw [hl5]
          exact chunkedBody_last (rest.length + 4) [] rest
        · have hbne : body.isEmpty = false := by cases body <;> simp at hbe ⊢
          have hp : payload = chunk body ++ lastChunk := by rw [hpay']; simp [hsc, hlast, hbne, hnh.1, h204.1, h204.2]
          subst hp
          have : (chunk body ++ lastChunk ++ rest).length + 1 = ((chunk body ++ lastChunk ++ rest).length - 2) + 3 := by
            simp [lastChunk]; omega
          rw [this]
          exact chunkedBody_chunk _ body rest hbe
      rw [hchunk]
    | untilEof =>
      obtain ⟨heof, hrest⟩ := hb
      subst heof; subst hrest
      have hfre : fr = .eof := by cases fr <;> simp [Agree] at hag ⊢
      subst hfre
      have hnc : sendsChunked r.fields = false := by
        rcases hcases with ⟨t, cls, w, hte1, _, _, hpt, _⟩ | ⟨c, m, hte0, _, _⟩ | ⟨hte0, _⟩
        · have htne := parseTE_nonempty hpt
          rw [proxy_body r.fields hnb'] at hsz
          cases cls with
          | chunkedFinal => simp [sizeFromHeaders, getJoined_single hte1, htne, hpt] at hsz
          | other => simp [sendsChunked, getJoined_single hte1, not_sendsChunked_of_parseTE_other hpt]
        · simp [sendsChunked, getJoined_none hte0]
        · simp [sendsChunked, getJoined_none hte0]
      have hp : payload = body := by
        rw [hpay']; simp [hnc, hnh.1, h204.1, h204.2] <;> (intro hbe; cases body <;> simp_all)
      subst hp
      exact ⟨.eof, by simp⟩

private theorem framing_fields_plain_G (kind : Kind) (version reason : Bytes) (gs : List GField)
    (hv : validateHeaders kind version reason (gs.map GField.field) = true) : FramingFieldsPlainG gs := by
  intro g hg hname
  obtain ⟨hall, hc⟩ := validate_cases hv
  have hmem : g.field ∈ gs.map GField.field := List.mem_map_of_mem hg
  have key : (13 : UInt8) ∉ g.value ∧ (10 : UInt8) ∉ g.value ∧ stripBy isOws g.value = g.value := by
    rcases hname with hn | hn
    · have hv1 : g.value ∈ getAll (gs.map GField.field) sTE := mem_getAll hmem (by simpa [GField.field] using hn)
      rcases hc with ⟨t, cls, w, hte, _, _, hpt, _⟩ | ⟨c, n, hte, _, _⟩ | ⟨hte, _⟩
      · rw [hte] at hv1; simp at hv1; rw [hv1]
        exact ⟨(parseTE_plain hpt).1, (parseTE_plain_lf hpt).1, (parseTE_plain hpt).2⟩
      · rw [hte] at hv1; simp at hv1
      · rw [hte] at hv1; simp at hv1
    · have hv1 : g.value ∈ getAll (gs.map GField.field) sCL := mem_getAll hmem (by simpa [GField.field] using hn)
      rcases hc with ⟨t, cls, w, _, hcl, _, _, _⟩ | ⟨c, n, _, hcl, hpc⟩ | ⟨_, hcl⟩
      · rw [hcl] at hv1; simp at hv1
      · rw [hcl] at hv1; simp at hv1; subst hv1
        have hvo : valueOk g.value = true := (hall g.field hmem).2
        have hpc' : clDigits g.value = some n := by
          have := dropFinalLF_id (valueOk_last hvo)
          simpa [parseCL, this] using hpc
        obtain ⟨_, hd, _⟩ := clDigits_spec hpc'
        refine ⟨?_, ?_, ?_⟩
        · intro hm
          have := List.all_eq_true.mp hd 13 hm
          revert this; decide
        · intro hm
          have := List.all_eq_true.mp hd 10 hm
          revert this; decide
        · exact stripBy_all_false (by
            apply List.all_eq_true.mpr
            intro x hx
            exact digit_not_ows x (List.all_eq_true.mp hd x hx))
      · rw [hcl] at hv1; simp at hv1
  exact gvalue_plain g key.1 key.2.1 key.2.2

private theorem ofField_map (fs : List Field) : (fs.map GField.ofField).map GField.field = fs := by
  induction fs with
  | nil => rfl
  | cons f rest ih => simp [ofField_field, ih]

private theorem ofField_umap (fs : List Field) :
    (fs.map GField.ofField).map GField.ufield = fs.map (fun f => (f.1, Ref.unfold f.2)) := by
  induction fs with
  | nil => rfl
  | cons f rest ih =>
    have : (GField.ofField f).ufield = (f.1, Ref.unfold f.2) := by
      have := ofField_field f
      simp only [GField.field, GField.ufield] at this ⊢
      have hv : (GField.ofField f).value = f.2 := by simpa using congrArg Prod.snd this
      rw [hv]; rfl
    simp [this, ih]

/-- **forward_request_roundtrip**: the full statement `ForwardRequestRoundtrip` (DESIGN §5 C01 (1) and (5) edit_stable): for EVERY
    request `validate_headers` accepts — whatever folds its values contain — with whitespace-free request-line parts and a
    consistent body, the reference reader reads the written bytes back as method, target, version, the fields with
    `Ref.unfold` of their values, and the body; no decomposition of the values is assumed (it is computed: `dec`, `dec_ok`) -/
theorem forward_request_roundtrip : ForwardRequestRoundtrip := by
  intro r body rest hv hl hb
  have hvc := (validate_cases hv).1
  let gs := r.fields.map GField.ofField
  have hpf : r.fields = gs.map GField.field := (ofField_map r.fields).symm
  have hok : ∀ g ∈ gs, g.ok := by
    intro g hg
    obtain ⟨f, hf, rfl⟩ := List.mem_map.mp hg
    exact ofField_ok f (hvc f hf).2
  have hfp : FramingFieldsPlainG gs := framing_fields_plain_G .request r.version [] gs (by rw [← hpf]; exact hv)
  rw [← ofField_umap r.fields]
  by_cases hte : getAll r.fields sTE = []
  · exact frr_G_nte r body rest hv hl hte gs hpf hok hfp hb
  · exact ⟨.chunked, frr_G_te r body rest hv hl hte gs hpf hok hfp⟩

/-- **relay_response_roundtrip_full**: `relay_response_roundtrip` for EVERY accepted response (no fold-freeness assumed) -/
theorem relay_response_roundtrip_full (reqMethod : Bytes) (r : RespHead) (body rest : Bytes) (eof : Bool)
    (hv : validateHeaders (.response r.status) r.version r.reason r.fields = true)
    (hhd : versionOk r.version = true ∧ (100 ≤ r.status ∧ r.status ≤ 999) ∧ cleanLine r.reason)
    (hnm : ∀ f ∈ r.fields, (10 : UInt8) ∉ f.1)
    (hconn : ¬(asciiUpper reqMethod = sCONNECT ∧ 200 ≤ r.status ∧ r.status ≤ 299))
    (hb : RespBodyConsistent reqMethod r body rest eof) :
    ∃ fr, Ref.parseResponse reqMethod eof (relayResponse reqMethod r body ++ rest) =
      .ok (⟨r.version, decDigits r.status, r.reason, r.fields.map (fun f => (f.1, Ref.unfold f.2)), body, fr⟩, rest) := by
  have hvc := (validate_cases hv).1
  let gs := r.fields.map GField.ofField
  have hpf : r.fields = gs.map GField.field := (ofField_map r.fields).symm
  have hok : ∀ g ∈ gs, g.ok := by
    intro g hg
    obtain ⟨f, hf, rfl⟩ := List.mem_map.mp hg
    exact ofField_ok f (hvc f hf).2
  have hnm' : ∀ g ∈ gs, (10 : UInt8) ∉ g.name := by
    intro g hg
    obtain ⟨f, hf, rfl⟩ := List.mem_map.mp hg
    exact hnm f hf
  have hfp : FramingFieldsPlainG gs := framing_fields_plain_G (.response r.status) r.version r.reason gs (by rw [← hpf]; exact hv)
  rw [← ofField_umap r.fields]
  exact relay_response_roundtrip_G reqMethod r body rest eof hv hhd gs hpf hnm' hok hfp hconn hb

/-- **forward_stream_roundtrip**: the full statement `ForwardStreamRoundtrip` (pipelined messages, by induction) -/
theorem forward_stream_roundtrip : ForwardStreamRoundtrip := by
  intro ms h
  suffices H : ∀ (ms : List (ReqHead × Bytes)) (f : Nat),
      (∀ m ∈ ms, validateHeaders .request m.1.version [] m.1.fields = true ∧ RequestLineOk m.1 ∧ BodyConsistent m.1 m.2) →
      ms.length < f →
      (Ref.parseRequests f (ms.map fun m => forwardRequest m.1 m.2).flatten).2 = none ∧
      (Ref.parseRequests f (ms.map fun m => forwardRequest m.1 m.2).flatten).1.map (fun m => (m.a, m.b, m.c, m.fields, m.body)) =
        ms.map (fun m => (m.1.method, requestTarget m.1, m.1.version, m.1.fields.map (fun f => (f.1, Ref.unfold f.2)), m.2)) by
    apply H ms _ h
    have : ∀ (l : List (ReqHead × Bytes)), l.length ≤ ((l.map fun m => forwardRequest m.1 m.2).flatten).length := by
      intro l
      induction l with
      | nil => simp
      | cons m rest ih =>
        have : 0 < (forwardRequest m.1 m.2).length := by simp [forwardRequest, assembleRequestHead, crlf]; omega
        simp only [List.map_cons, List.flatten_cons, List.length_append, List.length_cons]
        omega
    have := this ms
    omega
  intro ms
  induction ms with
  | nil =>
    intro f _ hf
    cases f with
    | zero => omega
    | succ f => simp [Ref.parseRequests]
  | cons m ms ih =>
    intro f h hf
    obtain ⟨r, body⟩ := m
    cases f with
    | zero => omega
    | succ f =>
      obtain ⟨hv, hl, hb⟩ := h (r, body) (by simp)
      obtain ⟨ih1, ih2⟩ := ih f (fun m hm => h m (by simp [hm])) (by simp at hf; omega)
      obtain ⟨c, tl, hct, h10, h13⟩ := forward_head hl body
      obtain ⟨fr, hp⟩ := forward_request_roundtrip r body (ms.map fun m => forwardRequest m.1 m.2).flatten hv hl hb
      simp only [List.map_cons, List.flatten_cons]
      have hdata : forwardRequest r body ++ (ms.map fun m => forwardRequest m.1 m.2).flatten =
          c :: (tl ++ (ms.map fun m => forwardRequest m.1 m.2).flatten) := by rw [hct]; rfl
      rw [Ref.parseRequests.eq_def]
      simp only
      rw [hdata]
      simp only [h10, h13, false_and, ↓reduceIte]
      rw [← hdata, hp]
      simp only
      exact ⟨ih1, by simp [ih2]⟩

/-! ### "ambiguous messages are rejected", for the head LINES as both readers see them -/

/-- **lines_ambiguous_rejected** (DESIGN §5 C01 (3) at the level of the raw head lines): take any list of head lines without
    CR/LF inside them.  If `_read_headers` accepts them (giving the recorded fields `fs`) while the strict reference reader,
    reading the SAME lines, finds the message ambiguous — a field name that is not a token, or ambiguous framing of the
    fields as IT reads them (folds replaced by SP, OWS removed) — then `validate_headers` rejects the recorded message.
    So no message is forwarded whose head a strict reader calls ambiguous, although the two readers represent folded and
    padded values differently. -/
theorem lines_ambiguous_rejected (kind : Kind) (version reason reqMethod : Bytes) (ls : List Bytes) (fs : List Field) (c : Nat)
    (hclean : ∀ l ∈ ls, cleanLine l) (hread : readHeaders ls = some fs)
    (hamb : Ref.fields ls = .error (.ambiguous c) ∨
            ∃ fsR, Ref.fields ls = .ok fsR ∧ Ref.framing fsR version kind reqMethod = .error (.ambiguous c)) :
    validateHeaders kind version reason fs = false := by
  cases hv : validateHeaders kind version reason fs with
  | false => rfl
  | true =>
    exfalso
    -- what `_read_headers` recorded, with the parts of the values
    have hg := readHeadersAux_group ls []
    simp only [List.map_nil] at hg
    unfold readHeaders at hread
    rw [hg] at hread
    cases hgr : groupAux ls [] with
    | none => simp [hgr] at hread
    | some pfs =>
      simp [hgr] at hread
      subst hread
      obtain ⟨hcl, hR⟩ := fieldsAux_group ls [] pfs hclean (by simp) hgr
      have hnm := group_names_clean ls [] pfs hclean (by simp) hgr
      have hvc := (validate_cases hv).1
      simp only [List.map_nil] at hR
      rcases hR with ⟨pf, hpf, htok, hbad⟩ | hok
      · -- a non-token name: validate_headers has refused it
        have h1 := (hvc pf.field (List.mem_map_of_mem hpf)).1
        have h2 : dropFinalLF pf.name = pf.name := by
          apply dropFinalLF_id
          intro e
          exact hnm pf hpf (List.mem_of_getLast? e)
        simp [nameOk, PField.field, h2, htok] at h1
      · have hfp := framing_fields_plain kind version reason pfs hv
        have hfr := framing_fold' pfs (fun pf hpf => (hcl pf hpf).1) hfp version kind reqMethod
        obtain ⟨_, fr, _, hfrok, _⟩ := framing_agrees kind version reason reqMethod (pfs.map PField.field) hv
        rcases hamb with hamb | ⟨fsR, hfs, hfa⟩
        · -- the reference reader did read the fields: Ref.fields is not an ambiguity error
          simp only [Ref.fields, hok] at hamb
          split at hamb <;> simp at hamb
        · simp only [Ref.fields, hok] at hfs
          split at hfs
          · simp at hfs; subst hfs
            rw [hfr, hfrok] at hfa; simp at hfa
          · simp at hfs

/-- **raw_ambiguous_rejected** (DESIGN §5 C01 (3), on raw bytes): if the strict reference reader finds the request at the front of
    a byte stream ambiguous (non-token field name, Content-Length with Transfer-Encoding, differing / malformed Content-Length,
    unknown / misplaced / repeated transfer coding, non-chunked request coding, Transfer-Encoding on HTTP/1.0), then whatever
    mitmproxy reads from the same bytes — h11 `maybe_extract_lines`, `read_request_head` — is refused by `validate_headers`:
    the message is rejected, not forwarded.  (The two readers split the head into the same lines — `extractLines_of_headLines` —
    and the same request-line parts — `splitWs_of_requestLine`.) -/
theorem raw_ambiguous_rejected (authOk : Bytes → Bytes → Bool) (buf : Bytes) (c : Nat)
    (hamb : Ref.parseRequest buf = .error (.ambiguous c))
    (ls : List Bytes) (rest : Bytes) (r : ReqHead)
    (hex : extractLines buf = .lines ls rest) (hread : readRequestHead authOk ls = some r) :
    validateHeaders .request r.version [] r.fields = false := by
  unfold Ref.parseRequest at hamb
  cases hh : Ref.headLines (buf.length + 1) buf with
  | error e => simp [hh] at hamb; subst hamb; 
               -- headLines never reports an ambiguity
               exfalso
               have : ∀ (f : Nat) (b : Bytes) (k : Nat), Ref.headLines f b ≠ .error (.ambiguous k) := by
                 intro f
                 induction f with
                 | zero => intro b k; simp [Ref.headLines]
                 | succ f ih =>
                   intro b k
                   simp only [Ref.headLines]
                   cases ht : Ref.takeLine b with
                   | none => simp
                   | some x =>
                     obtain ⟨res, r'⟩ := x
                     cases res with
                     | error e => simp
                     | ok l =>
                       simp only
                       split
                       · simp
                       · cases hr : Ref.headLines f r' with
                         | error e' => simp; intro he; exact ih r' k (by rw [hr, he])
                         | ok p => simp
               exact this _ _ _ hh
  | ok p =>
    obtain ⟨lsR, restR⟩ := p
    cases lsR with
    | nil => simp [hh] at hamb
    | cons l lsR' =>
      obtain ⟨hext, hclean⟩ := extractLines_of_headLines _ buf l lsR' restR hh
      rw [hext] at hex
      simp at hex
      obtain ⟨rfl, rfl⟩ := hex
      simp only [hh] at hamb
      cases hrl : Ref.requestLine l with
      | none => simp [hrl] at hamb
      | some mtv =>
        obtain ⟨m, t, v⟩ := mtv
        simp only [hrl] at hamb
        -- mitmproxy's reading of the same lines
        unfold readRequestHead at hread
        simp only at hread
        cases hq : readRequestLine authOk l with
        | none => simp [hq] at hread
        | some h =>
          cases hf : readHeaders lsR' with
          | none => simp [hq, hf] at hread
          | some fs =>
            simp [hq, hf] at hread
            subst hread
            have hver : h.version = v :=
              readRequestLine_version (splitWs_of_requestLine (hclean l (by simp)) hrl) hq
            simp only
            rw [hver]
            apply lines_ambiguous_rejected .request v [] [] lsR' fs c (fun x hx => hclean x (by simp [hx])) hf
            cases hfl : Ref.fields lsR' with
            | error e =>
              simp only [hfl] at hamb
              left; simp at hamb; rw [hamb]
            | ok fsR =>
              simp only [hfl] at hamb
              right
              refine ⟨fsR, rfl, ?_⟩
              cases hfr : Ref.framing fsR v .request [] with
              | error e => simp only [hfr] at hamb; simp at hamb; rw [hamb]
              | ok fr =>
                simp only [hfr] at hamb
                cases fr with
                | none => simp at hamb
                | cl n => simp at hamb; split at hamb <;> simp at hamb
                | chunked =>
                  simp at hamb
                  -- a chunked body is malformed or incomplete, never "ambiguous"
                  exfalso
                  have : ∀ (f : Nat) (b acc : Bytes) (tr : Bool) (k : Nat), Ref.chunkedBody f b acc tr ≠ .error (.ambiguous k) := by
                    intro f
                    induction f with
                    | zero => intro b acc tr k; simp [Ref.chunkedBody]
                    | succ f ih =>
                      intro b acc tr k
                      simp only [Ref.chunkedBody]
                      repeat' split
                      all_goals first | (simp; done) | exact ih _ _ _ _
                  cases hcb : Ref.chunkedBody (restR.length + 1) restR [] false with
                  | error e => simp [hcb] at hamb; exact this _ _ _ _ _ (by rw [hcb, hamb])
                  | ok q => simp [hcb] at hamb
                | eof => simp at hamb

private theorem headLines_not_ambiguous : ∀ (f : Nat) (b : Bytes) (k : Nat), Ref.headLines f b ≠ .error (.ambiguous k) := by
  intro f
  induction f with
  | zero => intro b k; simp [Ref.headLines]
  | succ f ih =>
    intro b k
    simp only [Ref.headLines]
    cases ht : Ref.takeLine b with
    | none => simp
    | some x =>
      obtain ⟨res, r'⟩ := x
      cases res with
      | error e => simp
      | ok l =>
        simp only
        split
        · simp
        · cases hr : Ref.headLines f r' with
          | error e' => simp; intro he; exact ih r' k (by rw [hr, he])
          | ok p => simp

private theorem chunkedBody_not_ambiguous : ∀ (f : Nat) (b acc : Bytes) (tr : Bool) (k : Nat),
    Ref.chunkedBody f b acc tr ≠ .error (.ambiguous k) := by
  intro f
  induction f with
  | zero => intro b acc tr k; simp [Ref.chunkedBody]
  | succ f ih =>
    intro b acc tr k
    simp only [Ref.chunkedBody]
    repeat' split
    all_goals first | (simp; done) | exact ih _ _ _ _

/-- **raw_ambiguous_rejected_response**: the response side of `raw_ambiguous_rejected`, in the context of the request method:
    if the strict reference reader finds the response at the front of the origin's byte stream ambiguous, what mitmproxy reads
    from the same bytes (h11 `maybe_extract_lines`, `read_response_head`) is refused by `validate_headers` — 502, not relayed -/
theorem raw_ambiguous_rejected_response (reqMethod : Bytes) (eof : Bool) (buf : Bytes) (c : Nat)
    (hamb : Ref.parseResponse reqMethod eof buf = .error (.ambiguous c))
    (ls : List Bytes) (rest : Bytes) (r : RespHead)
    (hex : extractLines buf = .lines ls rest) (hread : readResponseHead ls = some r) :
    validateHeaders (.response r.status) r.version r.reason r.fields = false := by
  unfold Ref.parseResponse at hamb
  cases hh : Ref.headLines (buf.length + 1) buf with
  | error e => simp [hh] at hamb; subst hamb; exact absurd hh (headLines_not_ambiguous _ _ _)
  | ok p =>
    obtain ⟨lsR, restR⟩ := p
    cases lsR with
    | nil => simp [hh] at hamb
    | cons l lsR' =>
      obtain ⟨hext, hclean⟩ := extractLines_of_headLines _ buf l lsR' restR hh
      rw [hext] at hex
      simp at hex
      obtain ⟨rfl, rfl⟩ := hex
      simp only [hh] at hamb
      cases hsl : Ref.statusLine l with
      | none => simp [hsl] at hamb
      | some vsr =>
        obtain ⟨v, st, rsn⟩ := vsr
        simp only [hsl] at hamb
        unfold readResponseHead at hread
        simp only at hread
        cases hq : readResponseLine l with
        | none => simp [hq] at hread
        | some h =>
          cases hf : readHeaders lsR' with
          | none => simp [hq, hf] at hread
          | some fs =>
            simp [hq, hf] at hread
            subst hread
            obtain ⟨hver, hst⟩ := readResponseLine_of_statusLine hsl hq
            simp only
            rw [hver, hst]
            apply lines_ambiguous_rejected (.response st) v h.reason reqMethod lsR' fs c (fun x hx => hclean x (by simp [hx])) hf
            cases hfl : Ref.fields lsR' with
            | error e =>
              simp only [hfl] at hamb
              left; simp at hamb; rw [hamb]
            | ok fsR =>
              simp only [hfl] at hamb
              right
              refine ⟨fsR, rfl, ?_⟩
              cases hfr : Ref.framing fsR v (.response st) reqMethod with
              | error e => simp only [hfr] at hamb; simp at hamb; rw [hamb]
              | ok fr =>
                simp only [hfr] at hamb
                cases fr with
                | none => simp at hamb
                | cl n => simp at hamb; split at hamb <;> simp at hamb
                | chunked =>
                  simp at hamb
                  exfalso
                  cases hcb : Ref.chunkedBody (restR.length + 1) restR [] false with
                  | error e => simp [hcb] at hamb; exact chunkedBody_not_ambiguous _ _ _ _ _ (by rw [hcb, hamb])
                  | ok q => simp [hcb] at hamb
                | eof => simp at hamb; split at hamb <;> simp at hamb

/-- a folded field satisfying the hypotheses of the fold theorems: `X: a CRLF SP b` -/
example : (⟨[88], [97], [[32, 98]]⟩ : PField).ok := by
  refine ⟨⟨by decide, by decide⟩, by decide, ?_⟩
  intro q hq
  simp at hq; subst hq
  exact ⟨⟨by decide, by decide⟩, by decide, 32, [98], rfl, Or.inl rfl⟩
example : (⟨[88], [97], [[32, 98]]⟩ : PField).ufield = ([88], [97, 32, 98]) := by decide

/-- instances (the statement holds on concrete messages, and is not vacuous) -/
example : Ref.parseRequest (forwardRequest ⟨[71,69,84], [], [], [47], sHttp11, [([72,111,115,116], [104]), (sCL, [51])]⟩ [97,98,99] ++ [88]) =
    .ok (⟨[71,69,84], [47], sHttp11, [([72,111,115,116], [104]), (sCL, [51])], [97,98,99], .cl 3⟩, [88]) := by rfl
example : Ref.parseRequest (forwardRequest ⟨[80,85,84], [], [], [47], sHttp11, [(sTE, sChunked), ([88], [97, 13, 10, 32, 98])]⟩ [97,98,99] ++ [88]) =
    .ok (⟨[80,85,84], [47], sHttp11, [(sTE, sChunked), ([88], [97, 32, 98])], [97,98,99], .chunked⟩, [88]) := by rfl

/-! ## audit round 6 (cross-audit, added by the C46-48 builder): non-vacuity witnesses — the hypotheses of the theorems above
    hold together on concrete, non-trivial messages -/
private def aGET : Bytes := [71, 69, 84]
private def aPOST : Bytes := [80, 79, 83, 84]
private def aReq : ReqHead := ⟨aGET, [], [], [47], sHttp11, [([72, 111, 115, 116], [104]), (sCL, [51])]⟩
private def aReqTE : ReqHead := ⟨aPOST, [], [], [47, 120], sHttp11, [(sTE, sChunked), ([88], [97, 13, 10, 32, 98])]⟩
private def aResp : RespHead := ⟨sHttp11, 200, [79, 75], [(sCL, [51])]⟩
private def aRespEof : RespHead := ⟨sHttp11, 200, [79, 75], [([88], [121])]⟩
/-- `POST / HTTP/1.1 CRLF Content-Length: 5 CRLF Transfer-Encoding: chunked CRLF CRLF` -/
private def aAmbReq : Bytes :=
  aPOST ++ [32, 47, 32] ++ sHttp11 ++ crlf ++ sCL ++ colonSp ++ [53] ++ crlf ++ sTE ++ colonSp ++ sChunked ++ crlf ++ crlf
/-- `HTTP/1.1 200 OK CRLF Content-Length: 5 CRLF Content-Length: 6 CRLF CRLF` -/
private def aAmbResp : Bytes :=
  sHttp11 ++ [32, 50, 48, 48, 32, 79, 75] ++ crlf ++ sCL ++ colonSp ++ [53] ++ crlf ++ sCL ++ colonSp ++ [54] ++ crlf ++ crlf

-- bad_field_name_rejected
example : ([88, 32], [97]) ∈ [(([88, 32] : Bytes), ([97] : Bytes))] ∧ nameOk [88, 32] = false ∧
    validateHeaders .request sHttp11 [] [([88, 32], [97])] = false := by decide
-- forward_request_roundtrip(_partial/_nofold): validated, RequestLineOk, no TE, plain values, consistent body
example : validateHeaders .request aReq.version [] aReq.fields = true := by decide
example : RequestLineOk aReq := by unfold RequestLineOk; decide
example : getAll aReq.fields sTE = [] := by decide
example : BodyConsistent aReq [97, 98, 99] := by
  have h : requestBodySize aReq = some (.len 3) := by decide
  simp [BodyConsistent, h]
example : NoFold aReq := by
  intro f hf
  simp [aReq] at hf
  rcases hf with rfl | rfl <;> exact ⟨by unfold cleanLine; decide, by decide⟩
-- …_chunked_partial / forward_request_roundtrip with an obs-folded value
example : validateHeaders .request aReqTE.version [] aReqTE.fields = true ∧ getAll aReqTE.fields sTE ≠ [] := by decide
example : RequestLineOk aReqTE := by unfold RequestLineOk; decide
example : BodyConsistent aReqTE [97, 98, 99] := by
  have h : requestBodySize aReqTE = some .chunked := by decide
  simp [BodyConsistent, h]
-- the conclusions on these instances (request with Content-Length; chunked request with a folded value; stream of both)
example : Ref.parseRequest (forwardRequest aReqTE [97, 98, 99] ++ [88]) =
    .ok (⟨aPOST, [47, 120], sHttp11, [(sTE, sChunked), ([88], [97, 32, 98])], [97, 98, 99], .chunked⟩, [88]) := by rfl
example : (Ref.parseRequests 100 ([forwardRequest aReq [97, 98, 99], forwardRequest aReqTE [100]].flatten)).2 = none ∧
    (Ref.parseRequests 100 ([forwardRequest aReq [97, 98, 99], forwardRequest aReqTE [100]].flatten)).1.map
      (fun m => (m.a, m.b, m.body)) = [(aGET, [47], [97, 98, 99]), (aPOST, [47, 120], [100])] := by decide +kernel
-- relay_response_roundtrip(_full): validated, head ok, not CONNECT-2xx, consistent body (Content-Length; HEAD; until close)
example : validateHeaders (.response aResp.status) aResp.version aResp.reason aResp.fields = true := by decide
example : RespHeadOk aResp := by
  refine ⟨by decide, by decide, by unfold cleanLine; decide, by decide, ?_⟩
  intro f hf; simp [aResp] at hf; subst hf; exact ⟨by unfold cleanLine; decide, by decide⟩
example : ¬(asciiUpper aGET = sCONNECT ∧ 200 ≤ aResp.status ∧ aResp.status ≤ 299) := by decide
example : RespBodyConsistent aGET aResp [97, 98, 99] [88] false := by
  have h : responseBodySize aGET aResp = some (.len 3) := by decide
  simp [RespBodyConsistent, h]
example : RespBodyConsistent [72, 69, 65, 68] aResp [] [88] false := by          -- HEAD: no body although Content-Length: 3
  have h : responseBodySize [72, 69, 65, 68] aResp = some (.len 0) := by decide
  simp [RespBodyConsistent, h]
example : RespBodyConsistent aGET aRespEof [97, 98] [] true := by                -- no framing header: read until close
  have h : responseBodySize aGET aRespEof = some .untilEof := by decide
  simp [RespBodyConsistent, h]
example : Ref.parseResponse aGET false (relayResponse aGET aResp [97, 98, 99] ++ [88]) =
    .ok (⟨sHttp11, [50, 48, 48], [79, 75], [(sCL, [51])], [97, 98, 99], .cl 3⟩, [88]) := by rfl
example : Ref.parseResponse aGET true (relayResponse aGET aRespEof [97, 98] ++ []) =
    .ok (⟨sHttp11, [50, 48, 48], [79, 75], [([88], [121])], [97, 98], .eof⟩, []) := by rfl
-- raw_ambiguous_rejected / lines_ambiguous_rejected: the strict reader calls the bytes ambiguous, mitmproxy's readers read a head, validate_headers refuses it
example : Ref.parseRequest aAmbReq = .error (.ambiguous Ref.cClTe) := by rfl
example : (match extractLines aAmbReq with
    | .lines ls _ => (readRequestHead (fun _ _ => true) ls).map fun r => validateHeaders .request r.version [] r.fields
    | _ => none) = some false := by decide +kernel
-- raw_ambiguous_rejected_response
example : Ref.parseResponse aGET false aAmbResp = .error (.ambiguous Ref.cClConflict) := by rfl
example : (match extractLines aAmbResp with
    | .lines ls _ => (readResponseHead ls).map fun r => validateHeaders (.response r.status) r.version r.reason r.fields
    | _ => none) = some false := by decide +kernel

end MitmVerif.Props.C01
