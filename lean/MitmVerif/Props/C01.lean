/-
  C01 — HTTP/1 forwarding is framing-consistent: property theorems.
  Model: MitmVerif/Model/C01.lean (mitmproxy's functions + `Ref`, the strict RFC 9112 reader used as SPEC).
-/
import MitmVerif.Lemmas.C01
namespace MitmVerif.Props.C01
open MitmVerif MitmVerif.C01

/-- what the proxy decides for the body (`expected_http_body_size`) -/
def proxySize (kind : Kind) (reqMethod : Bytes) (fs : List Field) : Option BodySize :=
  match kind with
  | .request => sizeFromHeaders false fs
  | .response st => responseBodySize reqMethod ⟨[], st, [], fs⟩

/-- the proxy's framing decision and the reference reader's denote the same body delimitation -/
def Agree : BodySize → Ref.Framing → Prop
  | .len n, .cl m => n = m
  | .len n, .none => n = 0
  | .chunked, .chunked => True
  | .untilEof, .eof => True
  | _, _ => False

private theorem valueOk_last : ∀ {v : Bytes}, valueOk v = true → v.getLast? ≠ some 10
  | [], _ => by simp
  | [c], h => by
    simp only [valueOk] at h
    intro hc; simp at hc; subst hc; simp at h
  | c :: d :: rest, h => by
    have : valueOk (d :: rest) = true := by
      rw [valueOk] at h
      by_cases h0 : c = 0
      · simp [h0] at h
      · by_cases h13 : c = 13
        · simp [h13] at h; exact h.2
        · by_cases h10 : c = 10
          · simp [h10] at h; exact h.2
          · simpa [h0, h13, h10] using h
    have ih := valueOk_last this
    simpa [List.getLast?_cons_cons] using ih

private theorem dropFinalLF_id {v : Bytes} (h : v.getLast? ≠ some 10) : dropFinalLF v = v := by
  unfold dropFinalLF
  cases hl : v.getLast? with
  | none => rfl
  | some c =>
    have : c ≠ 10 := fun e => h (by rw [hl, e])
    simp [this]

private theorem digit_not_ows (c : UInt8) (h : isDigit c = true) : (!isOws c) = true := by
  have hh : ∀ n : Fin 256, isDigit (UInt8.ofNat n.val) = true → (!isOws (UInt8.ofNat n.val)) = true := by decide +kernel
  have := hh ⟨c.toNat, UInt8.toNat_lt c⟩
  simpa using this (by simpa using h)

private theorem digit_ne_comma (c : UInt8) (h : isDigit c = true) : c ≠ 44 := by
  intro e; subst e; revert h; decide

/-- a value accepted by `parse_content_length` (without the `$` quirk) is 1*DIGIT and denotes the same number -/
private theorem clDigits_spec {c : Bytes} {n : Nat} (h : clDigits c = some n) :
    c ≠ [] ∧ c.all isDigit = true ∧ n = natOfDigits c := by
  unfold clDigits at h
  split at h
  · simp at h
  · simp at h; subst h; decide
  · rename_i x rest _ _
    split at h
    · rename_i hc
      simp at h hc
      refine ⟨by simp, ?_, h.symm⟩
      simp [hc.1.1]; exact hc.2
    · simp at h

private theorem cl_items_single {c : Bytes} (hne : c ≠ []) (hd : c.all isDigit = true) :
    Ref.clItems [c] = [c] ∧ Ref.allDigits c = true := by
  have hno : (44 : UInt8) ∉ c := by
    intro hm
    have := List.all_eq_true.mp hd 44 hm
    exact digit_ne_comma 44 this rfl
  have hs : stripBy isOws c = c := stripBy_all_false (by
    apply List.all_eq_true.mpr
    intro x hx
    exact digit_not_ows x (List.all_eq_true.mp hd x hx))
  constructor
  · simp [Ref.clItems, splitOn_no_sep hno, hs]
  · simp [Ref.allDigits, hd]; cases c <;> simp_all

/-- what `validate_headers` guarantees, as a case split -/
private theorem validate_cases {kind : Kind} {version reason : Bytes} {fs : List Field}
    (hv : validateHeaders kind version reason fs = true) :
    (∀ f ∈ fs, nameOk f.1 = true ∧ valueOk f.2 = true) ∧
    ((∃ t cls w, getAll fs sTE = [t] ∧ getAll fs sCL = [] ∧ version = sHttp11 ∧ parseTE t = some (cls, w) ∧
        (match kind with
         | .request => cls = .chunkedFinal
         | .response st => ¬((100 ≤ st ∧ st ≤ 199) ∨ st = 204))) ∨
     (∃ c n, getAll fs sTE = [] ∧ getAll fs sCL = [c] ∧ parseCL c = some n) ∨
     (getAll fs sTE = [] ∧ getAll fs sCL = [])) := by
  unfold validateHeaders at hv
  simp only [Bool.and_eq_true] at hv
  obtain ⟨⟨_, hall⟩, hrest⟩ := hv
  refine ⟨fun f hf => by simpa using List.all_eq_true.mp hall f hf, ?_⟩
  generalize getAll fs sTE = te at hrest
  generalize getAll fs sCL = cl at hrest
  cases te with
  | nil =>
    cases cl with
    | nil => exact Or.inr (Or.inr ⟨rfl, rfl⟩)
    | cons c more =>
      simp at hrest
      obtain ⟨hm, hp⟩ := hrest
      subst hm
      obtain ⟨n, hn⟩ := Option.isSome_iff_exists.mp hp
      exact Or.inr (Or.inl ⟨c, n, rfl, rfl, hn⟩)
  | cons t more =>
    cases cl with
    | cons c cs => simp at hrest
    | nil =>
      simp at hrest
      obtain ⟨⟨⟨hm, hver⟩, hk⟩, hp⟩ := hrest
      subst hm
      left
      cases hpt : parseTE t with
      | none => simp [hpt] at hp
      | some r =>
        obtain ⟨cls, w⟩ := r
        refine ⟨t, cls, w, rfl, rfl, hver, hpt, ?_⟩
        cases kind with
        | request =>
          cases cls with
          | chunkedFinal => rfl
          | other => simp [hpt] at hp
        | response st =>
          simp at hk
          intro hh
          rcases hh with ⟨h1, h2⟩ | h2
          · omega
          · exact hk.2 h2

private theorem getJoined_single {fs : List Field} {n v : Bytes} (h : getAll fs n = [v]) : getJoined fs n = some v := by
  simp [getJoined, h, joinWith]

private theorem getJoined_none {fs : List Field} {n : Bytes} (h : getAll fs n = []) : getJoined fs n = none := by
  simp [getJoined, h]

private theorem parseTE_nonempty {t w : Bytes} {cls : TE} (h : parseTE t = some (cls, w)) : t ≠ [] := by
  intro e; subst e
  have : parseTE [] = none := by decide
  rw [this] at h; simp at h

private theorem codingsOf_single (t : Bytes) : Ref.codingsOf [t] = refCodingsOf t := by
  simp [Ref.codingsOf, refCodingsOf]

private theorem te_eval_chunked : ∀ w ∈ Gen.C01.teChunked,
    (splitOn 44 w).getLast? = some sChunked ∧
    Ref.teErrorC (splitOn 44 w) sHttp11 .request = none ∧
    ∀ st, Ref.teErrorC (splitOn 44 w) sHttp11 (.response st) =
      if (100 ≤ st && st ≤ 199) || st = 204 then some Ref.cTe1xx204 else none := by
  intro w hw
  simp [Gen.C01.teChunked] at hw
  rcases hw with rfl | rfl | rfl | rfl <;>
    refine ⟨by decide, by decide, fun st => ?_⟩ <;>
    (unfold Ref.teErrorC; rw [if_neg (by decide), if_neg (by decide), if_neg (by decide)])

private theorem te_eval_other : ∀ w ∈ Gen.C01.teOther,
    (splitOn 44 w).getLast? ≠ some sChunked ∧
    ∀ st, Ref.teErrorC (splitOn 44 w) sHttp11 (.response st) =
      if (100 ≤ st && st ≤ 199) || st = 204 then some Ref.cTe1xx204 else none := by
  intro w hw
  simp [Gen.C01.teOther] at hw
  rcases hw with rfl | rfl | rfl | rfl <;>
    refine ⟨by decide, fun st => ?_⟩ <;>
    (unfold Ref.teErrorC; rw [if_neg (by decide), if_neg (by decide), if_neg (by decide)])

private theorem noBody_request (m : Bytes) : Ref.noBody .request m = false := rfl

private theorem proxy_nobody {st : Nat} {m : Bytes} (fs : List Field)
    (hnb : Ref.noBody (.response st) m = true) : proxySize (.response st) m fs = some (.len 0) := by
  simp only [Ref.noBody, Bool.or_eq_true, Bool.and_eq_true, decide_eq_true_eq, noBodyStatus] at hnb
  simp only [proxySize, responseBodySize]
  rcases hnb with (h | h) | h
  · simp [h]
  · split
    · rfl
    · split
      · rfl
      · split
        · rfl
        · rename_i h1 h2 h3
          exfalso
          rcases h with (h | h) | h
          · exact h2 (by simpa using h)
          · exact h3 (Or.inl (by simpa using h))
          · exact h3 (Or.inr (by simpa using h))
  · split
    · rfl
    · split
      · rfl
      · split
        · rfl
        · simp [h.1.2, h.2, h.1.1]

private theorem proxy_body {st : Nat} {m : Bytes} (fs : List Field)
    (hnb' : Ref.noBody (.response st) m = false) : proxySize (.response st) m fs = sizeFromHeaders true fs := by
  simp only [Ref.noBody, noBodyStatus, Bool.or_eq_false_iff, Bool.and_eq_false_iff, decide_eq_false_iff_not] at hnb'
  obtain ⟨⟨h1, h2⟩, h3⟩ := hnb'
  simp only [proxySize, responseBodySize]
  rw [if_neg h1]
  have h2a : ¬(100 ≤ st ∧ st ≤ 199) := by
    intro hh; have := h2.1.1; simp [hh.1, hh.2] at this
  have h2b : ¬(st = 204 ∨ st = 304) := by
    intro hh; rcases hh with hh | hh
    · exact h2.1.2 hh
    · exact h2.2 hh
  rw [if_neg h2a, if_neg h2b]
  split
  · rename_i hh
    exfalso
    rcases h3 with (h3 | h3) | h3
    · exact h3 hh.2.2
    · omega
    · omega
  · rfl

private theorem getAll_mem {fs : List Field} {n c : Bytes} (h : c ∈ getAll fs n) : ∃ f ∈ fs, f.2 = c := by
  simp only [getAll, List.mem_map, List.mem_filter] at h
  obtain ⟨f, ⟨hf, _⟩, rfl⟩ := h
  exact ⟨f, hf, rfl⟩

/-- **Framing agreement** (requests and responses): for every field list that `validate_headers` accepts, the strict
    reference reader does not find the framing ambiguous, and it delimits the body exactly as
    `expected_http_body_size` does.  `ambiguous_rejected` is the contrapositive. -/
theorem framing_agrees (kind : Kind) (version reason reqMethod : Bytes) (fs : List Field)
    (hv : validateHeaders kind version reason fs = true) :
    ∃ sz fr, proxySize kind reqMethod fs = some sz ∧ Ref.framing fs version kind reqMethod = .ok fr ∧ Agree sz fr := by
  obtain ⟨hall, hc⟩ := validate_cases hv
  rcases hc with ⟨t, cls, w, hte, hcl, hver, hpt, hk⟩ | ⟨c, n, hte, hcl, hpc⟩ | ⟨hte, hcl⟩
  · -- Transfer-Encoding only
    obtain ⟨hcod, hmem⟩ := parseTE_codings hpt
    have htne := parseTE_nonempty hpt
    have hj := getJoined_single hte
    subst hver
    have hfr : ∀ k, Ref.framing fs sHttp11 k reqMethod =
        match Ref.teErrorC (splitOn 44 w) sHttp11 k with
        | some c => .error (.ambiguous c)
        | none => if Ref.noBody k reqMethod then .ok .none
                  else if (splitOn 44 w).getLast? = some sChunked then .ok .chunked else .ok .eof := by
      intro k
      have hcl0 : Ref.clError [] = none := by decide
      unfold Ref.framing Ref.teError
      simp only [hte, hcl, List.isEmpty_cons, List.isEmpty_nil, Bool.not_false, Bool.not_true, Bool.and_false,
        Bool.false_eq_true, ↓reduceIte, codingsOf_single, hcod, hcl0]
      rfl
    rw [hfr]
    cases kind with
    | request =>
      subst hk
      rcases hmem with ⟨_, hm⟩ | ⟨h, _⟩
      · obtain ⟨hl, he, _⟩ := te_eval_chunked w hm
        refine ⟨.chunked, .chunked, ?_, ?_, trivial⟩
        · simp [proxySize, sizeFromHeaders, hj, htne, hpt]
        · simp [he, noBody_request, hl]
      · cases h
    | response st =>
      have hst : ((100 ≤ st && st ≤ 199) || st = 204) = false := by
        simp only [Bool.or_eq_false_iff, Bool.and_eq_false_iff]
        constructor
        · by_cases h1 : 100 ≤ st
          · by_cases h2 : st ≤ 199
            · exact absurd (Or.inl ⟨h1, h2⟩) hk
            · right; simpa using h2
          · left; simpa using h1
        · simpa using fun h => hk (Or.inr h)
      have hte_none : Ref.teErrorC (splitOn 44 w) sHttp11 (.response st) = none := by
        rcases hmem with ⟨_, hm⟩ | ⟨_, hm⟩
        · rw [(te_eval_chunked w hm).2.2 st, hst]; rfl
        · rw [(te_eval_other w hm).2 st, hst]; rfl
      simp only [hte_none]
      by_cases hnb : Ref.noBody (.response st) reqMethod = true
      · -- HEAD / 304 / CONNECT-2xx: both sides say "no body"
        have hp := proxy_nobody fs hnb
        exact ⟨.len 0, .none, hp, by simp [hnb], rfl⟩
      · have hnb' : Ref.noBody (.response st) reqMethod = false := by simpa using hnb
        have hshort := proxy_body fs hnb'
        rcases hmem with ⟨hc, hm⟩ | ⟨hc, hm⟩
        · subst hc
          refine ⟨.chunked, .chunked, ?_, ?_, trivial⟩
          · rw [hshort]; simp [sizeFromHeaders, hj, htne, hpt]
          · simp [hnb', (te_eval_chunked w hm).1]
        · subst hc
          refine ⟨.untilEof, .eof, ?_, ?_, trivial⟩
          · rw [hshort]; simp [sizeFromHeaders, hj, htne, hpt]
          · simp [hnb', (te_eval_other w hm).1]
  · -- Content-Length only
    have hcv : valueOk c = true := by
      obtain ⟨f, hf, rfl⟩ := getAll_mem (n := sCL) (by rw [hcl]; simp : c ∈ getAll fs sCL)
      exact (hall f hf).2
    have hpc' : clDigits c = some n := by
      have := dropFinalLF_id (valueOk_last hcv)
      simpa [parseCL, this] using hpc
    obtain ⟨hne, hd, hn⟩ := clDigits_spec hpc'
    obtain ⟨hitems, hdig⟩ := cl_items_single hne hd
    have hcle : Ref.clError [c] = none := by
      simp [Ref.clError, hitems, hdig]
    have hfr : Ref.framing fs version kind reqMethod =
        if Ref.noBody kind reqMethod then .ok .none else .ok (.cl n) := by
      unfold Ref.framing Ref.teError
      simp [hte, hcl, hcle, hitems, hn]
    have hsz : ∀ b, sizeFromHeaders b fs = some (.len n) := by
      intro b
      simp [sizeFromHeaders, getJoined_none hte, getJoined_single hcl, hne, hpc]
    rw [hfr]
    cases kind with
    | request => exact ⟨.len n, .cl n, by simp [proxySize, hsz], by simp [noBody_request], rfl⟩
    | response st =>
      by_cases hnb : Ref.noBody (.response st) reqMethod = true
      · exact ⟨.len 0, .none, proxy_nobody fs hnb, by simp [hnb], rfl⟩
      · have hnb' : Ref.noBody (.response st) reqMethod = false := by simpa using hnb
        exact ⟨.len n, .cl n, by rw [proxy_body fs hnb', hsz], by simp [hnb'], rfl⟩
  · -- neither
    clear hv hall
    have hfr : Ref.framing fs version kind reqMethod =
        if Ref.noBody kind reqMethod then .ok .none
        else match kind with | .request => .ok .none | .response _ => .ok .eof := by
      have hcl0 : Ref.clError [] = none := by decide
      unfold Ref.framing Ref.teError
      simp [hte, hcl, hcl0, Ref.clItems]
      cases kind <;> rfl
    rw [hfr]
    cases kind with
    | request =>
      exact ⟨.len 0, .none, by simp [proxySize, sizeFromHeaders, getJoined_none hte, getJoined_none hcl], by simp [noBody_request], rfl⟩
    | response st =>
      by_cases hnb : Ref.noBody (.response st) reqMethod = true
      · exact ⟨.len 0, .none, proxy_nobody fs hnb, by simp [hnb], rfl⟩
      · have hnb' : Ref.noBody (.response st) reqMethod = false := by simpa using hnb
        refine ⟨.untilEof, .eof, ?_, by simp [hnb'], trivial⟩
        rw [proxy_body fs hnb']
        simp [sizeFromHeaders, getJoined_none hte, getJoined_none hcl]

/-- **ambiguous_rejected** (requests and responses): if the reference reader finds the framing of a field list ambiguous
    (Content-Length with Transfer-Encoding, differing / malformed Content-Length, unknown or misplaced transfer coding,
    non-chunked request coding, Transfer-Encoding on HTTP/1.0 or on 1xx/204), `validate_headers` rejects the message. -/
theorem ambiguous_rejected (kind : Kind) (version reason reqMethod : Bytes) (fs : List Field) (cls : Nat)
    (h : Ref.framing fs version kind reqMethod = .error (.ambiguous cls)) :
    validateHeaders kind version reason fs = false := by
  cases hv : validateHeaders kind version reason fs with
  | false => rfl
  | true =>
    obtain ⟨_, fr, _, hfr, _⟩ := framing_agrees kind version reason reqMethod fs hv
    rw [hfr] at h; cases h

/-- invalid field names are rejected as well (the remaining ambiguity class of the reference reader) -/
theorem bad_field_name_rejected (kind : Kind) (version reason : Bytes) (fs : List Field) (f : Field)
    (hf : f ∈ fs) (hn : nameOk f.1 = false) : validateHeaders kind version reason fs = false := by
  cases hv : validateHeaders kind version reason fs with
  | false => rfl
  | true =>
    have := (validate_cases hv).1 f hf
    rw [hn] at this; simp at this

/-! non-vacuity: the hypotheses are satisfiable, and the functions are not constant -/
example : validateHeaders .request sHttp11 [] [(sTE, sChunked)] = true := by decide
example : validateHeaders (.response 200) sHttp11 [79, 75] [(sCL, [52, 50])] = true := by decide
example : validateHeaders .request sHttp11 [] [(sTE, sChunked), (sCL, [53])] = false := by decide
example : Ref.framing [(sTE, sChunked), (sCL, [53])] sHttp11 .request [] = .error (.ambiguous Ref.cClTe) := by rfl
example : Ref.framing [(sCL, [53]), (sCL, [54])] sHttp11 .request [] = .error (.ambiguous Ref.cClConflict) := by rfl
example : Ref.framing [(sTE, [103, 122, 105, 112])] sHttp11 .request [] = .error (.ambiguous Ref.cTeReqNotChunked) := by rfl


/-! ### Round trip of forwarded messages — full statements (NOT proved in Lean, see level_note)

The statements below are what DESIGN §5 C01 asks for.  They are kept as definitions so that the obligation stays visible;
they are not discharged (they need the inverse of `hexDigits`/`assembleFields` against `Ref.headLines`/`Ref.chunkedBody`).
On the real code they are checked by the direct oracle of harness/c01.py (independent Python reference parser on the bytes
written by the real layer) and, for the model, by the `fwdreq`/`fwdresp` + `refreqs`/`refresp` correspondence. -/

/-- a body is consistent with the request's headers (what `set_content` maintains): chunked → any body; otherwise the
    Content-Length value is the body length, and no Content-Length means no body -/
def BodyConsistent (r : ReqHead) (body : Bytes) : Prop :=
  match requestBodySize r with
  | some .chunked => True
  | some (.len n) => body.length = n
  | _ => False

def RequestLineOk (r : ReqHead) : Prop :=
  Ref.noWs r.method = true ∧ Ref.noWs (requestTarget r) = true ∧ versionOk r.version = true ∧
  (∀ f ∈ r.fields, (10 : UInt8) ∉ f.1)

/-- forward_request_roundtrip / edit_stable: for every request the proxy would forward (validate_headers true — whether the
    fields come from the wire or from an addon edit) and every consistent body, the reference reader reads the written
    bytes back as exactly this request, followed by whatever comes next -/
def ForwardRequestRoundtrip : Prop :=
  ∀ (r : ReqHead) (body rest : Bytes),
    validateHeaders .request r.version [] r.fields = true → RequestLineOk r → BodyConsistent r body →
    ∃ fr, Ref.parseRequest (forwardRequest r body ++ rest) =
      .ok (⟨r.method, requestTarget r, r.version, r.fields.map (fun f => (f.1, Ref.unfold f.2)), body, fr⟩, rest)

/-- forward_stream_roundtrip: the pipelined version (induction over the list of messages) -/
def ForwardStreamRoundtrip : Prop :=
  ∀ (ms : List (ReqHead × Bytes)),
    (∀ m ∈ ms, validateHeaders .request m.1.version [] m.1.fields = true ∧ RequestLineOk m.1 ∧ BodyConsistent m.1 m.2) →
    let wire := (ms.map fun m => forwardRequest m.1 m.2).flatten
    (Ref.parseRequests (wire.length + 1) wire).2 = none ∧
    (Ref.parseRequests (wire.length + 1) wire).1.map (fun m => (m.a, m.b, m.body)) =
      ms.map (fun m => (m.1.method, requestTarget m.1, m.2))

/-- instances (the statement holds on concrete messages, and is not vacuous) -/
example : Ref.parseRequest (forwardRequest ⟨[71,69,84], [], [], [47], sHttp11, [([72,111,115,116], [104]), (sCL, [51])]⟩ [97,98,99] ++ [88]) =
    .ok (⟨[71,69,84], [47], sHttp11, [([72,111,115,116], [104]), (sCL, [51])], [97,98,99], .cl 3⟩, [88]) := by rfl
example : Ref.parseRequest (forwardRequest ⟨[80,85,84], [], [], [47], sHttp11, [(sTE, sChunked), ([88], [97, 13, 10, 32, 98])]⟩ [97,98,99] ++ [88]) =
    .ok (⟨[80,85,84], [47], sHttp11, [(sTE, sChunked), ([88], [97, 32, 98])], [97,98,99], .chunked⟩, [88]) := by rfl

end MitmVerif.Props.C01
