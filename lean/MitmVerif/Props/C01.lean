import MitmVerif.Model.C01
namespace MitmVerif.Props.C01
open MitmVerif MitmVerif.C01

theorem parseCL_zero : parseCL [48] = some 0 := by decide
end MitmVerif.Props.C01
