/-
  C02 — independence of TCP segmentation: property theorems about Model/C02.lean.
-/
import MitmVerif.Model.C02
namespace MitmVerif.Props.C02
open MitmVerif MitmVerif.C01 MitmVerif.C02

/-! ### h11 `maybe_extract_lines` decides on a prefix -/

private theorem blankAt_append {b : Bytes} {n : Nat} (x : Bytes) (h : blankAt b = some n) : blankAt (b ++ x) = some n := by
  match b, h with
  | [a, c], h =>
    simp only [blankAt] at h
    split at h
    · simp [blankAt, *]
    · split at h <;> simp at h
  | a :: c :: d :: rest, h =>
    simpa [blankAt] using h

private theorem blankAt_long {b : Bytes} (x : Bytes) (h : 3 ≤ b.length) : blankAt (b ++ x) = blankAt b := by
  match b, h with
  | a :: c :: d :: rest, _ => simp [blankAt]

private theorem blankAt_ge {b : Bytes} {n : Nat} (h : blankAt b = some n) : 2 ≤ n ∧ n ≤ b.length := by
  match b, h with
  | [a, c], h =>
    simp only [blankAt] at h
    split at h
    · simp at h; subst h; simp
    · split at h <;> simp at h
  | a :: c :: d :: rest, h =>
    simp only [blankAt] at h
    split at h
    · simp at h; subst h; simp
    · split at h
      · split at h <;> simp at h
        subst h; simp
      · simp at h

private theorem findBlank_bounds : ∀ {b : Bytes} {i : Nat}, findBlank b = some i → 2 ≤ i ∧ i ≤ b.length
  | [], _, h => by simp [findBlank] at h
  | c :: rest, i, h => by
    simp only [findBlank] at h
    split at h
    · rename_i n hb
      simp at h; subst h
      exact blankAt_ge hb
    · cases hr : findBlank rest with
      | none => simp [hr] at h
      | some j =>
        simp [hr] at h; subst h
        have := findBlank_bounds hr
        simp; omega

private theorem findBlank_append : ∀ {b : Bytes} {i : Nat} (x : Bytes), findBlank b = some i → findBlank (b ++ x) = some i
  | [], _, _, h => by simp [findBlank] at h
  | c :: rest, i, x, h => by
    simp only [findBlank] at h
    simp only [List.cons_append, findBlank]
    split at h
    · rename_i n hb
      have := blankAt_append x hb
      simp only [List.cons_append] at this
      rw [this]; exact h
    · rename_i hb
      cases hr : findBlank rest with
      | none => simp [hr] at h
      | some j =>
        simp [hr] at h; subst h
        have hlen := (findBlank_bounds hr).2
        have h2 := (findBlank_bounds hr).1
        have : blankAt (c :: rest ++ x) = blankAt (c :: rest) := blankAt_long x (by simp; omega)
        simp only [List.cons_append] at this
        rw [this, hb, findBlank_append x hr]
        rfl

theorem extractLines_blank_append {b r : Bytes} (x : Bytes) (h : extractLines b = .blank r) :
    extractLines (b ++ x) = .blank (r ++ x) := by
  cases b with
  | nil => simp [extractLines] at h
  | cons a rest =>
    simp only [extractLines] at h
    simp only [List.cons_append, extractLines]
    split at h
    · rename_i ha; simp at h; subst h; simp [ha]
    · rename_i ha
      split at h
      · rename_i hb
        simp at h; subst h
        cases rest with
        | nil => simp at hb
        | cons d ds => simp at hb ⊢; simp [ha, hb]
      · split at h <;> simp at h

theorem extractLines_lines_append {b r : Bytes} {ls : List Bytes} (x : Bytes) (h : extractLines b = .lines ls r) :
    extractLines (b ++ x) = .lines ls (r ++ x) := by
  cases b with
  | nil => simp [extractLines] at h
  | cons a rest =>
    simp only [extractLines] at h
    simp only [List.cons_append, extractLines]
    split at h
    · simp at h
    · rename_i ha
      split at h
      · simp at h
      · rename_i hb
        cases hf : findBlank (a :: rest) with
        | none => simp [hf] at h
        | some idx =>
          simp [hf] at h
          obtain ⟨h1, h2⟩ := h
          have hbd := findBlank_bounds hf
          have hrest : rest ≠ [] := by
            intro e; subst e; simp at hbd; omega
          have hhead : (rest ++ x).head? = rest.head? := by
            cases rest with
            | nil => exact absurd rfl hrest
            | cons d ds => rfl
          have hfa := findBlank_append x hf
          simp only [List.cons_append] at hfa
          rw [if_neg ha, hhead, if_neg hb, hfa]
          have ht : List.take idx (a :: (rest ++ x)) = List.take idx (a :: rest) := by
            rw [← List.cons_append, List.take_append_of_le_length hbd.2]
          have hd : List.drop idx (a :: (rest ++ x)) = List.drop idx (a :: rest) ++ x := by
            rw [← List.cons_append, List.drop_append_of_le_length hbd.2]
          simp only [ht, hd, h1, h2]

/-! ### h11 `maybe_extract_next_line` decides on a prefix -/

private theorem findCrlf_bounds : ∀ {b : Bytes} {i : Nat}, findCrlf b = some i → 2 ≤ i ∧ i ≤ b.length
  | [], _, h => by simp [findCrlf] at h
  | [_], _, h => by simp [findCrlf] at h
  | a :: c :: rest, i, h => by
    simp only [findCrlf] at h
    split at h
    · simp at h; subst h; simp
    · cases hr : findCrlf (c :: rest) with
      | none => simp [hr] at h
      | some j =>
        simp [hr] at h; subst h
        have := findCrlf_bounds hr
        simp at this ⊢; omega

private theorem findCrlf_append : ∀ {b : Bytes} {i : Nat} (x : Bytes), findCrlf b = some i → findCrlf (b ++ x) = some i
  | [], _, _, h => by simp [findCrlf] at h
  | [_], _, _, h => by simp [findCrlf] at h
  | a :: c :: rest, i, x, h => by
    simp only [findCrlf] at h
    simp only [List.cons_append, findCrlf]
    split at h
    · rename_i hc; simp [hc] at h ⊢; exact h
    · rename_i hc
      cases hr : findCrlf (c :: rest) with
      | none => simp [hr] at h
      | some j =>
        simp [hr] at h; subst h
        have := findCrlf_append x hr
        simp only [List.cons_append] at this
        simp [hc, this]

/-! ### every step consumes input; the fuel of `drain` suffices -/

variable (sizeOf : List Bytes → Option Size)

private theorem extract_len {b r : Bytes} : (extractLines b = .blank r → r.length < b.length) ∧
    (∀ ls, extractLines b = .lines ls r → r.length < b.length) := by
  cases b with
  | nil => simp [extractLines]
  | cons a rest =>
    simp only [extractLines]
    constructor
    · intro h
      split at h
      · simp at h; subst h; simp
      · split at h
        · simp at h; subst h
          cases rest <;> simp; omega
        · split at h <;> simp at h
    · intro ls h
      split at h
      · simp at h
      · split at h
        · simp at h
        · cases hf : findBlank (a :: rest) with
          | none => simp [hf] at h
          | some idx =>
            simp [hf] at h
            have hbd := findBlank_bounds hf
            rw [← h.2]
            simp at hbd ⊢; omega

theorem step_len {p p' : Phase} {b r : Bytes} {o : List Out} (h : step sizeOf p b = some (o, p', r)) :
    r.length < b.length := by
  cases p with
  | head =>
    simp only [step] at h
    cases he : extractLines b with
    | more => simp [he] at h
    | blank rest =>
      simp [he] at h; rw [← h.2.2]; exact extract_len.1 he
    | lines ls rest =>
      simp only [he] at h
      have := (extract_len (b := b) (r := rest)).2 ls he
      split at h <;> simp at h <;> (rw [← h.2.2]; exact this)
  | cl m acc hd =>
    simp only [step] at h
    split at h
    · simp at h
    · rename_i hne
      have : 0 < b.length := by cases b <;> simp at hne ⊢
      split at h
      · simp at h; rw [← h.2.2]; simp; omega
      · simp at h; rw [h.2.2]; simpa using this
  | untilEof acc hd =>
    simp only [step] at h
    split at h
    · simp at h
    · rename_i hne
      simp at h; rw [h.2.2]
      cases b <;> simp at hne ⊢
  | chunkSize acc hd =>
    simp only [step] at h
    cases hf : findCrlf b with
    | none => simp [hf] at h
    | some idx =>
      have hb := findCrlf_bounds hf
      simp only [hf] at h
      split at h <;> simp at h <;> (obtain ⟨-, -, hr⟩ := h; subst hr; simp; omega)
  | chunkData m acc hd =>
    simp only [step] at h
    split at h
    · simp at h
    · rename_i hne
      have : 0 < b.length := by cases b <;> simp at hne ⊢
      split at h
      · simp at h; obtain ⟨-, -, hr⟩ := h; subst hr; simp; omega
      · simp at h; obtain ⟨-, -, hr⟩ := h; subst hr; simpa using this
  | chunkDiscard e es acc hd =>
    simp only [step] at h
    cases b with
    | nil => simp at h
    | cons c rest =>
      simp only at h
      split at h
      · simp at h; obtain ⟨-, -, hr⟩ := h; subst hr; simp
      · split at h <;> simp at h <;> (obtain ⟨-, -, hr⟩ := h; subst hr; simp)
  | chunkTrailer acc hd =>
    simp only [step] at h
    cases he : extractLines b with
    | more => simp [he] at h
    | blank rest =>
      simp [he] at h; obtain ⟨-, -, hr⟩ := h; subst hr; exact extract_len.1 he
    | lines ls rest =>
      simp [he] at h
      have := (extract_len (b := b) (r := rest)).2 ls he
      obtain ⟨-, -, hr⟩ := h; subst hr; simp; omega
  | wait => simp [step] at h
  | closed =>
    simp only [step] at h
    split at h
    · simp at h
    · rename_i hne
      simp at h; obtain ⟨-, -, hr⟩ := h; subst hr
      cases b <;> simp at hne ⊢

theorem step_nil (p : Phase) : step sizeOf p [] = none := by
  cases p <;> simp [step, extractLines, findCrlf]

private theorem drainF_fuel : ∀ (f g : Nat) (p : Phase) (b : Bytes), b.length ≤ f → b.length ≤ g →
    drainF sizeOf f p b = drainF sizeOf g p b
  | 0, g, p, b, hf, _ => by
    have : b = [] := by cases b <;> simp at hf ⊢
    subst this
    cases g with
    | zero => rfl
    | succ g => simp [drainF, step_nil]
  | f + 1, 0, p, b, _, hg => by
    have : b = [] := by cases b <;> simp at hg ⊢
    subst this
    simp [drainF, step_nil]
  | f + 1, g + 1, p, b, hf, hg => by
    simp only [drainF]
    cases hs : step sizeOf p b with
    | none => rfl
    | some t =>
      obtain ⟨o, p', r⟩ := t
      have := step_len sizeOf hs
      simp only
      rw [drainF_fuel f g p' r (by omega) (by omega)]

/-- one unfolding of the loop -/
theorem drain_unfold (p : Phase) (b : Bytes) :
    drain sizeOf p b =
      match step sizeOf p b with
      | none => ([], p, b)
      | some (o, p', r) => (o ++ (drain sizeOf p' r).1, (drain sizeOf p' r).2.1, (drain sizeOf p' r).2.2) := by
  unfold drain
  cases b with
  | nil => simp [drainF, step_nil]
  | cons c rest =>
    simp only [List.length_cons, drainF]
    cases hs : step sizeOf p (c :: rest) with
    | none => rfl
    | some t =>
      obtain ⟨o, p', r⟩ := t
      have := step_len sizeOf hs
      simp only
      rw [drainF_fuel sizeOf rest.length r.length p' r (by simp at this; omega) (Nat.le_refl _)]

/-! ### the extension property of a step, and `feed_append` -/

/-- once the connection is closed whatever is (or arrives) in the buffer is dropped -/
theorem drain_closed (x : Bytes) : drain sizeOf .closed x = ([], .closed, []) := by
  rw [drain_unfold]
  cases x with
  | nil => simp [step]
  | cons c cs =>
    simp only [step, List.isEmpty_cons, Bool.false_eq_true, ↓reduceIte]
    rw [drain_unfold]; simp [step]

/-- a step that fails the message and closes: same outcome on the longer buffer -/
private theorem error_extend {p : Phase} {b : Bytes} {o : List Out} (x : Bytes)
    (h1 : step sizeOf p (b ++ x) = some (o, .closed, [])) :
    drain sizeOf p (b ++ x) =
      (o ++ (drain sizeOf .closed ([] ++ x)).1, (drain sizeOf .closed ([] ++ x)).2.1, (drain sizeOf .closed ([] ++ x)).2.2) := by
  rw [drain_unfold, h1]
  simp [drain_closed]

/-- what a step did stays valid when more bytes follow: the loop on the longer buffer produces the step's outputs and then
    continues from the step's result with the new bytes appended -/
private theorem step_extend {p p' : Phase} {b r : Bytes} {o : List Out} (x : Bytes)
    (h : step sizeOf p b = some (o, p', r)) :
    drain sizeOf p (b ++ x) =
      (o ++ (drain sizeOf p' (r ++ x)).1, (drain sizeOf p' (r ++ x)).2.1, (drain sizeOf p' (r ++ x)).2.2) := by
  cases p with
  | head =>
    -- head extraction decides on a prefix: the same step happens on the longer buffer
    have hs : step sizeOf .head (b ++ x) = some (o, p', r ++ x) := by
      simp only [step] at h ⊢
      cases he : extractLines b with
      | more => simp [he] at h
      | blank rest =>
        simp [he] at h
        obtain ⟨rfl, rfl, rfl⟩ := h
        simp [extractLines_blank_append x he]
      | lines ls rest =>
        simp only [he] at h
        rw [extractLines_lines_append x he]
        simp only
        split at h <;> simp at h <;> (obtain ⟨rfl, rfl, rfl⟩ := h; simp [*])
    rw [drain_unfold, hs]
  | cl m acc hd =>
    simp only [step] at h
    split at h
    · simp at h
    · rename_i hne
      have hbpos : 0 < b.length := by cases b <;> simp at hne ⊢
      split at h
      · -- the message is complete within `b`: same step on the longer buffer
        rename_i hle
        simp at h
        obtain ⟨rfl, rfl, rfl⟩ := h
        rw [drain_unfold]
        have hne' : (b ++ x).isEmpty = false := by cases b <;> simp at hne ⊢
        have hle' : m + 1 ≤ (b ++ x).length := by simp; omega
        simp only [step, hne', Bool.false_eq_true, ↓reduceIte, hle']
        rw [List.take_append_of_le_length hle, List.drop_append_of_le_length hle]
      · -- all of `b` was taken and more is needed
        rename_i hgt
        simp at h
        obtain ⟨rfl, rfl, rfl⟩ := h
        simp only [List.nil_append]
        cases x with
        | nil =>
          simp only [List.append_nil]
          rw [drain_unfold (p := .cl m acc hd)]
          simp only [step, hne, Bool.false_eq_true, ↓reduceIte, hgt]
          simp [drain_unfold (b := []), step_nil]
        | cons y ys =>
          rw [drain_unfold (p := .cl m acc hd), drain_unfold (p := .cl (m - b.length) (acc ++ b) hd)]
          have hne' : (b ++ y :: ys).isEmpty = false := by cases b <;> simp
          simp only [step, hne', Bool.false_eq_true, ↓reduceIte, List.isEmpty_cons, List.length_append, List.length_cons]
          have hbm : b.length ≤ m := by omega
          by_cases hc : m + 1 ≤ b.length + (ys.length + 1)
          · have hc' : m - b.length + 1 ≤ ys.length + 1 := by omega
            simp only [hc, hc', ↓reduceIte]
            have e1 : List.take (m + 1) (b ++ y :: ys) = b ++ List.take (m - b.length + 1) (y :: ys) := by
              rw [List.take_append]
              have : m + 1 - b.length = m - b.length + 1 := by omega
              rw [List.take_of_length_le (by omega), this]
            have e2 : List.drop (m + 1) (b ++ y :: ys) = List.drop (m - b.length + 1) (y :: ys) := by
              rw [List.drop_append]
              have : m + 1 - b.length = m - b.length + 1 := by omega
              rw [List.drop_of_length_le (by omega), this]; simp
            rw [e1, e2]; simp [List.append_assoc]
          · have hc' : ¬ (m - b.length + 1 ≤ ys.length + 1) := by omega
            simp only [hc, hc', ↓reduceIte]
            have : m - (b.length + (ys.length + 1)) = m - b.length - (ys.length + 1) := by omega
            simp [this, List.append_assoc]
  | untilEof acc hd =>
    simp only [step] at h
    split at h
    · simp at h
    · rename_i hne
      simp at h
      obtain ⟨rfl, rfl, rfl⟩ := h
      simp only [List.nil_append]
      cases x with
      | nil =>
        simp only [List.append_nil]
        rw [drain_unfold (p := .untilEof acc hd)]
        simp only [step, hne, Bool.false_eq_true, ↓reduceIte]
        simp [drain_unfold (b := []), step_nil]
      | cons y ys =>
        rw [drain_unfold (p := .untilEof acc hd), drain_unfold (p := .untilEof (acc ++ b) hd)]
        have hne' : (b ++ y :: ys).isEmpty = false := by cases b <;> simp
        simp only [step, hne', Bool.false_eq_true, ↓reduceIte, List.isEmpty_cons]
        simp [drain_unfold (b := []), step_nil, List.append_assoc]
  | chunkSize acc hd =>
    simp only [step] at h
    cases hf : findCrlf b with
    | none => simp [hf] at h
    | some idx =>
      have hb := findCrlf_bounds hf
      have hfa := findCrlf_append x hf
      have ht : List.take (idx - 2) (b ++ x) = List.take (idx - 2) b := List.take_append_of_le_length (by omega)
      have hd : List.drop idx (b ++ x) = List.drop idx b ++ x := List.drop_append_of_le_length hb.2
      simp only [hf] at h
      cases hc : chunkHeader (List.take (idx - 2) b) with
      | none =>
        simp [hc] at h
        obtain ⟨rfl, rfl, rfl⟩ := h
        exact error_extend sizeOf x (by simp [step, hfa, ht, hc])
      | some n =>
        cases n with
        | zero =>
          simp [hc] at h
          obtain ⟨rfl, rfl, rfl⟩ := h
          rw [drain_unfold]; simp [step, hfa, ht, hc, hd]
        | succ n =>
          simp [hc] at h
          obtain ⟨rfl, rfl, rfl⟩ := h
          rw [drain_unfold]; simp [step, hfa, ht, hc, hd]
  | chunkData m acc hd =>
    simp only [step] at h
    split at h
    · simp at h
    · rename_i hne
      have hbpos : 0 < b.length := by cases b <;> simp at hne ⊢
      split at h
      · rename_i hle
        simp at h
        obtain ⟨rfl, rfl, rfl⟩ := h
        rw [drain_unfold]
        have hne' : (b ++ x).isEmpty = false := by cases b <;> simp at hne ⊢
        have hle' : m + 1 ≤ (b ++ x).length := by simp; omega
        simp only [step, hne', Bool.false_eq_true, ↓reduceIte, hle']
        rw [List.take_append_of_le_length hle, List.drop_append_of_le_length hle]
      · rename_i hgt
        simp at h
        obtain ⟨rfl, rfl, rfl⟩ := h
        simp only [List.nil_append]
        cases x with
        | nil =>
          simp only [List.append_nil]
          rw [drain_unfold (p := .chunkData m acc hd)]
          simp only [step, hne, Bool.false_eq_true, ↓reduceIte, hgt]
          simp [drain_unfold (b := []), step_nil]
        | cons y ys =>
          rw [drain_unfold (p := .chunkData m acc hd), drain_unfold (p := .chunkData (m - b.length) (acc ++ b) hd)]
          have hne' : (b ++ y :: ys).isEmpty = false := by cases b <;> simp
          simp only [step, hne', Bool.false_eq_true, ↓reduceIte, List.isEmpty_cons, List.length_append, List.length_cons]
          have hbm : b.length ≤ m := by omega
          by_cases hc : m + 1 ≤ b.length + (ys.length + 1)
          · have hc' : m - b.length + 1 ≤ ys.length + 1 := by omega
            simp only [hc, hc', ↓reduceIte]
            have e1 : List.take (m + 1) (b ++ y :: ys) = b ++ List.take (m - b.length + 1) (y :: ys) := by
              rw [List.take_append]
              have : m + 1 - b.length = m - b.length + 1 := by omega
              rw [List.take_of_length_le (by omega), this]
            have e2 : List.drop (m + 1) (b ++ y :: ys) = List.drop (m - b.length + 1) (y :: ys) := by
              rw [List.drop_append]
              have : m + 1 - b.length = m - b.length + 1 := by omega
              rw [List.drop_of_length_le (by omega), this]; simp
            rw [e1, e2]; simp [List.append_assoc]
          · have hc' : ¬ (m - b.length + 1 ≤ ys.length + 1) := by omega
            simp only [hc, hc', ↓reduceIte]
            have : m - (b.length + (ys.length + 1)) = m - b.length - (ys.length + 1) := by omega
            simp [this, List.append_assoc]
  | chunkDiscard e es acc hd =>
    simp only [step] at h
    cases b with
    | nil => simp at h
    | cons c rest =>
      simp only at h
      split at h
      · rename_i hce
        simp at h
        obtain ⟨rfl, rfl, rfl⟩ := h
        exact error_extend sizeOf x (by simp [step, hce])
      · rename_i hce
        split at h <;> simp at h <;> (obtain ⟨rfl, rfl, rfl⟩ := h; rw [drain_unfold]; simp [step, hce])
  | chunkTrailer acc hd =>
    simp only [step] at h
    cases he : extractLines b with
    | more => simp [he] at h
    | blank rest =>
      simp [he] at h
      obtain ⟨rfl, rfl, rfl⟩ := h
      rw [drain_unfold]; simp [step, extractLines_blank_append x he]
    | lines ls rest =>
      simp [he] at h
      obtain ⟨rfl, rfl, rfl⟩ := h
      exact error_extend sizeOf x (by simp [step, extractLines_lines_append x he])
  | wait => simp [step] at h
  | closed =>
    simp only [step] at h
    split at h
    · simp at h
    · rename_i hne
      simp at h
      obtain ⟨rfl, rfl, rfl⟩ := h
      have hne' : (b ++ x).isEmpty = false := by cases b <;> simp at hne ⊢
      exact error_extend sizeOf x (by simp [step, hne'])

/-- draining `b ++ x` = draining `b`, then draining what is left together with `x` -/
theorem drain_append : ∀ (n : Nat) (p : Phase) (b x : Bytes), b.length ≤ n →
    drain sizeOf p (b ++ x) =
      ((drain sizeOf p b).1 ++ (drain sizeOf (drain sizeOf p b).2.1 ((drain sizeOf p b).2.2 ++ x)).1,
       (drain sizeOf (drain sizeOf p b).2.1 ((drain sizeOf p b).2.2 ++ x)).2.1,
       (drain sizeOf (drain sizeOf p b).2.1 ((drain sizeOf p b).2.2 ++ x)).2.2)
  | n, p, b, x, hn => by
    cases hs : step sizeOf p b with
    | none =>
      have : drain sizeOf p b = ([], p, b) := by rw [drain_unfold, hs]
      simp [this]
    | some t =>
      obtain ⟨o, p', r⟩ := t
      have hlen := step_len sizeOf hs
      have hd : drain sizeOf p b = (o ++ (drain sizeOf p' r).1, (drain sizeOf p' r).2.1, (drain sizeOf p' r).2.2) := by
        rw [drain_unfold, hs]
      rw [step_extend sizeOf x hs, hd]
      cases n with
      | zero => omega
      | succ n =>
        rw [drain_append n p' r x (by omega)]
        simp [List.append_assoc]

/-- **feed_append**: the read machine is a lawful incremental consumer -/
theorem machine_lawful : (machine sizeOf).Lawful := by
  constructor
  · intro s
    simp [machine, feed]
  · intro s a b
    simp only [machine, feed]
    by_cases ha : a = []
    · subst ha; simp
    · by_cases hb : b = []
      · subst hb; simp [ha]
      · have hab : (a ++ b).isEmpty = false := by cases a <;> simp at ha ⊢
        have ha' : a.isEmpty = false := by cases a <;> simp at ha ⊢
        have hb' : b.isEmpty = false := by cases b <;> simp at hb ⊢
        simp only [hab, ha', hb', Bool.false_eq_true, ↓reduceIte]
        rw [← List.append_assoc, drain_append sizeOf (s.buf ++ a).length s.phase (s.buf ++ a) b (Nat.le_refl _)]

/-- **h1_seg_independent** (client stream, for the framings the machine covers): every segmentation of a byte stream
    into non-empty or empty segments yields the same messages, rejections and final state as whole-stream delivery. -/
theorem h1_seg_independent (s : St) (segs : List Bytes) :
    (machine sizeOf).feedAll s segs = (machine sizeOf).feed s segs.flatten :=
  Incremental.seg_independent _ (machine_lawful sizeOf) s segs

/-- any two segmentations of the same stream agree -/
theorem h1_seg_independent' (s : St) (a b : List Bytes) (h : a.flatten = b.flatten) :
    (machine sizeOf).feedAll s a = (machine sizeOf).feedAll s b :=
  Incremental.seg_independent' _ (machine_lawful sizeOf) s a b h

/-- bytes that arrive while the flow is not finished (`wait`) are only buffered: arrival time relative to the
    response does not matter (client bytes commute with `release`) -/
theorem wait_buffers (buf data : Bytes) :
    feed sizeOf ⟨.wait, buf⟩ data = (⟨.wait, buf ++ data⟩, []) := by
  unfold feed
  split
  · rename_i h; simp at h; subst h; simp
  · rw [drain_unfold]; simp [step]

/-- **pipelined_in_order**: data that arrives during `wait` and is released afterwards gives the same result as
    releasing first and receiving the data afterwards — the next request is read from the same bytes either way -/
theorem pipelined_in_order (buf data : Bytes) (hd : data ≠ []) :
    release sizeOf (feed sizeOf ⟨.wait, buf⟩ data).1 =
      ((feed sizeOf (release sizeOf ⟨.wait, buf⟩).1 data).1,
       (release sizeOf ⟨.wait, buf⟩).2 ++ (feed sizeOf (release sizeOf ⟨.wait, buf⟩).1 data).2) := by
  have hne : data.isEmpty = false := by cases data <;> simp at hd ⊢
  rw [wait_buffers]
  simp only [release]
  unfold feed
  simp only [hne, Bool.false_eq_true, ↓reduceIte]
  rw [drain_append sizeOf buf.length .head buf data (Nat.le_refl _)]

/-- **handshake_seg_independent**: the parent proxy's CONNECT reply (`receive_handshake_data`) is read by the same lawful
    machine: every segmentation of the reply — also one whose first segment is shorter than "HTTP/" — gives the same verdict
    (tunnel open / refused) and leaves the same bytes for the tunnel as whole delivery -/
theorem handshake_seg_independent (s : St) (segs : List Bytes) :
    (machine handshakeSize).feedAll s segs = (machine handshakeSize).feed s segs.flatten :=
  h1_seg_independent handshakeSize s segs

/-- "HTTP/1.1 200 OK\r\n\r\n" -/
def connectReply : Bytes := [72,84,84,80,47,49,46,49,32,50,48,48,32,79,75,13,10,13,10]
example : (feed handshakeSize ⟨.head, []⟩ connectReply).2 = [.msg [[72,84,84,80,47,49,46,49,32,50,48,48,32,79,75]] []] := by decide +kernel
example : ((machine handshakeSize).feedAll ⟨.head, []⟩ [connectReply.take 2, connectReply.drop 2]).2 =
    (feed handshakeSize ⟨.head, []⟩ connectReply).2 := by decide +kernel
example : ((machine handshakeSize).feedAll ⟨.head, []⟩ (([13, 10] ++ connectReply).map fun c => [c])).2 =
    (feed handshakeSize ⟨.head, []⟩ ([13, 10] ++ connectReply)).2 := by decide +kernel
/-- a 407 is a refusal -/
example : (feed handshakeSize ⟨.head, []⟩ [72,84,84,80,47,49,46,49,32,52,48,55,32,78,13,10,13,10]).2 =
    [.reject [[72,84,84,80,47,49,46,49,32,52,48,55,32,78]]] := by decide +kernel

/-! ### merged schedules of both connections -/

variable (sizeQ sizeR : List Bytes → Option Size)

private theorem hasMsg_append (a b : List Out) : hasMsg (a ++ b) = (hasMsg a || hasMsg b) := by
  simp [hasMsg, List.any_append]

private theorem expect_idem (c : St) : expect (expect c) = expect c := by
  unfold expect
  cases h : c.phase <;> simp [h]

private theorem expect_if (a b : Bool) (c : St) :
    cond b (expect (cond a (expect c) c)) (cond a (expect c) c) = cond (a || b) (expect c) c := by
  cases a <;> cases b <;> simp [expect_idem]

/-- feeding `a ++ b` in one go or in two, including the empty cases -/
private theorem feed_append' (s : St) (a b : Bytes) :
    feed sizeQ s (a ++ b) = ((feed sizeQ (feed sizeQ s a).1 b).1, (feed sizeQ s a).2 ++ (feed sizeQ (feed sizeQ s a).1 b).2) :=
  (machine_lawful sizeQ).2 s a b

/-- release after buffering `d` = release, then receive `d` (also for empty `d`) -/
private theorem release_feed (buf d : Bytes) :
    release sizeQ ⟨.wait, buf ++ d⟩ =
      ((feed sizeQ (release sizeQ ⟨.wait, buf⟩).1 d).1,
       (release sizeQ ⟨.wait, buf⟩).2 ++ (feed sizeQ (release sizeQ ⟨.wait, buf⟩).1 d).2) := by
  by_cases hd : d = []
  · subst hd; simp [feed]
  · have := pipelined_in_order sizeQ buf d hd
    rw [wait_buffers] at this
    exact this

/-- two client segments in a row are one client segment -/
theorem client_merge (σ : Sys) (a b : Bytes) (rest : List Ev) :
    sysRun sizeQ sizeR σ (.client a :: .client b :: rest) = sysRun sizeQ sizeR σ (.client (a ++ b) :: rest) := by
  simp only [sysRun, sysStep]
  rw [feed_append' sizeQ σ.s a b]
  simp only [hasMsg_append, List.map_append, List.append_assoc, expect_if]

/-- **client_early**: while a request is outstanding (the reader of the client stream waits), a client segment that arrives
    after a server segment may as well arrive before it: same final state, same outputs in the same order -/
theorem client_early (σ : Sys) (hw : σ.s.phase = .wait) (e d : Bytes) (rest : List Ev) :
    sysRun sizeQ sizeR σ (.server e :: .client d :: rest) = sysRun sizeQ sizeR σ (.client d :: .server e :: rest) := by
  obtain ⟨⟨ph, buf⟩, c⟩ := σ
  simp only at hw; subst hw
  simp only [sysRun, sysStep, wait_buffers]
  have hm0 : hasMsg ([] : List Out) = false := rfl
  simp only [hm0, cond_false, List.map_nil, List.nil_append]
  cases hm : hasMsg (feed sizeR c e).2
  · simp only [cond_false, wait_buffers, hm0, List.map_nil, List.nil_append]
  · simp only [cond_true]
    rw [release_feed sizeQ buf d]
    simp only [hasMsg_append, List.map_append, List.append_assoc, expect_if]

/-- **merged_schedule_normal_form**: every causal interleaving of client segments and server segments has the same outcome
    (final state of both readers, and the sequence of forwarded requests and relayed responses) as delivering ALL client
    bytes first, in one segment, followed by the same server segments -/
theorem merged_schedule_normal_form : ∀ (evs : List Ev) (σ : Sys), Causal sizeQ sizeR σ evs →
    sysRun sizeQ sizeR σ evs = sysRun sizeQ sizeR σ (.client (clientBytes evs) :: serverEvs evs)
  | [], σ, _ => by
    simp [sysRun, sysStep, clientBytes, serverEvs, feed, hasMsg]
  | .client d :: rest, σ, h => by
    have ih := merged_schedule_normal_form rest _ h
    have : sysRun sizeQ sizeR σ (.client d :: rest) =
        sysRun sizeQ sizeR σ (.client d :: .client (clientBytes rest) :: serverEvs rest) := by
      simp only [sysRun] at ih ⊢
      rw [ih]
    rw [this, client_merge]
    rfl
  | .server e :: rest, σ, h => by
    obtain ⟨hw, hc⟩ := h
    have ih := merged_schedule_normal_form rest _ hc
    have : sysRun sizeQ sizeR σ (.server e :: rest) =
        sysRun sizeQ sizeR σ (.server e :: .client (clientBytes rest) :: serverEvs rest) := by
      simp only [sysRun] at ih ⊢
      rw [ih]
    rw [this, client_early sizeQ sizeR σ hw]
    rfl

/-- **merged_schedule_independent**: two causal schedules that carry the same client byte stream and the same sequence of
    server segments have the same outcome, however the two streams are interleaved and however the client stream is cut -/
theorem merged_schedule_independent (σ : Sys) (a b : List Ev)
    (ha : Causal sizeQ sizeR σ a) (hb : Causal sizeQ sizeR σ b)
    (hc : clientBytes a = clientBytes b) (hs : serverEvs a = serverEvs b) :
    sysRun sizeQ sizeR σ a = sysRun sizeQ sizeR σ b := by
  rw [merged_schedule_normal_form sizeQ sizeR a σ ha, merged_schedule_normal_form sizeQ sizeR b σ hb, hc, hs]

/-- two server segments in a row, the first of which does not complete the response, are one server segment: together with
    `merged_schedule_independent` the outcome depends only on the client byte stream and on the byte string of each response -/
theorem server_merge (σ : Sys) (a b : Bytes) (rest : List Ev) (hn : hasMsg (feed sizeR σ.c a).2 = false) :
    sysRun sizeQ sizeR σ (.server a :: .server b :: rest) = sysRun sizeQ sizeR σ (.server (a ++ b) :: rest) := by
  simp only [sysRun, sysStep, hn, cond_false]
  rw [feed_append' sizeR σ.c a b]
  simp only [hasMsg_append, hn, Bool.false_or, List.map_append, List.append_assoc]
  cases hm : hasMsg (feed sizeR (feed sizeR σ.c a).1 b).2 <;> simp

/-! ### `Causal` is derived, and pipelined requests are answered in order -/

private theorem hasMsg_eq (o : List Out) : hasMsg o = o.any isMsg := by
  simp only [hasMsg]; congr 1

/-- a step that emits a message emits exactly that and goes to `wait` -/
private theorem step_msg {sizeOf : List Bytes → Option Size} {p p' : Phase} {b r : Bytes} {o : List Out}
    (h : step sizeOf p b = some (o, p', r)) :
    (o.filter isMsg = [] ∧ (p ≠ .wait → p' ≠ .wait)) ∨ (p' = .wait ∧ ∃ m, o = [m] ∧ isMsg m = true) := by
  cases p with
  | head =>
    simp only [step] at h
    cases he : extractLines b with
    | more => simp [he] at h
    | blank rest => simp [he] at h; obtain ⟨rfl, rfl, _⟩ := h; left; simp
    | lines ls rest =>
      simp only [he] at h
      split at h <;> simp at h <;> obtain ⟨rfl, rfl, _⟩ := h
      · left; simp [isMsg]
      · right; exact ⟨rfl, _, rfl, rfl⟩
      all_goals (left; simp)
  | cl m acc hd =>
    simp only [step] at h
    split at h
    · simp at h
    · split at h <;> simp at h <;> obtain ⟨rfl, rfl, _⟩ := h
      · right; exact ⟨rfl, _, rfl, rfl⟩
      · left; simp
  | untilEof acc hd =>
    simp only [step] at h
    split at h <;> simp at h
    obtain ⟨rfl, rfl, _⟩ := h; left; simp
  | chunkSize acc hd =>
    simp only [step] at h
    cases hf : findCrlf b with
    | none => simp [hf] at h
    | some idx =>
      simp only [hf] at h
      split at h <;> simp at h <;> obtain ⟨rfl, rfl, _⟩ := h <;> (left; simp [isMsg])
  | chunkData m acc hd =>
    simp only [step] at h
    split at h
    · simp at h
    · split at h <;> simp at h <;> obtain ⟨rfl, rfl, _⟩ := h <;> (left; simp)
  | chunkDiscard e es acc hd =>
    simp only [step] at h
    cases b with
    | nil => simp at h
    | cons c rest =>
      simp only at h
      split at h
      · simp at h; obtain ⟨rfl, rfl, _⟩ := h; left; simp [isMsg]
      · split at h <;> simp at h <;> obtain ⟨rfl, rfl, _⟩ := h <;> (left; simp)
  | chunkTrailer acc hd =>
    simp only [step] at h
    cases he : extractLines b with
    | more => simp [he] at h
    | blank rest => simp [he] at h; obtain ⟨rfl, rfl, _⟩ := h; right; exact ⟨rfl, _, rfl, rfl⟩
    | lines ls rest => simp [he] at h; obtain ⟨rfl, rfl, _⟩ := h; left; simp [isMsg]
  | wait => simp [step] at h
  | closed =>
    simp only [step] at h
    split at h <;> simp at h
    obtain ⟨rfl, rfl, _⟩ := h; left; simp

/-- the drain loop emits at most one message, as its last output, and then waits; without a message it does not start waiting -/
private theorem drainF_msg (sizeOf : List Bytes → Option Size) : ∀ (f : Nat) (p : Phase) (b : Bytes),
    ((drainF sizeOf f p b).1.filter isMsg = [] ∧ (p ≠ .wait → (drainF sizeOf f p b).2.1 ≠ .wait)) ∨
    ((drainF sizeOf f p b).2.1 = .wait ∧ ∃ m, (drainF sizeOf f p b).1.filter isMsg = [m])
  | 0, p, b => by left; simp [drainF]
  | f + 1, p, b => by
    simp only [drainF]
    cases hs : step sizeOf p b with
    | none => left; simp
    | some t =>
      obtain ⟨o, p', r⟩ := t
      simp only
      rcases step_msg hs with ⟨ho, hp⟩ | ⟨hp, m, ho, hm⟩
      · rcases drainF_msg sizeOf f p' r with ⟨h1, h2⟩ | ⟨h1, m, h2⟩
        · left; exact ⟨by simp [List.filter_append, ho, h1], fun hne => h2 (hp hne)⟩
        · right; exact ⟨h1, m, by simp [List.filter_append, ho, h2]⟩
      · subst hp
        have hw : drainF sizeOf f .wait r = ([], .wait, r) := by cases f <;> simp [drainF, step]
        right; rw [hw]; subst ho
        exact ⟨rfl, m, by simp [hm]⟩

private theorem feed_msg (sizeOf : List Bytes → Option Size) (s : St) (d : Bytes) :
    ((feed sizeOf s d).2.filter isMsg = [] ∧ hasMsg (feed sizeOf s d).2 = false ∧ (s.phase ≠ .wait → (feed sizeOf s d).1.phase ≠ .wait)) ∨
    ((feed sizeOf s d).1.phase = .wait ∧ hasMsg (feed sizeOf s d).2 = true ∧ ∃ m, (feed sizeOf s d).2.filter isMsg = [m]) := by
  unfold feed
  split
  · left; simp [hasMsg]
  · simp only [drain]
    rcases drainF_msg sizeOf (s.buf ++ d).length s.phase (s.buf ++ d) with ⟨h1, h2⟩ | ⟨h1, m, h2⟩
    · left
      refine ⟨h1, ?_, h2⟩
      rw [hasMsg_eq]
      have : ∀ (l : List Out), l.filter isMsg = [] → l.any isMsg = false := by
        intro l hl; simpa [List.filter_eq_nil_iff] using hl
      exact this _ h1
    · right
      refine ⟨h1, ?_, m, h2⟩
      rw [hasMsg_eq]
      have hm : m ∈ (drainF sizeOf (s.buf ++ d).length s.phase (s.buf ++ d)).1.filter isMsg := by rw [h2]; simp
      have := List.mem_filter.mp hm
      exact List.any_eq_true.mpr ⟨m, this.1, this.2⟩

private theorem release_msg (sizeOf : List Bytes → Option Size) (buf : Bytes) :
    ((release sizeOf ⟨.wait, buf⟩).2.filter isMsg = [] ∧ hasMsg (release sizeOf ⟨.wait, buf⟩).2 = false) ∨
    ((release sizeOf ⟨.wait, buf⟩).1.phase = .wait ∧ hasMsg (release sizeOf ⟨.wait, buf⟩).2 = true ∧
      ∃ m, (release sizeOf ⟨.wait, buf⟩).2.filter isMsg = [m]) := by
  simp only [release, drain]
  rcases drainF_msg sizeOf buf.length .head buf with ⟨h1, _⟩ | ⟨h1, m, h2⟩
  · left
    refine ⟨h1, ?_⟩
    rw [hasMsg_eq]; simpa [List.filter_eq_nil_iff] using h1
  · right
    refine ⟨h1, ?_, m, h2⟩
    rw [hasMsg_eq]
    have hm : m ∈ (drainF sizeOf buf.length .head buf).1.filter isMsg := by rw [h2]; simp
    have := List.mem_filter.mp hm
    exact List.any_eq_true.mpr ⟨m, this.1, this.2⟩

private theorem msgsOf_append (a b : List SysOut) : msgsOf (a ++ b) = msgsOf a ++ msgsOf b := by
  induction a with
  | nil => rfl
  | cons x xs ih => cases x <;> simp only [List.cons_append, msgsOf, ih] <;> split <;> simp

private theorem msgsOf_request (o : List Out) : msgsOf (o.map .request) = (o.filter isMsg).map fun _ => true := by
  induction o with
  | nil => rfl
  | cons x xs ih => simp only [List.map_cons, msgsOf, ih, List.filter_cons]; split <;> simp

private theorem msgsOf_response (o : List Out) : msgsOf (o.map .response) = (o.filter isMsg).map fun _ => false := by
  induction o with
  | nil => rfl
  | cons x xs ih => simp only [List.map_cons, msgsOf, ih, List.filter_cons]; split <;> simp

private theorem altEnd_append : ∀ (a b : List Bool) (t t' : Bool), altEnd t a = some t' → altEnd t (a ++ b) = altEnd t' b
  | [], b, t, t', h => by simp [altEnd] at h; subst h; rfl
  | x :: xs, b, t, t', h => by
    simp only [altEnd] at h
    simp only [List.cons_append, altEnd]
    split at h
    · rename_i hx; simp only [hx, ↓reduceIte]; exact altEnd_append xs b _ _ h
    · simp at h

/-- "the next completed message will be a request" = the upstream reader is idle -/
def idle (σ : Sys) : Bool := decide (σ.c.phase = .wait)

private theorem expect_not_wait (c : St) : (expect c).phase ≠ .wait := by
  unfold expect
  cases h : c.phase <;> simp [h]

/-- one step preserves the invariant and emits an alternating piece -/
private theorem sysStep_alt (σ : Sys) (ev : Ev) (hi : Inv σ) (he : ∀ e, ev = .server e → σ.c.phase ≠ .wait) :
    Inv (sysStep sizeQ sizeR σ ev).1 ∧
    altEnd (idle σ) (msgsOf (sysStep sizeQ sizeR σ ev).2) = some (idle (sysStep sizeQ sizeR σ ev).1) := by
  obtain ⟨s, c⟩ := σ
  cases ev with
  | client d =>
    simp only [sysStep, msgsOf_request]
    by_cases hw : s.phase = .wait
    · obtain ⟨ph, buf⟩ := s
      simp only at hw; subst hw
      rw [wait_buffers]
      have hm0 : hasMsg ([] : List Out) = false := rfl
      simp only [hm0, cond_false, List.filter_nil, List.map_nil, altEnd, idle]
      exact ⟨fun _ => rfl, trivial⟩
    · have hcw : c.phase = .wait := by
        by_cases hc : c.phase = .wait
        · exact hc
        · exact absurd (hi hc) hw
      rcases feed_msg sizeQ s d with ⟨h1, h2, h3⟩ | ⟨h1, h2, m, h3⟩
      · simp only [h1, h2, cond_false, List.map_nil, altEnd, idle]
        exact ⟨fun hc => absurd hcw hc, trivial⟩
      · simp only [h3, h2, cond_true, List.map_cons, List.map_nil, altEnd, idle, hcw, decide_true, ↓reduceIte, Bool.not_true]
        refine ⟨fun _ => h1, ?_⟩
        have := expect_not_wait c
        simp [this]
  | server e =>
    have hcn := he e rfl
    have hsw := hi hcn
    obtain ⟨ph, buf⟩ := s
    simp only at hsw; subst hsw
    simp only [sysStep]
    rcases feed_msg sizeR c e with ⟨h1, h2, h3⟩ | ⟨h1, h2, m, h3⟩
    · simp only [h2, cond_false, msgsOf_response, h1, List.map_nil, altEnd, idle]
      refine ⟨fun _ => rfl, ?_⟩
      have := h3 hcn
      simp [hcn, this]
    · simp only [h2, cond_true, msgsOf_append, msgsOf_response, msgsOf_request, h3, List.map_cons, List.map_nil]
      have hidle : idle ⟨⟨.wait, buf⟩, c⟩ = false := by simp [idle, hcn]
      rw [hidle]
      rcases release_msg sizeQ buf with ⟨g1, g2⟩ | ⟨g1, g2, m2, g3⟩
      · simp only [g1, g2, cond_false, List.map_nil, List.append_nil, altEnd, ↓reduceIte, Bool.not_false, idle, h1, decide_true]
        exact ⟨fun hc => absurd h1 hc, trivial⟩
      · simp only [g3, g2, cond_true, List.map_cons, List.map_nil, List.cons_append, List.nil_append, altEnd, ↓reduceIte,
          Bool.not_false, Bool.not_true, idle]
        refine ⟨fun _ => g1, ?_⟩
        have := expect_not_wait (feed sizeR c e).1
        simp [this]

/-- **causal_of_expected**: `Causal` need not be assumed — it follows from the invariant `Inv` (which holds initially and is
    preserved) and the environment's side of causality alone: the origin sends only while a request of it is unanswered -/
theorem causal_of_expected : ∀ (evs : List Ev) (σ : Sys), Inv σ → Expected sizeQ sizeR σ evs → Causal sizeQ sizeR σ evs
  | [], _, _, _ => trivial
  | .client d :: rest, σ, hi, he => by
    have := (sysStep_alt sizeQ sizeR σ (.client d) hi (fun e h => by cases h)).1
    exact causal_of_expected rest _ this he
  | .server e :: rest, σ, hi, he => by
    obtain ⟨hc, hr⟩ := he
    have := (sysStep_alt sizeQ sizeR σ (.server e) hi (fun e' h => by cases h; exact hc)).1
    exact ⟨hi hc, causal_of_expected rest _ this hr⟩

theorem inv_initial : Inv ⟨⟨.head, []⟩, ⟨.wait, []⟩⟩ := fun h => absurd rfl h

/-- **expect_only_when_idle** (audit round 6): `expect` leaves a reader that is not in `wait` unchanged — a silent default.
    Under `Inv` that branch is never taken: at both places where `sysStep` applies `expect`, the upstream reader IS in `wait`
    — when a segment of the client completes a request (otherwise the client-side reader would be waiting and complete
    nothing), and when a released pipelined request follows a completed response (a reader that has just completed a message is
    in `wait`). -/
theorem expect_only_when_idle (σ : Sys) (hi : Inv σ) :
    (∀ d, hasMsg (feed sizeQ σ.s d).2 = true → σ.c.phase = .wait) ∧
    (∀ e, hasMsg (feed sizeR σ.c e).2 = true → (feed sizeR σ.c e).1.phase = .wait) := by
  constructor
  · intro d hm
    by_cases h : σ.c.phase = .wait
    · exact h
    · have hw := hi h
      obtain ⟨⟨p, buf⟩, c⟩ := σ
      simp only at hw; subst hw
      rw [wait_buffers] at hm
      simp [hasMsg] at hm
  · intro e hm
    rcases feed_msg sizeR σ.c e with ⟨_, h2, _⟩ | ⟨h1, _, _⟩
    · rw [h2] at hm; cases hm
    · exact h1

/-- **answered_in_order**: "pipelined requests are answered in order, each response matched to its own request" — in every run
    the completed messages alternate request, response, request, response …: the k-th relayed response comes after the k-th
    forwarded request and before the (k+1)-th, whatever the segmentation and interleaving -/
theorem answered_in_order : ∀ (evs : List Ev) (σ : Sys), Inv σ → Expected sizeQ sizeR σ evs →
    altEnd (idle σ) (msgsOf (sysRun sizeQ sizeR σ evs).2) = some (idle (sysRun sizeQ sizeR σ evs).1)
  | [], σ, _, _ => by simp [sysRun, msgsOf, altEnd]
  | ev :: rest, σ, hi, he => by
    have hev : ∀ e, ev = .server e → σ.c.phase ≠ .wait := by
      intro e h; subst h; exact he.1
    have hrest : Expected sizeQ sizeR (sysStep sizeQ sizeR σ ev).1 rest := by
      cases ev with
      | client d => exact he
      | server e => exact he.2
    obtain ⟨hi', ha⟩ := sysStep_alt sizeQ sizeR σ ev hi hev
    have ih := answered_in_order rest _ hi' hrest
    simp only [sysRun, msgsOf_append]
    rw [altEnd_append _ _ _ _ ha, ih]

/-- merged schedules without assuming `Causal` -/
theorem merged_schedule_independent' (σ : Sys) (a b : List Ev) (hi : Inv σ)
    (ha : Expected sizeQ sizeR σ a) (hb : Expected sizeQ sizeR σ b)
    (hc : clientBytes a = clientBytes b) (hs : serverEvs a = serverEvs b) :
    sysRun sizeQ sizeR σ a = sysRun sizeQ sizeR σ b :=
  merged_schedule_independent sizeQ sizeR σ a b (causal_of_expected sizeQ sizeR a σ hi ha)
    (causal_of_expected sizeQ sizeR b σ hi hb) hc hs

/-- non-vacuity: a pipelined client stream and two responses, interleaved causally in two different ways -/
example :
    let σ : Sys := ⟨⟨.head, []⟩, ⟨.wait, []⟩⟩
    let q1 : Bytes := [71, 32, 47, 32, 72, 84, 84, 80, 47, 49, 46, 49, 13, 10, 13, 10]           -- "G / HTTP/1.1\r\n\r\n"
    let r1 : Bytes := [72, 84, 84, 80, 47, 49, 46, 49, 32, 50, 48, 52, 32, 78, 13, 10, 13, 10]   -- "HTTP/1.1 204 N\r\n\r\n"
    (sysRun requestSize (responseSize [71]) σ [.client q1, .server (r1.take 5), .client q1, .server (r1.drop 5), .server r1]).2 =
      (sysRun requestSize (responseSize [71]) σ [.client (q1 ++ q1), .server (r1.take 5), .server (r1.drop 5), .server r1]).2 := by
  decide +kernel

/-! ### F-C02a: the machine before the fix is *not* segmentation independent -/

/-- "\r\nGET / HTTP/1.1\r\n\r\n" -/
def witness : Bytes := [13, 10, 71, 69, 84, 32, 47, 32, 72, 84, 84, 80, 47, 49, 46, 49, 13, 10, 13, 10]

theorem old_machine_counterexample :
    (feedOld requestSize ⟨.head, []⟩ witness).2 ≠
      (feedOld requestSize ⟨.head, []⟩ (witness.take 2)).2 ++
        (feedOld requestSize (feedOld requestSize ⟨.head, []⟩ (witness.take 2)).1 (witness.drop 2)).2 := by
  decide

/-- the same stream through the fixed machine: served whole or split -/
example : (feed requestSize ⟨.head, []⟩ witness).2 =
    [.msg [[71, 69, 84, 32, 47, 32, 72, 84, 84, 80, 47, 49, 46, 49]] []] := by decide
example : ((machine requestSize).feedAll ⟨.head, []⟩ [witness.take 2, witness.drop 2]).2 =
    (feed requestSize ⟨.head, []⟩ witness).2 := by decide
/-! chunked bodies: whole, byte by byte, and the protocol errors -/
/-- "POST / HTTP/1.1\r\nTransfer-Encoding: chunked\r\n\r\n3;x\r\nabc\r\n0\r\n\r\n" -/
def chunkedWitness : Bytes :=
  [80,79,83,84,32,47,32,72,84,84,80,47,49,46,49,13,10] ++
  [84,114,97,110,115,102,101,114,45,69,110,99,111,100,105,110,103,58,32,99,104,117,110,107,101,100,13,10,13,10] ++
  [51,59,120,13,10,97,98,99,13,10,48,13,10,13,10]

example : (feed requestSize ⟨.head, []⟩ chunkedWitness).2 =
    [.msg [[80,79,83,84,32,47,32,72,84,84,80,47,49,46,49],
           [84,114,97,110,115,102,101,114,45,69,110,99,111,100,105,110,103,58,32,99,104,117,110,107,101,100]] [97,98,99]] := by
  decide +kernel
example : ((machine requestSize).feedAll ⟨.head, []⟩ (chunkedWitness.map fun c => [c])).2 =
    (feed requestSize ⟨.head, []⟩ chunkedWitness).2 := by decide +kernel
/-- trailers are a protocol error (fix 4f0e88849), a bad chunk-size line too -/
example : (feed requestSize ⟨.chunkTrailer [] [], []⟩ [88,58,49,13,10,13,10]).2 = [.protoError []] := by decide
example : (feed requestSize ⟨.chunkSize [] [], []⟩ [90,13,10]).2 = [.protoError []] := by decide
/-- client side: an interim 103 is swallowed, the final response is read -/
example : (feed (responseSize [71,69,84]) ⟨.head, []⟩
    ([72,84,84,80,47,49,46,49,32,49,48,51,32,69,13,10,13,10] ++ [72,84,84,80,47,49,46,49,32,50,48,52,32,78,13,10,13,10])).2 =
    [.msg [[72,84,84,80,47,49,46,49,32,50,48,52,32,78]] []] := by decide +kernel

/-- the machine is not constant: a bad request line is rejected -/
example : (feed requestSize ⟨.head, []⟩ [71, 13, 10, 13, 10]).2 = [.reject [[71]]] := by decide

/-! ## audit round 6 (cross-audit, added by the C46-48 builder): non-vacuity witnesses — the hypotheses `Inv`, `Expected`,
    `Causal`, "the client-side reader waits", "the segment does not complete the response" hold on a reachable, non-initial
    state and a schedule with pipelining and a response cut in two -/
private def aσ0 : Sys := ⟨⟨.head, []⟩, ⟨.wait, []⟩⟩
private def aq : Bytes := [71, 32, 47, 32, 72, 84, 84, 80, 47, 49, 46, 49, 13, 10, 13, 10]           -- "G / HTTP/1.1\r\n\r\n"
private def ar : Bytes := [72, 84, 84, 80, 47, 49, 46, 49, 32, 50, 48, 52, 32, 78, 13, 10, 13, 10]   -- "HTTP/1.1 204 N\r\n\r\n"
private def aSched : List Ev := [.client aq, .server (ar.take 5), .client aq, .server (ar.drop 5), .server ar]
/-- the state after the first request has been forwarded: the client-side reader waits, the upstream reader expects a head -/
private def aσ1 : Sys := (sysStep requestSize (responseSize [71]) aσ0 (.client aq)).1

example : Expected requestSize (responseSize [71]) aσ0 aSched := by
  simp only [aSched, Expected]; decide +kernel
example : Causal requestSize (responseSize [71]) aσ0 aSched := by
  simp only [aSched, Causal]; decide +kernel
example : aσ1.s.phase = .wait ∧ aσ1.c.phase = .head ∧ Inv aσ1 := by
  refine ⟨by decide +kernel, by decide +kernel, fun _ => by decide +kernel⟩
-- answered_in_order on this schedule: request, response, request, response — and the upstream reader is idle again
example : msgsOf (sysRun requestSize (responseSize [71]) aσ0 aSched).2 = [true, false, true, false] ∧
    idle (sysRun requestSize (responseSize [71]) aσ0 aSched).1 = true := by decide +kernel
-- client_early: its hypothesis holds in aσ1 and both orders give two forwarded requests and one relayed response
example : (sysRun requestSize (responseSize [71]) aσ1 [.server ar, .client aq]).2.length = 2 ∧
    sysRun requestSize (responseSize [71]) aσ1 [.server ar, .client aq] =
      sysRun requestSize (responseSize [71]) aσ1 [.client aq, .server ar] := by decide +kernel
-- server_merge: the first five bytes of the response do not complete it
example : hasMsg (feed (responseSize [71]) aσ1.c (ar.take 5)).2 = false ∧ ar.take 5 ≠ [] := by decide +kernel
-- pipelined_in_order / wait_buffers: a second request arrives while the first flow is unfinished, then the flow is released
example : (release requestSize (feed requestSize ⟨.wait, []⟩ aq).1).2 = [.msg [[71, 32, 47, 32, 72, 84, 84, 80, 47, 49, 46, 49]] []] := by
  decide +kernel
-- merged_schedule_normal_form on this schedule: all client bytes first, then the three server segments
example : clientBytes aSched = aq ++ aq ∧ serverEvs aSched = [.server (ar.take 5), .server (ar.drop 5), .server ar] := by decide +kernel

end MitmVerif.Props.C02
