/-
  C03 — every HTTP flow has an ordered hook lifecycle and exactly one outcome.

  The theorems quantify over EVERY input history of one `HttpStream` (`run limit thresh evs`: any body-size
  options, any sequence of HttpEvents, hook completions with any addon action, connection results — including
  histories in which exceptions escape and leave the event queue behind).  The only hypothesis is that the
  history stays inside the event grammar of `Http1Server`/`Http1Client`/`HttpLayer` (`bad = false`, see
  `grammarOk`), which the correspondence run checks on every real trace.

  `trace` is the list of commands the stream emitted, oldest first; hooks appear in it as `.hook h`.
-/
import MitmVerif.Lemmas.C03Mon
import MitmVerif.Lemmas.C03Gram
namespace MitmVerif.Props.C03
open MitmVerif.C03

private theorem inv_core (l t : Nat) (evs : List Ev) (hb : (run l t evs).core.bad = false) :
    InvB (run l t evs).core = true ∧ (run l t evs).core.m = scan (run l t evs).trace := by
  obtain ⟨hI, hL⟩ := good_run l t evs
  refine ⟨hI, ?_⟩
  rcases hL with h | h
  · rw [hb] at h; cases h
  · exact h

private theorem inv_v (c : Core) (h : InvB c = true) (hb : c.bad = false) :
    c.m.v1 = false ∧ c.m.v2 = false ∧ c.m.v3 = false ∧ c.m.v4 = false ∧ c.m.v5 = false := by
  simp [InvB, hb, imp] at h
  obtain ⟨⟨⟨⟨⟨⟨⟨⟨⟨⟨⟨⟨⟨⟨⟨⟨⟨⟨⟨⟨⟨⟨⟨⟨⟨⟨⟨⟨⟨⟨⟨⟨⟨h1, h2⟩, h3⟩, h4⟩, h5⟩, _⟩, _⟩, _⟩, _⟩, _⟩, _⟩, _⟩, _⟩, _⟩, _⟩, _⟩, _⟩, _⟩, _⟩, _⟩, _⟩, _⟩, _⟩, _⟩, _⟩, _⟩, _⟩, _⟩, _⟩, _⟩, _⟩, _⟩, _⟩, _⟩ := h
  exact ⟨h1, h2, h3, h4, h5⟩


private theorem inv_rel (c : Core) (h : InvB c = true) (hb : c.bad = false) :
    ¬(c.m.fResp = true ∧ c.m.fErr = true) := by
  simp [InvB, hb, imp] at h
  intro ⟨h1, h2⟩
  simp_all

private theorem inv_closure (c : Core) (h : InvB c = true) (hb : c.bad = false) (hp : c.paused = none)
    (hs : c.procReqErr = true ∨ c.dropped = true) (hH : c.m.fRH = true) (hC : c.isConnect = false) (hpt : c.pt = false)
    (hW : c.websocket = false) : (c.m.fResp = true ∨ c.m.fErr = true) ∧ c.live = false := by
  simp [InvB, hb, imp, hp, hH, hC, hpt, hW, isRespHookK, isErrHookK, isRespSideK] at h
  cases hl : c.live <;> cases hcs : c.cs <;> cases hss : c.ss <;> rcases hs with hs | hs <;> simp_all <;> grind

/-- the monitor state when the scan reaches an element of the trace is below the final one -/
private theorem mid_le (l t : Nat) (evs : List Ev) (hb : (run l t evs).core.bad = false) (pre post : List Out) (x : Out)
    (hsplit : (run l t evs).trace = pre ++ x :: post) : (mon (scan pre) x).le (run l t evs).core.m := by
  rw [(inv_core l t evs hb).2, hsplit]
  exact scan_mid_le pre post x

/-- **requestheaders first**: in every history, whenever `request`, `responseheaders`, `response` or `error` fires for
    the flow, `requestheaders` has fired before it — and `requestheaders` never fires twice. -/
theorem requestheaders_first (l t : Nat) (evs : List Ev) (hb : (run l t evs).core.bad = false)
    (pre post : List Out) (h : Hook) (hsplit : (run l t evs).trace = pre ++ .hook h :: post) :
    (h = .request ∨ h = .responseheaders ∨ h = .response ∨ h = .error → Out.hook .requestheaders ∈ pre) ∧
    (h = .requestheaders → Out.hook .requestheaders ∉ pre) := by
  have hv := (inv_v _ (inv_core l t evs hb).1 hb).1
  have hle := mid_le l t evs hb pre post _ hsplit
  have hmid : (mon (scan pre) (.hook h)).v1 = false := by
    cases hx : (mon (scan pre) (.hook h)).v1
    · rfl
    · have := hle.2.2.2.2.2.2.1 hx; rw [hv] at this; cases this
  constructor
  · intro hh
    rw [← scan_fRH]
    rcases hh with rfl | rfl | rfl | rfl <;> simp [mon] at hmid <;> exact hmid.2
  · intro hh; subst hh
    rw [← scan_fRH]
    simp [mon] at hmid
    simp [hmid]

/-- **request at most once** -/
theorem request_at_most_once (l t : Nat) (evs : List Ev) (hb : (run l t evs).core.bad = false)
    (pre post : List Out) (hsplit : (run l t evs).trace = pre ++ .hook .request :: post) :
    Out.hook .request ∉ pre := by
  have hv := (inv_v _ (inv_core l t evs hb).1 hb).2.1
  have hle := mid_le l t evs hb pre post _ hsplit
  have hmid : (mon (scan pre) (.hook .request)).v2 = false := by
    cases hx : (mon (scan pre) (.hook .request)).v2
    · rfl
    · have := hle.2.2.2.2.2.2.2.1 hx; rw [hv] at this; cases this
  rw [← scan_fReq]
  simp [mon] at hmid
  simp [hmid]

/-- **responseheaders at most once and before response** (and response at most once) -/
theorem responseheaders_before_response (l t : Nat) (evs : List Ev) (hb : (run l t evs).core.bad = false)
    (pre post : List Out) (h : Hook) (hsplit : (run l t evs).trace = pre ++ .hook h :: post) :
    (h = .responseheaders → Out.hook .responseheaders ∉ pre ∧ Out.hook .response ∉ pre) ∧
    (h = .response → Out.hook .responseheaders ∈ pre ∧ Out.hook .response ∉ pre) := by
  have hv := (inv_v _ (inv_core l t evs hb).1 hb).2.2.1
  have hle := mid_le l t evs hb pre post _ hsplit
  have hmid : (mon (scan pre) (.hook h)).v3 = false := by
    cases hx : (mon (scan pre) (.hook h)).v3
    · rfl
    · have := hle.2.2.2.2.2.2.2.2.1 hx; rw [hv] at this; cases this
  constructor
  · intro hh; subst hh
    rw [← scan_fRespH, ← scan_fResp]
    simp [mon] at hmid
    simp [hmid]
  · intro hh; subst hh
    rw [← scan_fRespH, ← scan_fResp]
    simp [mon] at hmid
    simp [hmid]

/-- **never both outcomes** -/
theorem never_response_and_error (l t : Nat) (evs : List Ev) (hb : (run l t evs).core.bad = false) :
    ¬(Out.hook .response ∈ (run l t evs).trace ∧ Out.hook .error ∈ (run l t evs).trace) := by
  obtain ⟨hI, hm⟩ := inv_core l t evs hb
  have := inv_rel _ hI hb
  rw [hm, scan_fResp, scan_fErr] at this
  exact this

/-- **an unstreamed request precedes responseheaders**: if the request headers were never sent upstream by
    `start_request_stream` (no `streamStart` in the trace), `request` has fired before `responseheaders` fires. -/
theorem unstreamed_request_before_responseheaders (l t : Nat) (evs : List Ev) (hb : (run l t evs).core.bad = false)
    (hns : Out.streamStart ∉ (run l t evs).trace)
    (pre post : List Out) (hsplit : (run l t evs).trace = pre ++ .hook .responseheaders :: post) :
    Out.hook .request ∈ pre := by
  have hv := (inv_v _ (inv_core l t evs hb).1 hb).2.2.2.2
  have hle := mid_le l t evs hb pre post _ hsplit
  have hmid : (mon (scan pre) (.hook .responseheaders)).v5 = false := by
    cases hx : (mon (scan pre) (.hook .responseheaders)).v5
    · rfl
    · have := hle.2.2.2.2.2.2.2.2.2.2 hx; rw [hv] at this; cases this
  have hns' : (scan pre).streamed = false := by
    cases hx : (scan pre).streamed
    · rfl
    · have : Out.streamStart ∈ pre := (scan_streamed pre).1 hx
      exact absurd (by rw [hsplit]; simp [this]) hns
  rw [← scan_fReq]
  simp [mon, hns'] at hmid
  exact hmid.2

/-- **closed implies outcome**: once the client side of the stream is closed (a RequestProtocolError has been
    handled, or the stream was dropped) and nothing is pending, a request/response flow that fired requestheaders
    (not a CONNECT tunnel, not a protocol upgrade) has fired exactly one of response / error and is not live. -/
theorem closed_implies_outcome (l t : Nat) (evs : List Ev) (hb : (run l t evs).core.bad = false)
    (hset : (run l t evs).settled = true)
    (hrh : Out.hook .requestheaders ∈ (run l t evs).trace)
    (hC : (run l t evs).core.isConnect = false) (hpt : (run l t evs).core.pt = false)
    (hW : (run l t evs).core.websocket = false) :
    (Out.hook .response ∈ (run l t evs).trace ↔ Out.hook .error ∉ (run l t evs).trace) ∧
    (run l t evs).core.live = false := by
  obtain ⟨hI, hm⟩ := inv_core l t evs hb
  have hH : (run l t evs).core.m.fRH = true := by rw [hm, scan_fRH]; exact hrh
  simp only [St.settled, Bool.and_eq_true, Bool.or_eq_true, Option.isNone_iff_eq_none] at hset
  obtain ⟨hone, hlive⟩ := inv_closure _ hI hb hset.1 hset.2 hH hC hpt hW
  have hboth := inv_rel _ hI hb
  rw [hm, scan_fResp, scan_fErr] at hone hboth
  refine ⟨⟨fun hr he => hboth ⟨hr, he⟩, fun hne => ?_⟩, hlive⟩
  rcases hone with h | h
  · exact h
  · exact absurd h hne


-- ------------------------------------------------------------------------------------------------
-- HTTP/1: the grammar hypothesis discharged against the emitter model (Model/C03_Emit.lean)

/-- **grammar holds**: every history that `Http1Server` / `Http1Client` / `HttpLayer` can deliver to one stream —
    request headers once, then data*/end-of-message, protocol errors only after the headers and nothing but protocol
    errors after one; response events only once the request went upstream; completions only for the command the
    stream is blocked on — stays inside the event grammar, whatever is queued, replayed or left behind by escaping
    exceptions. -/
theorem grammar_holds (l t : Nat) (evs : List Ev) (h : Admissible l t evs) : (run l t evs).core.bad = false :=
  grammar_holds_run l t evs h

theorem requestheaders_first_http1 (l t : Nat) (evs : List Ev) (ha : Admissible l t evs)
    (pre post : List Out) (h : Hook) (hsplit : (run l t evs).trace = pre ++ .hook h :: post) :
    (h = .request ∨ h = .responseheaders ∨ h = .response ∨ h = .error → Out.hook .requestheaders ∈ pre) ∧
    (h = .requestheaders → Out.hook .requestheaders ∉ pre) :=
  requestheaders_first l t evs (grammar_holds l t evs ha) pre post h hsplit

theorem request_at_most_once_http1 (l t : Nat) (evs : List Ev) (ha : Admissible l t evs)
    (pre post : List Out) (hsplit : (run l t evs).trace = pre ++ .hook .request :: post) : Out.hook .request ∉ pre :=
  request_at_most_once l t evs (grammar_holds l t evs ha) pre post hsplit

theorem responseheaders_before_response_http1 (l t : Nat) (evs : List Ev) (ha : Admissible l t evs)
    (pre post : List Out) (h : Hook) (hsplit : (run l t evs).trace = pre ++ .hook h :: post) :
    (h = .responseheaders → Out.hook .responseheaders ∉ pre ∧ Out.hook .response ∉ pre) ∧
    (h = .response → Out.hook .responseheaders ∈ pre ∧ Out.hook .response ∉ pre) :=
  responseheaders_before_response l t evs (grammar_holds l t evs ha) pre post h hsplit

theorem never_response_and_error_http1 (l t : Nat) (evs : List Ev) (ha : Admissible l t evs) :
    ¬(Out.hook .response ∈ (run l t evs).trace ∧ Out.hook .error ∈ (run l t evs).trace) :=
  never_response_and_error l t evs (grammar_holds l t evs ha)

theorem unstreamed_request_before_responseheaders_http1 (l t : Nat) (evs : List Ev) (ha : Admissible l t evs)
    (hns : Out.streamStart ∉ (run l t evs).trace)
    (pre post : List Out) (hsplit : (run l t evs).trace = pre ++ .hook .responseheaders :: post) :
    Out.hook .request ∈ pre :=
  unstreamed_request_before_responseheaders l t evs (grammar_holds l t evs ha) hns pre post hsplit

theorem closed_implies_outcome_http1 (l t : Nat) (evs : List Ev) (ha : Admissible l t evs)
    (hset : (run l t evs).settled = true)
    (hrh : Out.hook .requestheaders ∈ (run l t evs).trace)
    (hC : (run l t evs).core.isConnect = false) (hpt : (run l t evs).core.pt = false)
    (hW : (run l t evs).core.websocket = false) :
    (Out.hook .response ∈ (run l t evs).trace ↔ Out.hook .error ∉ (run l t evs).trace) ∧
    (run l t evs).core.live = false :=
  closed_implies_outcome l t evs (grammar_holds l t evs ha) hset hrh hC hpt hW

-- HTTP/2 (and HTTP/3): the same emitter with `RequestTrailers` / `ResponseTrailers` (trailers only while the body is
-- being read; the stream sends them on after the request / response hook).  `Admissible` covers these histories, so
-- the statements above hold for them verbatim; they are restated under the protocol's name.
-- (Restatements, not new results: one emitter model serves HTTP/1, /2 and /3, so this file has 13 distinct statements —
-- the 6 hypothesis forms, `grammar_holds`, the 6 `_http1` forms; the 12 `_http2`/`_http3` names are aliases whose
-- protocol-specific content is the tie `adm=1` on real HTTP/2 and HTTP/3 streams.)

theorem requestheaders_first_http2 (l t : Nat) (evs : List Ev) (ha : Admissible l t evs)
    (pre post : List Out) (h : Hook) (hsplit : (run l t evs).trace = pre ++ .hook h :: post) :
    (h = .request ∨ h = .responseheaders ∨ h = .response ∨ h = .error → Out.hook .requestheaders ∈ pre) ∧
    (h = .requestheaders → Out.hook .requestheaders ∉ pre) :=
  requestheaders_first_http1 l t evs ha pre post h hsplit

theorem request_at_most_once_http2 (l t : Nat) (evs : List Ev) (ha : Admissible l t evs)
    (pre post : List Out) (hsplit : (run l t evs).trace = pre ++ .hook .request :: post) : Out.hook .request ∉ pre :=
  request_at_most_once_http1 l t evs ha pre post hsplit

theorem responseheaders_before_response_http2 (l t : Nat) (evs : List Ev) (ha : Admissible l t evs)
    (pre post : List Out) (h : Hook) (hsplit : (run l t evs).trace = pre ++ .hook h :: post) :
    (h = .responseheaders → Out.hook .responseheaders ∉ pre ∧ Out.hook .response ∉ pre) ∧
    (h = .response → Out.hook .responseheaders ∈ pre ∧ Out.hook .response ∉ pre) :=
  responseheaders_before_response_http1 l t evs ha pre post h hsplit

theorem never_response_and_error_http2 (l t : Nat) (evs : List Ev) (ha : Admissible l t evs) :
    ¬(Out.hook .response ∈ (run l t evs).trace ∧ Out.hook .error ∈ (run l t evs).trace) :=
  never_response_and_error_http1 l t evs ha

theorem unstreamed_request_before_responseheaders_http2 (l t : Nat) (evs : List Ev) (ha : Admissible l t evs)
    (hns : Out.streamStart ∉ (run l t evs).trace)
    (pre post : List Out) (hsplit : (run l t evs).trace = pre ++ .hook .responseheaders :: post) :
    Out.hook .request ∈ pre :=
  unstreamed_request_before_responseheaders_http1 l t evs ha hns pre post hsplit

theorem closed_implies_outcome_http2 (l t : Nat) (evs : List Ev) (ha : Admissible l t evs)
    (hset : (run l t evs).settled = true)
    (hrh : Out.hook .requestheaders ∈ (run l t evs).trace)
    (hC : (run l t evs).core.isConnect = false) (hpt : (run l t evs).core.pt = false)
    (hW : (run l t evs).core.websocket = false) :
    (Out.hook .response ∈ (run l t evs).trace ↔ Out.hook .error ∉ (run l t evs).trace) ∧
    (run l t evs).core.live = false :=
  closed_implies_outcome_http1 l t evs ha hset hrh hC hpt hW

-- HTTP/3 (Http3Server / Http3Client deliver the same per-stream events over QUIC stream events; tied by offline
-- HTTP/3 client/server runs)

theorem requestheaders_first_http3 (l t : Nat) (evs : List Ev) (ha : Admissible l t evs)
    (pre post : List Out) (h : Hook) (hsplit : (run l t evs).trace = pre ++ .hook h :: post) :
    (h = .request ∨ h = .responseheaders ∨ h = .response ∨ h = .error → Out.hook .requestheaders ∈ pre) ∧
    (h = .requestheaders → Out.hook .requestheaders ∉ pre) :=
  requestheaders_first_http1 l t evs ha pre post h hsplit

theorem request_at_most_once_http3 (l t : Nat) (evs : List Ev) (ha : Admissible l t evs)
    (pre post : List Out) (hsplit : (run l t evs).trace = pre ++ .hook .request :: post) : Out.hook .request ∉ pre :=
  request_at_most_once_http1 l t evs ha pre post hsplit

theorem responseheaders_before_response_http3 (l t : Nat) (evs : List Ev) (ha : Admissible l t evs)
    (pre post : List Out) (h : Hook) (hsplit : (run l t evs).trace = pre ++ .hook h :: post) :
    (h = .responseheaders → Out.hook .responseheaders ∉ pre ∧ Out.hook .response ∉ pre) ∧
    (h = .response → Out.hook .responseheaders ∈ pre ∧ Out.hook .response ∉ pre) :=
  responseheaders_before_response_http1 l t evs ha pre post h hsplit

theorem never_response_and_error_http3 (l t : Nat) (evs : List Ev) (ha : Admissible l t evs) :
    ¬(Out.hook .response ∈ (run l t evs).trace ∧ Out.hook .error ∈ (run l t evs).trace) :=
  never_response_and_error_http1 l t evs ha

theorem unstreamed_request_before_responseheaders_http3 (l t : Nat) (evs : List Ev) (ha : Admissible l t evs)
    (hns : Out.streamStart ∉ (run l t evs).trace)
    (pre post : List Out) (hsplit : (run l t evs).trace = pre ++ .hook .responseheaders :: post) :
    Out.hook .request ∈ pre :=
  unstreamed_request_before_responseheaders_http1 l t evs ha hns pre post hsplit

theorem closed_implies_outcome_http3 (l t : Nat) (evs : List Ev) (ha : Admissible l t evs)
    (hset : (run l t evs).settled = true)
    (hrh : Out.hook .requestheaders ∈ (run l t evs).trace)
    (hC : (run l t evs).core.isConnect = false) (hpt : (run l t evs).core.pt = false)
    (hW : (run l t evs).core.websocket = false) :
    (Out.hook .response ∈ (run l t evs).trace ↔ Out.hook .error ∉ (run l t evs).trace) ∧
    (run l t evs).core.live = false :=
  closed_implies_outcome_http1 l t evs ha hset hrh hC hpt hW

/-- an HTTP/2 exchange with trailers in both directions: admissible, ordered, and the trailers are forwarded after
    the hooks -/
private def exH2 : List Ev :=
  [.reqHeaders false 0 .norm false, .reqData 3, .hookDone .requestheaders .pass, .reqTrailers, .reqEOM,
   .hookDone .request .pass, .connDone true, .respHeaders false 0 .norm, .respData 2, .hookDone .responseheaders .pass,
   .respTrailers, .respEOM, .hookDone .response .pass]

example : admissible (init 0 0) .none exH2 = true ∧ (run 0 0 exH2).core.bad = false ∧
    (run 0 0 exH2).trace = [.hook .requestheaders, .hook .request, .getConn, .send false .rh, .send false .rd,
      .send false .rt, .send false .re, .hook .responseheaders, .hook .response, .send true .sh, .send true .sd,
      .send true .st, .drop, .send true .se] := by decide

/-- trailers outside the body phase are not something the emitter delivers -/
example : admissible (init 0 0) .none [.reqHeaders true 0 .norm false, .reqEOM, .reqTrailers] = false := by decide

-- non-vacuity: the hypotheses are satisfiable by real histories, and the model is not constant ------------------

/-- GET, unstreamed, 4-byte response, then the exchange is complete (stream dropped) -/
private def exOK : List Ev :=
  [.reqHeaders true 0 .norm false, .reqEOM, .hookDone .requestheaders .pass, .hookDone .request .pass, .connDone true,
   .respHeaders false 4 .norm, .hookDone .responseheaders .pass, .respData 4, .respEOM, .hookDone .response .pass]

example : (run 0 0 exOK).core.bad = false ∧ (run 0 0 exOK).settled = true ∧ (run 0 0 exOK).core.isConnect = false ∧
    (run 0 0 exOK).core.pt = false ∧ (run 0 0 exOK).core.websocket = false ∧ Out.streamStart ∉ (run 0 0 exOK).trace ∧
    (run 0 0 exOK).trace.filterMap (fun o => match o with | .hook h => some h | _ => none)
      = [.requestheaders, .request, .responseheaders, .response] := by decide

/-- the flow is killed in the requestheaders hook, the client then disconnects: outcome `error` -/
private def exKill : List Ev :=
  [.reqHeaders true 0 .norm false, .reqEOM, .hookDone .requestheaders .kill, .hookDone .error .pass, .reqErr]

example : (run 0 0 exKill).core.bad = false ∧ (run 0 0 exKill).settled = true ∧ (run 0 0 exKill).core.live = false ∧
    (run 0 0 exKill).trace.filterMap (fun o => match o with | .hook h => some h | _ => none)
      = [.requestheaders, .error] := by decide

/-- a streamed upload (stream_large_bodies = 10, Content-Length 30) with an early response: `request` fires last -/
private def exStream : List Ev :=
  [.reqHeaders false 30 .norm false, .hookDone .requestheaders .pass, .connDone true, .reqData 30,
   .respHeaders true 0 .norm, .respEOM, .hookDone .responseheaders .pass, .hookDone .response .pass,
   .reqEOM, .hookDone .request .pass]

example : (run 0 10 exStream).core.bad = false ∧ Out.streamStart ∈ (run 0 10 exStream).trace ∧
    (run 0 10 exStream).trace.filterMap (fun o => match o with | .hook h => some h | _ => none)
      = [.requestheaders, .responseheaders, .response, .request] := by decide

/-- the grammar monitor does reject something: a response event for a stream that never went upstream -/
example : (run 0 0 [.reqHeaders true 0 .norm false, .hookDone .requestheaders .pass, .respEOM]).core.bad = true := by decide

/-- the three example histories are ones the emitter delivers; the rejected one is not -/
example : Admissible 0 0 exOK ∧ Admissible 0 0 exKill ∧ Admissible 0 10 exStream := by
  simp only [Admissible]; decide
example : ¬Admissible 0 0 [.reqHeaders true 0 .norm false, .hookDone .requestheaders .pass, .respEOM] := by
  simp only [Admissible]; decide

end MitmVerif.Props.C03

-- ------------------------------------------------------------------------------------------------
-- audit round 6 (added by the C01/C02 builder): further non-vacuity witnesses for `closed_implies_outcome`
namespace MitmVerif.Props.C03
open MitmVerif.C03

/-- server-side fault after responseheaders: every hypothesis of `closed_implies_outcome_http1` holds (admissible,
    settled, requestheaders fired, not CONNECT / pipe / websocket) and the outcome is `error`, not `response` -/
private def exSrvErr : List Ev :=
  [.reqHeaders true 0 .norm false, .reqEOM, .hookDone .requestheaders .pass, .hookDone .request .pass, .connDone true,
   .respHeaders false 4 .norm, .hookDone .responseheaders .pass, .respErr, .hookDone .error .pass]

example : admissible (init 0 0) .none exSrvErr = true ∧ (run 0 0 exSrvErr).settled = true ∧
    (run 0 0 exSrvErr).core.isConnect = false ∧ (run 0 0 exSrvErr).core.pt = false ∧
    (run 0 0 exSrvErr).core.websocket = false ∧ (run 0 0 exSrvErr).core.live = false ∧
    (run 0 0 exSrvErr).trace.filterMap (fun o => match o with | .hook h => some h | _ => none)
      = [.requestheaders, .request, .responseheaders, .error] := by decide

/-- the server connection cannot be established: outcome `error` before any response hook -/
private def exConnFail : List Ev :=
  [.reqHeaders true 0 .norm false, .reqEOM, .hookDone .requestheaders .pass, .hookDone .request .pass, .connDone false,
   .hookDone .error .pass]

example : admissible (init 0 0) .none exConnFail = true ∧ (run 0 0 exConnFail).settled = true ∧
    (run 0 0 exConnFail).core.isConnect = false ∧ (run 0 0 exConnFail).core.pt = false ∧
    (run 0 0 exConnFail).core.websocket = false ∧ (run 0 0 exConnFail).core.live = false ∧
    (run 0 0 exConnFail).trace.filterMap (fun o => match o with | .hook h => some h | _ => none)
      = [.requestheaders, .request, .error] := by decide

/-- body_size_limit = 5, Content-Length 30: the flow errors straight after requestheaders; the client then goes away -/
private def exTooLarge : List Ev :=
  [.reqHeaders false 30 .norm false, .hookDone .requestheaders .pass, .hookDone .error .pass, .reqErr]

example : admissible (init 5 0) .none exTooLarge = true ∧ (run 5 0 exTooLarge).settled = true ∧
    (run 5 0 exTooLarge).core.live = false ∧
    (run 5 0 exTooLarge).trace.filterMap (fun o => match o with | .hook h => some h | _ => none)
      = [.requestheaders, .error] := by decide

/-- the exclusions are real: a websocket upgrade is an admissible history that fired requestheaders and `response`,
    became a pipe with a live flow, and is never `settled` by the client going away afterwards -/
private def exWs : List Ev :=
  [.reqHeaders true 0 .norm true, .reqEOM, .hookDone .requestheaders .pass, .hookDone .request .pass, .connDone true,
   .respHeaders true 0 .ws101, .hookDone .responseheaders .pass, .respEOM, .hookDone .response .pass, .reqErr]

example : admissible (init 0 0) .none exWs = true ∧ (run 0 0 exWs).core.pt = true ∧ (run 0 0 exWs).core.websocket = true ∧
    (run 0 0 exWs).core.live = true ∧ (run 0 0 exWs).settled = false := by decide

/-- CONNECT never fires requestheaders (so `hrh` already excludes tunnels; `isConnect = false` is belt and braces) -/
example : admissible (init 0 0) .none [.reqHeaders true 0 .connect false, .reqEOM, .hookDone .connect .pass, .openDone false,
      .hookDone .connectError .pass] = true ∧
    Out.hook .requestheaders ∉ (run 0 0 [.reqHeaders true 0 .connect false, .reqEOM, .hookDone .connect .pass, .openDone false,
      .hookDone .connectError .pass]).trace := by decide

end MitmVerif.Props.C03
